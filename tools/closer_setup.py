#!/venv/bin/python
"""tools/closer_setup.py <Cxx> <seed id> [<seed id> ...] [--extra TEXT]: write /tmp/closers/<Cxx>.md, the task of
a sub-agent that widens the check of <Cxx> so that it reports the given missed seeded changes
(template: seeded-prompts/CLOSER.txt)."""
import json, os, sys
VERIF = os.path.dirname(os.path.dirname(os.path.abspath(__file__)))
argv = sys.argv[1:]
extra = ""
if "--extra" in argv:
    i = argv.index("--extra"); extra = argv[i + 1]; del argv[i:i + 2]
pid, seeds = argv[0], argv[1:]
t = open(os.path.join(VERIF, "seeded-prompts", "CLOSER.txt")).read()
missed = []
for s in seeds:
    m = json.load(open(os.path.join(VERIF, "seeded", s, "meta.json")))
    missed.append("/verif/seeded/%s : [%s] %s" % (s, ", ".join(m.get("files", [])), " ".join(str(m.get("summary", "")).split())[:600]))
try:
    qt = json.load(open(os.path.join(VERIF, "evidence", pid + ".json"))).get("wall_s", "?")
except Exception:
    qt = "?"
allseeds = " ".join(sorted(d for d in os.listdir(os.path.join(VERIF, "seeded")) if d.startswith(pid + "-") and d not in seeds))
t = t.replace("MISSED", "\n    ".join(missed)).replace("QUICKTIME", str(qt)).replace("ALLSEEDS", allseeds)
t = t.replace("cNN", "c" + pid[1:]).replace("PID", pid)
if extra:
    t += "\nAdditional task: " + extra + "\n"
os.makedirs("/tmp/closers", exist_ok=True)
open("/tmp/closers/%s.md" % pid, "w").write(t)
print("/tmp/closers/%s.md" % pid, len(t))
