#!/venv/bin/python
"""tools/seed_refresh.py [-j N] [--tier quick|both] [<seed id> ...]

Re-evaluate kept seeded changes (all of /verif/seeded by default) with tools/seed_eval.py, N at a time
(each in its own scratch worktree), and rewrite their eval.json. Prints one line per seed and, at the
end, the seeds that no check reported."""
import concurrent.futures
import json
import os
import subprocess
import sys

HERE = os.path.dirname(os.path.abspath(__file__))
VERIF = os.path.dirname(HERE)


def one(seed, tier, jobs):
    d = os.path.join(VERIF, "seeded", seed)
    env = dict(os.environ, VERIF_JOBS=str(jobs))
    p = subprocess.run([sys.executable, os.path.join(HERE, "seed_eval.py"), d, "--tier", tier],
                       stdout=subprocess.PIPE, stderr=subprocess.STDOUT, text=True, env=env)
    txt = p.stdout
    i = txt.rfind("\n{\n")
    try:
        out = json.loads(txt[i + 1:] if i >= 0 else txt[txt.index("{"):])
    except ValueError:
        out = {"seed": d, "error": txt[-500:]}
    with open(os.path.join(d, "eval.json"), "w") as f:
        json.dump(out, f, indent=1)
        f.write("\n")
    return seed, out


def main(argv):
    n, tier, ids = 2, "quick", []
    i = 0
    while i < len(argv):
        if argv[i] == "-j":
            n = int(argv[i + 1]); i += 2
        elif argv[i] == "--tier":
            tier = argv[i + 1]; i += 2
        else:
            ids.append(argv[i]); i += 1
    if not ids:
        ids = sorted(os.listdir(os.path.join(VERIF, "seeded")))
    jobs = max(4, (os.cpu_count() or 8) // n)
    missed = []
    with concurrent.futures.ThreadPoolExecutor(n) as ex:
        for seed, out in ex.map(lambda s: one(s, tier, jobs), ids):
            checks = {k: v for k, v in out.get("checks", {}).items() if not k.endswith("/log")}
            caught = any(v.startswith("VIOLATION") for v in checks.values())
            ok = (out.get("demo_clean") == "pass" and out.get("apply") == "ok"
                  and str(out.get("tests", "")).startswith("153 passed, rc=0") and out.get("demo_mutant") == "fails")
            print(seed, "| valid" if ok else "| INVALID %r" % {k: out.get(k) for k in ("demo_clean", "apply", "tests", "demo_mutant", "error")},
                  "|", {k: v[:40] for k, v in checks.items()})
            sys.stdout.flush()
            if not (caught and ok):
                missed.append(seed)
    print("NOT REPORTED OR INVALID:", missed)


if __name__ == "__main__":
    main(sys.argv[1:])
