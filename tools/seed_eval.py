#!/venv/bin/python
"""Evaluate a seeded property-breaking change (directory with patch.diff, demo.py, meta.json).

    tools/seed_eval.py <seed dir> [--checks C01,C05] [--tier quick|thorough|both] [--skip-tests]

Creates a scratch git worktree of /repo's HEAD under /tmp/wt, applies the patch there, and reports
  1. whether the repository's own test-suite still passes with the change,
  2. whether demo.py fails with the change and passes without it,
  3. which of the given checks (default: the property named in meta.json) report a violation when
     run with VERIF_REPO pointing at the changed tree (quick first, thorough if quick is silent).
The worktree is removed afterwards. Prints one JSON line at the end (also returned to callers).
"""
import json
import os
import re
import shutil
import subprocess
import sys
import tempfile

VERIF = os.path.dirname(os.path.dirname(os.path.abspath(__file__)))


def sh(cmd, **kw):
    p = subprocess.run(cmd, stdout=subprocess.PIPE, stderr=subprocess.STDOUT, text=True, **kw)
    return p.returncode, p.stdout


def main(argv):
    seed = os.path.abspath(argv[0])
    checks = None
    tier = "both"
    skip_tests = False
    i = 1
    while i < len(argv):
        if argv[i] == "--checks":
            checks = argv[i + 1].split(","); i += 2
        elif argv[i] == "--tier":
            tier = argv[i + 1]; i += 2
        elif argv[i] == "--skip-tests":
            skip_tests = True; i += 1
        else:
            raise SystemExit("unknown arg " + argv[i])
    meta = json.load(open(os.path.join(seed, "meta.json")))
    if checks is None:
        checks = meta.get("checks") or [meta["property"]]
    os.makedirs("/tmp/wt", exist_ok=True)
    wt = tempfile.mkdtemp(prefix="eval_", dir="/tmp/wt")
    os.rmdir(wt)
    out = {"seed": seed, "property": meta.get("property")}
    rc, o = sh(["git", "-C", "/repo", "worktree", "add", "-q", "--detach", wt, "HEAD"])
    if rc:
        raise SystemExit("worktree failed: " + o)
    evd = tempfile.mkdtemp(prefix="lena-verif-seedeval-")
    try:
        env = dict(os.environ, PYTHONPATH=wt, PYTHONDONTWRITEBYTECODE="1")
        rc, o = sh(["/venv/bin/python", os.path.join(seed, "demo.py")], env=env, cwd=evd)
        out["demo_clean"] = "pass" if rc == 0 else "FAIL(rc=%d)" % rc
        rc, o = sh(["git", "-C", wt, "apply", os.path.join(seed, "patch.diff")])
        if rc:
            out["apply"] = "FAILED: " + o[-300:]
            print(json.dumps(out))
            return out
        out["apply"] = "ok"
        if not skip_tests:
            rc, o = sh(["/venv/bin/python", "-m", "pytest", "-q", "-p", "no:cacheprovider", "-x"],
                       cwd=wt, env=env)
            m = re.search(r"(\d+) passed", o)
            out["tests"] = "%s passed, rc=%d" % (m.group(1) if m else "?", rc)
            if rc:
                out["tests_tail"] = o[-600:]
        rc, o = sh(["/venv/bin/python", os.path.join(seed, "demo.py")], env=env, cwd=evd)
        out["demo_mutant"] = "fails" if rc != 0 else "PASSES(not broken?)"
        out["demo_output"] = o.strip().splitlines()[-1][:300] if o.strip() else ""
        out["checks"] = {}
        for c in checks:
            tiers = ["quick", "thorough"] if tier == "both" else [tier]
            for t in tiers:
                env2 = dict(os.environ, VERIF_REPO=wt, VERIF_EVIDENCE_DIR=evd, VERIF_REPLAY_DIR=evd)
                # an evaluation must not be cut short by the wall-clock budget of the tier (a loaded machine
                # would turn "stopped early" into "silent"); an incomplete silent run is reported as such
                env2.setdefault("VERIF_BUDGET_S", "3000")
                rc, o = sh([os.path.join(VERIF, "check"), c, "--tier", t], env=env2, cwd=VERIF)
                viol = [l for l in o.splitlines() if l.startswith("violation ")]
                verdict = {0: "silent", 1: "VIOLATION", 2: "internal-error"}.get(rc, "rc=%d" % rc)
                if rc == 0 and "exhaustive=False" in o:
                    verdict = "silent-INCOMPLETE (budget stop)"
                out["checks"]["%s/%s" % (c, t)] = verdict + ((": " + viol[0][:300]) if viol else "")
                if rc == 2:
                    out["checks"]["%s/%s/log" % (c, t)] = o[-800:]
                if rc == 1:
                    break
    finally:
        sh(["git", "-C", "/repo", "worktree", "remove", "--force", wt])
        shutil.rmtree(evd, ignore_errors=True)
    print(json.dumps(out, indent=1))
    return out


if __name__ == "__main__":
    main(sys.argv[1:])
