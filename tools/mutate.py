#!/venv/bin/python
"""tools/mutate.py gen|tests|checks|report [options]

Development aid, not a check: mechanical single-token changes (the classic mutation operators) to the
files the properties are anchored in, to measure what the checks notice besides the hand-made seeded
changes of /verif/seeded.

    gen     enumerate the changes (all operators at all sites, deterministic) -> WORK/index.json
    tests   run the repository's test-suite on each change (scratch copies under WORK); keep the ones
            the suite does not notice                                          -> WORK/survivors.json
    checks  [--stride k --offset o --ops a,b] for every k-th surviving change run the quick tier of the
            checks of the properties anchored in the changed file (cheapest first, stop at the first
            VIOLATION), then of all other properties                           -> WORK/results.jsonl
    report  table of WORK/results.jsonl; the changes no check reports are written as patches to
            WORK/unreported/ for triage (equivalent change, outside every property, or a gap)

WORK is /tmp/lena-mutants (scratch only; nothing a registered command needs). /repo is never touched."""
import ast
import concurrent.futures
import json
import os
import re
import shutil
import subprocess
import sys

VERIF = os.path.dirname(os.path.dirname(os.path.abspath(__file__)))
REPO = "/repo"
WORK = "/tmp/lena-mutants"

CMP = {ast.Lt: "<=", ast.LtE: "<", ast.Gt: ">=", ast.GtE: ">", ast.Eq: "!=", ast.NotEq: "==",
       ast.Is: "is not", ast.IsNot: "is", ast.In: "not in", ast.NotIn: "in"}
CMP_TXT = {ast.Lt: "<", ast.LtE: "<=", ast.Gt: ">", ast.GtE: ">=", ast.Eq: "==", ast.NotEq: "!=",
           ast.Is: "is", ast.IsNot: "is not", ast.In: "in", ast.NotIn: "not in"}


def props():
    return [json.loads(l) for l in open(os.path.join(VERIF, "properties.jsonl")) if l.strip()]


def anchor_files():
    files = {}
    for p in props():
        for f in p["anchors"].get("files", []):
            files.setdefault(f, []).append(p["id"])
    return files


def seg(lines, node):
    if node.lineno != node.end_lineno:
        return None
    return lines[node.lineno - 1][node.col_offset:node.end_col_offset]


def gen_file(rel):
    path = os.path.join(REPO, rel)
    text = open(path).read()
    # col offsets are in utf8 bytes; the files are ascii where it matters
    lines = text.split("\n")
    tree = ast.parse(text)
    docstrings = set()
    for n in ast.walk(tree):
        if isinstance(n, (ast.FunctionDef, ast.ClassDef, ast.Module)) and n.body and isinstance(n.body[0], ast.Expr) \
                and isinstance(getattr(n.body[0], "value", None), ast.Constant):
            docstrings.add(id(n.body[0].value))
    out = []

    def add(op, line, c0, c1, new):
        old = lines[line - 1][c0:c1]
        if old != new:
            out.append({"file": rel, "op": op, "line": line, "c0": c0, "c1": c1, "old": old, "new": new})

    in_func = set()
    for fn in ast.walk(tree):
        if isinstance(fn, (ast.FunctionDef, ast.AsyncFunctionDef)):
            for n in ast.walk(fn):
                in_func.add(id(n))
    for n in ast.walk(tree):
        if id(n) not in in_func or not hasattr(n, "lineno"):
            continue
        if not all(ord(ch) < 128 for ch in lines[n.lineno - 1]):
            continue
        if isinstance(n, ast.Compare) and len(n.ops) == 1 and n.lineno == n.end_lineno:
            l, r = n.left, n.comparators[0]
            if l.end_lineno == r.lineno == n.lineno:
                between = lines[n.lineno - 1][l.end_col_offset:r.col_offset]
                t = CMP_TXT[type(n.ops[0])]
                m = re.search(r"(?<![=!<>])" + re.escape(t).replace(r"\ ", r"\s+") + r"(?![=])", between)
                if m:
                    add("cmp", n.lineno, l.end_col_offset + m.start(), l.end_col_offset + m.end(), CMP[type(n.ops[0])])
        elif isinstance(n, ast.BoolOp) and n.lineno == n.end_lineno and len(n.values) >= 2:
            a, b = n.values[0], n.values[1]
            if a.end_lineno == b.lineno == n.lineno:
                between = lines[n.lineno - 1][a.end_col_offset:b.col_offset]
                t = "and" if isinstance(n.op, ast.And) else "or"
                m = re.search(r"\b%s\b" % t, between)
                if m:
                    add("bool", n.lineno, a.end_col_offset + m.start(), a.end_col_offset + m.end(),
                        "or" if t == "and" else "and")
        elif isinstance(n, ast.UnaryOp) and isinstance(n.op, ast.Not) and n.lineno == n.end_lineno:
            s = seg(lines, n.operand)
            if s is not None:
                add("not", n.lineno, n.col_offset, n.end_col_offset, "(" + s + ")")
        elif isinstance(n, ast.Constant) and id(n) not in docstrings and n.lineno == n.end_lineno:
            if isinstance(n.value, bool):
                add("const", n.lineno, n.col_offset, n.end_col_offset, str(not n.value))
            elif isinstance(n.value, int) and -2 <= n.value <= 16:
                add("const", n.lineno, n.col_offset, n.end_col_offset, str(n.value + 1))
                if n.value >= 1:
                    add("const", n.lineno, n.col_offset, n.end_col_offset, str(n.value - 1))
        elif isinstance(n, ast.BinOp) and isinstance(n.op, (ast.Add, ast.Sub)) and n.lineno == n.end_lineno:
            l, r = n.left, n.right
            if l.end_lineno == r.lineno == n.lineno:
                between = lines[n.lineno - 1][l.end_col_offset:r.col_offset]
                t = "+" if isinstance(n.op, ast.Add) else "-"
                k = between.find(t)
                if k >= 0 and not isinstance(l, ast.Constant) or (k >= 0 and not isinstance(getattr(l, "value", 0), str)):
                    add("arith", n.lineno, l.end_col_offset + k, l.end_col_offset + k + 1, "-" if t == "+" else "+")
        elif isinstance(n, ast.Call) and n.lineno == n.end_lineno:
            fname = seg(lines, n.func) or ""
            if fname in ("copy.deepcopy", "deepcopy", "copy.copy") and len(n.args) == 1 and not n.keywords:
                s = seg(lines, n.args[0])
                if s is not None:
                    add("nocopy", n.lineno, n.col_offset, n.end_col_offset, s)
            elif len(n.args) >= 2 and all(isinstance(a, ast.Name) for a in n.args[:2]):
                a, b = n.args[0], n.args[1]
                if a.id != b.id:
                    add("swapargs", n.lineno, a.col_offset, b.end_col_offset,
                        b.id + lines[n.lineno - 1][a.end_col_offset:b.col_offset] + a.id)
        elif isinstance(n, ast.Break):
            add("loop", n.lineno, n.col_offset, n.end_col_offset, "continue")
        elif isinstance(n, ast.Continue):
            add("loop", n.lineno, n.col_offset, n.end_col_offset, "break")
        elif isinstance(n, (ast.If, ast.While)):
            s = seg(lines, n.test)
            if s is not None and not (isinstance(n.test, ast.UnaryOp) and isinstance(n.test.op, ast.Not)):
                add("negate", n.test.lineno, n.test.col_offset, n.test.end_col_offset, "not (" + s + ")")
        elif isinstance(n, ast.Expr) and isinstance(n.value, ast.Call) and n.lineno == n.end_lineno:
            add("delstmt", n.lineno, n.col_offset, n.end_col_offset, "pass")
        elif isinstance(n, (ast.Assign, ast.AugAssign)) and n.lineno == n.end_lineno:
            if isinstance(n, ast.AugAssign):
                add("delstmt", n.lineno, n.col_offset, n.end_col_offset, "pass")
    return out


def cmd_gen(argv):
    os.makedirs(WORK, exist_ok=True)
    files = anchor_files()
    muts = []
    for rel in sorted(files):
        if os.path.exists(os.path.join(REPO, rel)):
            muts.extend(gen_file(rel))
    seen, uniq = set(), []
    for m in muts:
        k = (m["file"], m["line"], m["c0"], m["c1"], m["new"])
        if k not in seen:
            seen.add(k)
            m["id"] = len(uniq)
            m["props"] = files[m["file"]]
            uniq.append(m)
    json.dump(uniq, open(os.path.join(WORK, "index.json"), "w"))
    import collections
    print(len(uniq), "changes", dict(collections.Counter(m["op"] for m in uniq)))


def make_copy(k):
    d = os.path.join(WORK, "w%d" % k)
    if os.path.exists(d):
        shutil.rmtree(d)
    os.makedirs(d)
    for name in ("lena", "tests", "pytest.ini", "setup.cfg", "conftest.py", "tox.ini"):
        src = os.path.join(REPO, name)
        if os.path.isdir(src):
            shutil.copytree(src, os.path.join(d, name), ignore=shutil.ignore_patterns("__pycache__"))
        elif os.path.exists(src):
            shutil.copy(src, d)
    return d


def apply(d, m):
    path = os.path.join(d, m["file"])
    lines = open(os.path.join(REPO, m["file"])).read().split("\n")
    ln = lines[m["line"] - 1]
    assert ln[m["c0"]:m["c1"]] == m["old"], (m, ln)
    lines[m["line"] - 1] = ln[:m["c0"]] + m["new"] + ln[m["c1"]:]
    open(path, "w").write("\n".join(lines))


def restore(d, m):
    shutil.copy(os.path.join(REPO, m["file"]), os.path.join(d, m["file"]))


def test_worker(args):
    k, chunk = args
    d = make_copy(k)
    env = dict(os.environ, PYTHONPATH=d, PYTHONDONTWRITEBYTECODE="1")
    out = []
    for m in chunk:
        apply(d, m)
        try:
            p = subprocess.run(["/venv/bin/python", "-m", "pytest", "-q", "-x", "-p", "no:cacheprovider", "--timeout=120"],
                               cwd=d, env=env, stdout=subprocess.PIPE, stderr=subprocess.STDOUT, text=True, timeout=600)
            ok = p.returncode == 0 and "153 passed" in p.stdout
        except subprocess.TimeoutExpired:
            ok = False
        restore(d, m)
        if ok:
            out.append(m["id"])
    shutil.rmtree(d, ignore_errors=True)
    return out


def cmd_tests(argv):
    muts = json.load(open(os.path.join(WORK, "index.json")))
    n = 16
    chunks = [(k, muts[k::n]) for k in range(n)]
    surv = []
    with concurrent.futures.ProcessPoolExecutor(n) as ex:
        for ids in ex.map(test_worker, chunks):
            surv.extend(ids)
    surv.sort()
    json.dump(surv, open(os.path.join(WORK, "survivors.json"), "w"))
    print(len(surv), "of", len(muts), "changes pass the test-suite")


def quick_cost():
    cost = {}
    for p in props():
        try:
            cost[p["id"]] = json.load(open(os.path.join(VERIF, "evidence", p["id"] + ".json"))).get("wall_s", 60)
        except (OSError, ValueError):
            cost[p["id"]] = 60
    return cost


def check_worker(args):
    k, chunk, jobs, all_props = args
    d = make_copy(1000 + k)
    cost = quick_cost()
    evd = os.path.join(d, "_ev")
    os.makedirs(evd)
    for m in chunk:
        apply(d, m)
        own = sorted(m["props"], key=lambda c: cost[c])
        rest = sorted((c for c in cost if c not in own), key=lambda c: cost[c]) if all_props else []
        rec = {"id": m["id"], "file": m["file"], "line": m["line"], "op": m["op"], "old": m["old"], "new": m["new"],
               "ran": {}, "caught_by": None}
        for c in own + rest:
            env = dict(os.environ, VERIF_REPO=d, VERIF_EVIDENCE_DIR=evd, VERIF_REPLAY_DIR=evd, VERIF_JOBS=str(jobs))
            p = subprocess.run([os.path.join(VERIF, "check"), c, "--tier", "quick"], env=env, cwd=VERIF,
                               stdout=subprocess.PIPE, stderr=subprocess.STDOUT, text=True)
            rec["ran"][c] = p.returncode
            if p.returncode == 1:
                rec["caught_by"] = c
                v = [l for l in p.stdout.splitlines() if l.startswith("violation ")]
                rec["cause"] = v[0][:200] if v else ""
                break
            if p.returncode not in (0, 1):
                rec.setdefault("errors", {})[c] = p.stdout[-400:]
        restore(d, m)
        with open(os.path.join(WORK, "results.jsonl"), "a") as f:
            f.write(json.dumps(rec) + "\n")
    shutil.rmtree(d, ignore_errors=True)
    return len(chunk)


def cmd_checks(argv):
    stride, offset, ops, par, all_props, files = 1, 0, None, 4, True, None
    i = 0
    while i < len(argv):
        if argv[i] == "--stride":
            stride = int(argv[i + 1]); i += 2
        elif argv[i] == "--offset":
            offset = int(argv[i + 1]); i += 2
        elif argv[i] == "--ops":
            ops = argv[i + 1].split(","); i += 2
        elif argv[i] == "--files":
            files = argv[i + 1].split(","); i += 2
        elif argv[i] == "--par":
            par = int(argv[i + 1]); i += 2
        elif argv[i] == "--own-only":
            all_props = False; i += 1
        else:
            raise SystemExit("unknown " + argv[i])
    muts = {m["id"]: m for m in json.load(open(os.path.join(WORK, "index.json")))}
    surv = json.load(open(os.path.join(WORK, "survivors.json")))
    done = set()
    rp = os.path.join(WORK, "results.jsonl")
    if os.path.exists(rp):
        done = {json.loads(l)["id"] for l in open(rp) if l.strip()}
    sel = [muts[i] for i in surv if (ops is None or muts[i]["op"] in ops)
           and (files is None or any(f in muts[i]["file"] for f in files))]
    sel = [m for m in sel[offset::stride] if m["id"] not in done]
    print(len(sel), "changes to run")
    jobs = max(2, 16 // par)
    chunks = [(k, sel[k::par], jobs, all_props) for k in range(par)]
    with concurrent.futures.ProcessPoolExecutor(par) as ex:
        list(ex.map(check_worker, chunks))


def cmd_report(argv):
    recs = [json.loads(l) for l in open(os.path.join(WORK, "results.jsonl")) if l.strip()]
    muts = {m["id"]: m for m in json.load(open(os.path.join(WORK, "index.json")))}
    caught = [r for r in recs if r["caught_by"]]
    own = [r for r in caught if r["caught_by"] in muts[r["id"]]["props"]]
    errs = [r for r in recs if r.get("errors")]
    print("%d changes run; %d reported (%d by a check of a property anchored in the file); %d with internal errors"
          % (len(recs), len(caught), len(own), len(errs)))
    ud = os.path.join(WORK, "unreported")
    shutil.rmtree(ud, ignore_errors=True)
    os.makedirs(ud)
    for r in recs:
        if r["caught_by"]:
            continue
        src = open(os.path.join(REPO, r["file"])).read().split("\n")
        ctx = "\n".join("    " + l for l in src[max(0, r["line"] - 4):r["line"] + 2])
        print("UNREPORTED #%d %s:%d [%s] %r -> %r   errors=%s" % (r["id"], r["file"], r["line"], r["op"], r["old"], r["new"],
                                                                  sorted(r.get("errors", {}))))
        print("    " + src[r["line"] - 1].strip())
    for r in errs:
        print("INTERNAL ERROR #%d %s:%d %r -> %r : %s" % (r["id"], r["file"], r["line"], r["old"], r["new"],
                                                         {c: e[-200:] for c, e in r["errors"].items()}))


if __name__ == "__main__":
    {"gen": cmd_gen, "tests": cmd_tests, "checks": cmd_checks, "report": cmd_report}[sys.argv[1]](sys.argv[2:])
