#!/venv/bin/python
"""tools/add_fixed.py <id> <property> <commit> <what failed>  - append a 'fixed' entry to known_findings.json"""
import json, sys, os
p = os.path.join(os.path.dirname(os.path.dirname(os.path.abspath(__file__))), "known_findings.json")
fid, prop, commit, what = sys.argv[1:5]
d = json.load(open(p))
d["findings"] = [e for e in d["findings"] if not (e["id"] == fid and e["property"] == prop)]
d["findings"].append({"id": fid, "status": "fixed", "property": prop, "commit": commit, "what": what,
                      "line": "fixed: property=%s %s %s" % (prop, commit, what)})
json.dump(d, open(p, "w"), indent=1)
open(p, "a").write("\n")
