#!/venv/bin/python
"""Print the markdown table of seeded changes (seeded/*/meta.json + eval.json) for DESIGN.md section 9.4."""
import json
import os

VERIF = os.path.dirname(os.path.dirname(os.path.abspath(__file__)))


def main():
    root = os.path.join(VERIF, "seeded")
    print("| id | change (needs) | tests | demo | caught by |")
    print("|----|----------------|-------|------|-----------|")
    for d in sorted(os.listdir(root)):
        mp, ep = os.path.join(root, d, "meta.json"), os.path.join(root, d, "eval.json")
        if not os.path.exists(mp):
            continue
        m = json.load(open(mp))
        e = json.load(open(ep)) if os.path.exists(ep) else {}
        caught = []
        for k, v in sorted(e.get("checks", {}).items()):
            if k.endswith("/log"):
                continue
            if v.startswith("VIOLATION"):
                law = ""
                i = v.find("cause=")
                if i >= 0:
                    try:
                        c = json.loads(v[i + 6:])
                        law = c.get("law") or c.get("kind") or ""
                    except ValueError:
                        j = v.find('"law": "')
                        law = v[j + 8:].split('"')[0] if j >= 0 else ""
                caught.append("%s (%s)" % (k, law) if law else k)
            elif v.startswith("silent"):
                caught.append("%s silent" % k)
            else:
                caught.append("%s %s" % (k, v[:20]))
        summ = " ".join((m.get("summary") or "").split())[:150]
        needs = " ".join((m.get("needs") or "").split())[:130]
        print("| %s | %s (%s) | %s | %s | %s |" % (
            d, summ.replace("|", "/"), needs.replace("|", "/"), (e.get("tests") or "?").split(",")[0],
            e.get("demo_mutant", "?"), "; ".join(caught)))


if __name__ == "__main__":
    main()
