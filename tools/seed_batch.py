#!/venv/bin/python
"""tools/seed_batch.py <Cxx> [<Cxx> ...] [--tier quick|thorough|both]

Import the sub-agent results /tmp/wt/mut_<Cxx>/_mut/m<i>/ into /verif/seeded/<Cxx>-m<i>/ (if not there yet)
and evaluate each with tools/seed_eval.py; the result is stored as eval.json next to the patch and a
one-line summary is printed."""
import json
import os
import shutil
import sys

HERE = os.path.dirname(os.path.abspath(__file__))
VERIF = os.path.dirname(HERE)
sys.path.insert(0, HERE)
import seed_eval  # noqa


def main(argv):
    tier = "both"
    ids = []
    i = 0
    while i < len(argv):
        if argv[i] == "--tier":
            tier = argv[i + 1]; i += 2
        else:
            ids.append(argv[i]); i += 1
    for pid in ids:
        src = "/tmp/wt/mut_%s/_mut" % pid[:3]
        names = sorted(n for n in os.listdir(src) if n.startswith("m") and os.path.isdir(os.path.join(src, n))) \
            if os.path.isdir(src) else []
        for n in names:
            dst = os.path.join(VERIF, "seeded", "%s-%s" % (pid[:3], n))
            if not os.path.exists(dst):
                os.makedirs(os.path.dirname(dst), exist_ok=True)
                shutil.copytree(os.path.join(src, n), dst)
        for d in sorted(os.listdir(os.path.join(VERIF, "seeded"))):
            if not (d.startswith(pid + "-") or d == pid):
                continue
            seed = os.path.join(VERIF, "seeded", d)
            sys.stdout.flush()
            old = sys.stdout
            sys.stdout = open(os.devnull, "w")
            try:
                out = seed_eval.main([seed, "--tier", tier])
            finally:
                sys.stdout = old
            with open(os.path.join(seed, "eval.json"), "w") as f:
                json.dump(out, f, indent=1)
                f.write("\n")
            print(d, "| demo clean:", out.get("demo_clean"), "| apply:", out.get("apply"), "| tests:", out.get("tests"),
                  "| demo mutant:", out.get("demo_mutant"), "|", {k: v[:60] for k, v in out.get("checks", {}).items()})
            sys.stdout.flush()


if __name__ == "__main__":
    main(sys.argv[1:])
