#!/venv/bin/python
"""Regenerate /verif/MANIFEST.json from the constants of the check modules (mc/checks/cNN.py).
A property without a check module is listed under not_applicable with the reason given in
tools/not_applicable.json (or a work-in-progress note)."""
import importlib
import json
import os
import sys

VERIF = os.path.dirname(os.path.dirname(os.path.abspath(__file__)))
sys.path.insert(0, VERIF)
sys.path.insert(0, "/repo")

BASELINE = ("cd /repo && /venv/bin/python -m pytest -ra -q -p no:cacheprovider --timeout=900 "
            "--continue-on-collection-errors")


def main():
    props = [json.loads(l) for l in open(os.path.join(VERIF, "properties.jsonl"))]
    na_path = os.path.join(VERIF, "tools", "not_applicable.json")
    na_reasons = json.load(open(na_path)) if os.path.exists(na_path) else {}
    checks, na, served = [], [], []
    for p in props:
        pid = p["id"]
        path = os.path.join(VERIF, "mc", "checks", pid.lower() + ".py")
        if pid in na_reasons or not os.path.exists(path):
            na.append({"property_id": pid,
                       "reason": na_reasons.get(pid, "check not built yet (work in progress; see DESIGN.md section 5)")})
            continue
        mod = importlib.import_module("mc.checks." + pid.lower())
        served.append(pid)
        checks.append({
            "property_id": pid,
            "quick_cmd": "./check %s --tier quick" % pid,
            "thorough_cmd": "./check %s --tier thorough" % pid,
            "evidence_file": "/verif/evidence/%s.json" % pid,
            "replay_cmd_template": "./check %s --replay {path}" % pid,
            "engine": "mc",
            "level_claimed": {"category": mod.LEVEL,
                              "text": getattr(mod, "LEVEL_TEXT", mod.RULE),
                              "design_ref": mod.DESIGN_REF},
            "level_note": getattr(mod, "LEVEL_NOTE", "; ".join(mod.ASSUMPTIONS)),
            "technique": getattr(mod, "TECHNIQUE", "bounded exhaustive enumeration of the real code against a reference model"),
        })
    manifest = {
        "version": 1,
        "setup_cmd": "cd /verif && /venv/bin/python -m compileall -q mc tools >/dev/null && ./check --list >/dev/null",
        "hooks": {
            "guard": "LENA_VERIF",
            "enable": "not needed: all instrumentation is applied from outside lena (instrumented iterators, "
                      "sys.settrace step watchdog, fake subprocess.Popen patched in by the harness); "
                      "checks import lena from /repo's working tree (VERIF_REPO overrides for scratch copies)",
            "baseline_off_cmd": BASELINE,
            "source_commits": [],
            "add_only": True,
        },
        "engines": [{
            "name": "mc",
            "path": "/verif/mc",
            "serves_properties": served,
            "kind_free_text": "hand-written explicit-state / stateless bounded exhaustive explorer for Python "
                              "(drivers E1-E5 of DESIGN.md section 2) executing the real lena code at every point",
        }],
        "checks": checks,
        "not_applicable": na,
        "notes": "Every check is ./check <id>; evidence in /verif/evidence/<id>.json; known findings in "
                 "/verif/known_findings.json; seeded property-breaking changes in /verif/seeded/.",
    }
    with open(os.path.join(VERIF, "MANIFEST.json"), "w") as f:
        json.dump(manifest, f, indent=1)
        f.write("\n")
    print("MANIFEST.json: %d checks, %d not applicable" % (len(checks), len(na)))


if __name__ == "__main__":
    main()
