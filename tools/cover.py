#!/venv/bin/python
"""tools/cover.py [--tier quick] [--keep DIR] [<Cxx> ...]

Development aid, not a check: run the given checks (default: all) with VERIF_COVER set, so that every
shard records the lines of /repo/lena it executes, and report for every file a property is anchored in
the statements inside function bodies that (a) the property's own check and (b) no check at all
executes. Such lines are code behind a property that the enumerated alphabets never reach - the place
to widen an alphabet. Writes /verif/tools/cover_report.txt."""
import ast
import json
import os
import shutil
import subprocess
import sys
import tempfile

VERIF = os.path.dirname(os.path.dirname(os.path.abspath(__file__)))
REPO = os.path.realpath(os.environ.get("VERIF_REPO", "/repo"))


def body_statements(path):
    """Line numbers of statements inside function bodies (docstrings excluded)."""
    tree = ast.parse(open(path).read())
    lines = set()
    for fn in ast.walk(tree):
        if isinstance(fn, (ast.FunctionDef, ast.AsyncFunctionDef)):
            body = fn.body
            if body and isinstance(body[0], ast.Expr) and isinstance(getattr(body[0], "value", None), ast.Constant) \
                    and isinstance(body[0].value.value, str):
                body = body[1:]
            for st in body:
                for node in ast.walk(st):
                    if isinstance(node, ast.stmt) and not isinstance(node, (ast.FunctionDef, ast.ClassDef)):
                        lines.add(node.lineno)
    return lines


def main(argv):
    tier, keep, ids = "quick", None, []
    i = 0
    while i < len(argv):
        if argv[i] == "--tier":
            tier = argv[i + 1]; i += 2
        elif argv[i] == "--keep":
            keep = argv[i + 1]; i += 2
        else:
            ids.append(argv[i]); i += 1
    props = [json.loads(l) for l in open(os.path.join(VERIF, "properties.jsonl")) if l.strip()]
    ids = ids or [p["id"] for p in props]
    cdir = keep or tempfile.mkdtemp(prefix="lena-verif-cover-")
    os.makedirs(cdir, exist_ok=True)
    evd = tempfile.mkdtemp(prefix="lena-verif-cover-ev-")
    for pid in ids:
        if any(n.startswith(pid.lower() + ".") for n in os.listdir(cdir)):
            continue
        env = dict(os.environ, VERIF_COVER=cdir, VERIF_EVIDENCE_DIR=evd, VERIF_REPLAY_DIR=evd)
        p = subprocess.run([os.path.join(VERIF, "check"), pid, "--tier", tier], env=env, cwd=VERIF,
                           stdout=subprocess.PIPE, stderr=subprocess.STDOUT, text=True)
        print(pid, "rc=%d" % p.returncode, p.stdout.strip().splitlines()[-1][:150])
        sys.stdout.flush()
    import coverage
    per = {}
    for pid in ids:
        files = [os.path.join(cdir, n) for n in os.listdir(cdir) if n.startswith(pid.lower() + ".")]
        data = coverage.CoverageData(no_disk=True)
        for f in files:
            d = coverage.CoverageData(basename=f)
            d.read()
            data.update(d)
        per[pid] = {f: set(data.lines(f) or ()) for f in data.measured_files()}
    allcov = {}
    for pid, d in per.items():
        for f, ls in d.items():
            allcov.setdefault(f, set()).update(ls)
    out = []
    for p in props:
        if p["id"] not in ids:
            continue
        out.append("=" * 100)
        out.append("%s  %s" % (p["id"], p["title"]))
        for rel in p["anchors"].get("files", []):
            path = os.path.join(REPO, rel)
            if not os.path.exists(path):
                continue
            stm = body_statements(path)
            own = per[p["id"]].get(path, set()) & stm
            al = allcov.get(path, set()) & stm
            out.append("  %-40s statements %4d | own check %5.1f%% | all checks %5.1f%%"
                       % (rel, len(stm), 100.0 * len(own) / max(1, len(stm)), 100.0 * len(al) / max(1, len(stm))))
            src = open(path).read().splitlines()
            miss_all = sorted(stm - al)
            miss_own = sorted((stm - own) - set(miss_all))
            for tag, miss in (("no check", miss_all), ("not own ", miss_own)):
                for ln in miss:
                    out.append("      %s %5d: %s" % (tag, ln, src[ln - 1].strip()[:110]))
    rep = os.path.join(VERIF, "tools", "cover_report.txt")
    with open(rep, "w") as f:
        f.write("\n".join(out) + "\n")
    print("written", rep)
    shutil.rmtree(evd, ignore_errors=True)
    if not keep:
        shutil.rmtree(cdir, ignore_errors=True)


if __name__ == "__main__":
    main(sys.argv[1:])
