#!/venv/bin/python
"""tools/seed_setup.py [--no-avoid] [<Cxx> ...]

Prepare the scratch worktrees of a wave of sub-agents: for every property a detached worktree of /repo's
HEAD at /tmp/wt/mut_<Cxx> with
    _mut/PROPERTY.json   the record of the property (nothing else from /verif), and
    _mut/AVOID.txt       one line per change that was proposed earlier for this property, and for other
                         properties in the files this property is anchored in (summaries written by the
                         earlier sub-agents themselves - not what the checks detect).
An existing worktree is left alone. Remove them with tools/seed_setup.py --remove."""
import json
import os
import subprocess
import sys

VERIF = os.path.dirname(os.path.dirname(os.path.abspath(__file__)))


def main(argv):
    remove = "--remove" in argv
    no_avoid = "--no-avoid" in argv
    ids = [a for a in argv if not a.startswith("--")] or ["C%02d" % i for i in range(1, 21)]
    props = {}
    for line in open(os.path.join(VERIF, "properties.jsonl")):
        if line.strip():
            r = json.loads(line)
            props[r["id"]] = r
    metas = []
    sd = os.path.join(VERIF, "seeded")
    for d in sorted(os.listdir(sd)):
        try:
            m = json.load(open(os.path.join(sd, d, "meta.json")))
        except (OSError, ValueError):
            continue
        metas.append((d, m))
    os.makedirs("/tmp/wt", exist_ok=True)
    for pid in ids:
        wt = "/tmp/wt/mut_%s" % pid
        if remove:
            subprocess.run(["git", "-C", "/repo", "worktree", "remove", "--force", wt])
            continue
        if not os.path.exists(wt):
            subprocess.run(["git", "-C", "/repo", "worktree", "add", "-q", "--detach", wt, "HEAD"], check=True)
        os.makedirs(os.path.join(wt, "_mut"), exist_ok=True)
        with open(os.path.join(wt, "_mut", "PROPERTY.json"), "w") as f:
            json.dump(props[pid], f, indent=1)
            f.write("\n")
        if no_avoid:
            continue
        files = set(props[pid]["anchors"].get("files", []))
        own, other = [], []
        for d, m in metas:
            line = "- [%s] %s" % (", ".join(m.get("files", [])), " ".join(str(m.get("summary", "")).split()))
            if d.startswith(pid + "-"):
                own.append(line)
            elif files & set(m.get("files", [])):
                other.append(line)
        with open(os.path.join(wt, "_mut", "AVOID.txt"), "w") as f:
            f.write("Changes already made for this property (do not repeat them or close variants):\n")
            f.write("\n".join(own) + "\n\n")
            f.write("Changes already made for other properties in the same files (do not repeat them either):\n")
            f.write("\n".join(other) + "\n")
        print(pid, wt, "avoid:", len(own), "+", len(other))
    if remove:
        subprocess.run(["git", "-C", "/repo", "worktree", "prune"])


if __name__ == "__main__":
    main(sys.argv[1:])
