#!/venv/bin/python
"""tools/seed_import.py <src dir name> <dst suffix> [<Cxx> ...]: copy /tmp/wt/mut_<Cxx>/_mut/<src>/ to
/verif/seeded/<Cxx>-<dst>/ (sub-agent results; only directories holding patch.diff, demo.py and meta.json)."""
import os
import shutil
import sys

VERIF = os.path.dirname(os.path.dirname(os.path.abspath(__file__)))


def main(argv):
    src, dst = argv[0], argv[1]
    ids = argv[2:] or ["C%02d" % i for i in range(1, 21)]
    for pid in ids:
        s = "/tmp/wt/mut_%s/_mut/%s" % (pid, src)
        d = os.path.join(VERIF, "seeded", "%s-%s" % (pid, dst))
        if not all(os.path.exists(os.path.join(s, f)) for f in ("patch.diff", "demo.py", "meta.json")):
            print(pid, src, "incomplete or missing")
            continue
        if os.path.exists(d):
            print(pid, dst, "exists")
            continue
        shutil.copytree(s, d, ignore=shutil.ignore_patterns("__pycache__", "tmp"))
        print(pid, src, "->", d)


if __name__ == "__main__":
    main(sys.argv[1:])
