"""Instrumentation seams applied from outside lena (DESIGN.md 2.3)."""
import contextlib
import os
import shutil
import sys
import tempfile
import weakref


class PullLog(object):
    """An iterator over *values* (or an endless counter when values is None) that appends
    ("pull", i) to *log* each time a value is requested and ("end",) on exhaustion."""

    def __init__(self, values, log, make=None):
        self._values = values
        self._i = 0
        self.log = log
        self._make = make
        self.pulled = 0
        self.exhausted = False

    def __iter__(self):
        return self

    def __next__(self):
        i = self._i
        if self._values is not None and i >= len(self._values):
            self.exhausted = True
            self.log.append(("end",))
            raise StopIteration
        self._i += 1
        self.pulled += 1
        self.log.append(("pull", i))
        if self._values is None:
            return self._make(i) if self._make else i
        return self._values[i]


class V(object):
    """A weak-referenceable value wrapper that behaves like its integer for the few
    operations the streaming alphabet uses."""
    __slots__ = ("i", "__weakref__")

    def __init__(self, i):
        self.i = i

    def __repr__(self):
        return "V(%r)" % (self.i,)

    def __eq__(self, other):
        return isinstance(other, V) and other.i == self.i

    def __hash__(self):
        return hash(("V", self.i))


class StepBudgetExceeded(BaseException):
    """Raised by the step watchdog: the call under test did not return within its budget."""


@contextlib.contextmanager
def step_budget(limit, root=None):
    """Count line events executed in files under *root* (default: the lena package under test)
    and raise StepBudgetExceeded after *limit* of them. Deterministic (no wall clock)."""
    if root is None:
        import lena
        root = os.path.dirname(os.path.realpath(lena.__file__))
    state = {"n": 0}

    def local(frame, event, arg):
        if event == "line":
            state["n"] += 1
            if state["n"] > limit:
                raise StepBudgetExceeded(state["n"])
        return local

    def tracer(frame, event, arg):
        fn = frame.f_code.co_filename
        if fn.startswith(root):
            return local
        return None

    old = sys.gettrace()
    sys.settrace(tracer)
    try:
        yield state
    finally:
        sys.settrace(old)


def freeze(x, _depth=0):
    """Canonical hashable form of plain data (dicts sorted by key repr)."""
    if _depth > 40:
        return ("deep", repr(x))
    if isinstance(x, dict):
        return ("d",) + tuple(sorted(((repr(k), freeze(v, _depth + 1)) for k, v in x.items())))
    if isinstance(x, (list, tuple)):
        return ("l" if isinstance(x, list) else "t",) + tuple(freeze(v, _depth + 1) for v in x)
    if isinstance(x, (set, frozenset)):
        return ("s",) + tuple(sorted(repr(freeze(v, _depth + 1)) for v in x))
    if isinstance(x, float):
        return ("f", repr(x))
    if x is None or isinstance(x, (bool, int, str, bytes)):
        return (type(x).__name__, x)
    if hasattr(x, "__dict__"):
        return ("o", type(x).__name__, freeze(vars(x), _depth + 1))
    return ("r", repr(x))


def mutable_ids(x, acc=None, _depth=0):
    """ids of all mutable containers (dict, list, set, objects with __dict__) reachable from x."""
    if acc is None:
        acc = {}
    if _depth > 40:
        return acc
    if isinstance(x, dict):
        if id(x) in acc:
            return acc
        acc[id(x)] = x
        for k, v in x.items():
            mutable_ids(v, acc, _depth + 1)
    elif isinstance(x, (list, set)):
        if id(x) in acc:
            return acc
        acc[id(x)] = x
        for v in x:
            mutable_ids(v, acc, _depth + 1)
    elif isinstance(x, (tuple, frozenset)):
        for v in x:
            mutable_ids(v, acc, _depth + 1)
    elif hasattr(x, "__dict__") and not isinstance(x, type) and not callable(x):
        if id(x) in acc:
            return acc
        acc[id(x)] = x
        mutable_ids(vars(x), acc, _depth + 1)
    return acc


@contextlib.contextmanager
def scratch_dir(prefix="lena-verif-"):
    """A private temporary directory, removed afterwards; the process works inside it."""
    base = os.environ.get("VERIF_TMPDIR") or tempfile.gettempdir()
    d = tempfile.mkdtemp(prefix=prefix, dir=base)
    old = os.getcwd()
    os.chdir(d)
    try:
        yield d
    finally:
        os.chdir(old)
        shutil.rmtree(d, ignore_errors=True)


def snapshot_dir(root):
    """Sorted tuple of (relative path, bytes) of every file below *root*."""
    out = []
    for dp, dns, fns in os.walk(root):
        dns.sort()
        for fn in sorted(fns):
            p = os.path.join(dp, fn)
            with open(p, "rb") as f:
                out.append((os.path.relpath(p, root), f.read()))
    return tuple(sorted(out))


def outcome_of(thunk, catch=(Exception,)):
    """("ok", value) or ("exc", exception type name)."""
    try:
        return ("ok", thunk())
    except StepBudgetExceeded:
        return ("exc", "StepBudgetExceeded")
    except catch as e:  # noqa
        return ("exc", type(e).__name__)
