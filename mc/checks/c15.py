"""C15 - Selectors evaluate compositionally; GroupBy partitions by the selected context.

Bounded exhaustive enumeration (driver E1) on the real lena code:

  * selector specifications (strings, classes, total / raising callables, SelectContext leaves, lists =
    OR, tuples = AND, Not) nested to the depth of the tier, both raise_on_error settings, in the forms
    Selector(spec), Or/And/Not used directly and with pre-built sub-selectors; every specification is
    evaluated on every value of a small family (data x contexts, with scalars on the dotted path) and
    the boolean / exception type is compared with a recursive reference evaluator (mc/ref/c15_model.py);
  * specifications whose sub-selectors carry their own raise_on_error (barrier semantics);
  * histories over ONE specification object (a list / tuple nested to depth 2, written once): several
    selectors are made from it one after another in every construction form (Selector, Or / And, Not,
    Filter, as the item of another list / tuple) and with both settings, each must evaluate the
    specification with its OWN raise_on_error; then the user edits the lists of his object (append,
    insert, pop, replace) and every selector must still evaluate the specification (as it was built
    from, or as the object reads now - both readings accepted);
  * SelectContext over present / absent / through-a-scalar keys in the key notations (dotted string,
    list, both dictionary spellings), the empty key (the whole context) included;
  * key paths of every length 0..4 (SelectContext) / 1..5 (string selectors) over two keys, so that
    components repeat, against chains of nested dictionaries of every depth with scalar, falsy and
    empty-dictionary ends;
  * Filter.run / Filter.fill_into keep exactly the values the same selector selects (identity, order);
  * GroupBy: every (group_by, merge) assignment of the key alphabet accepted by lena, every ordered
    pair of contexts of a depth-3 family (scalars where a dictionary is expected, empty dictionaries),
    in isolation and all together in one GroupBy, judged by the longest-listed-prefix rule.
"""
import copy
import itertools

import lena.core
import lena.flow

from mc.core import Result, result_violations
from mc.ref import c15_model as M

ID = "C15"
LEVEL = "exploration"
DESIGN_REF = "DESIGN.md section 5, C15"
RULE = ("every selector specification of the tier's grammar is built once per raise_on_error setting "
        "and construction form and evaluated on every value of the family; a selector case is "
        "non-trivial when the specification is composite and either contains Not or its leaves do "
        "not all have the same outcome on that value (so the combination rule decides the result). "
        "Path law: every dotted string of 1..n components (string selectors) and every key path of 0..n "
        "components in every notation (SelectContext) is evaluated on every chain context; non-trivial "
        "when at least two components of the string are keys on the way down or the value is selected "
        "(strings), when the addressed sub-context is present (SelectContext). "
        "Shared-specification law: one Python object per specification, every ordered pair (thorough: also "
        "triple) of (construction form, raise_on_error) builds from that object, then every selector on every "
        "value, in two (three) evaluation orders; and one build followed by one edit of every list of the object; "
        "one evaluation = one case, non-trivial when the reference answers of the selectors of the history "
        "differ on that value (after an edit: when the specification before and after the edit give different "
        "answers). "
        "Every accepted (group_by, merge) assignment is run on every ordered pair of family contexts "
        "(fresh GroupBy per pair) and on the whole family in one GroupBy; a GroupBy pair is non-trivial "
        "when the two contexts differ and the statement fixes whether they share a group. Filter "
        "cases are non-trivial when the flow contains both kept and dropped values. Cases are "
        "distinct by construction of the enumeration")
ASSUMPTIONS = [
    "contexts are JSON-like nested dictionaries over the keys a, b, c (d in thorough) with int / str "
    "(and one list) leaves; no floats, no bool next to int",
    "string selectors are non-empty dotted paths with non-empty components (a, a.b, a.b.c; the path law: "
    "1..5 components from a, b and a last component 1 / 0, thorough 1..6); the empty string as a string "
    "selector is outside the alphabet (lena documents it as undecided); leaves whose string form "
    "contains a dot are outside the alphabet",
    "the empty SelectContext key ('', [] or {}) addresses the context itself (get_recursively: 'if keys "
    "is empty, d is returned'); the context of a value without a context is the empty dictionary; "
    "dotted SelectContext keys have non-empty components",
    "class selectors are int, str, list and the data are exact instances (no subclasses, no bool)",
    "results are compared by truth value, exceptions by type only",
    "OR (a list) is short-circuit from the left, as Or documents ('if a selector was true, further ones are "
    "not applied'): an item after the first true one must not make the selector raise. AND (a tuple) documents "
    "nothing about it and may short-circuit from the left or evaluate every item: an exception raised by an "
    "item of a tuple that a short-circuit evaluation would not reach is accepted as well (raise_on_error=True only)",
    "with sub-selectors that carry their own raise_on_error both readings are accepted: the exception "
    "counts as 'not selected' at the leaf, or at the innermost enclosing raise_on_error=False node",
    "And/Or objects called directly with raise_on_error=False around pre-built raise_on_error=True "
    "selectors are outside the alphabet (documented: the setting applies to newly initialised items)",
    "shared-specification law: containers hold leaves and containers only (no Not; pre-built selectors only as "
    "the items of the outermost list and with the setting of the one selector built from it, so every leaf has "
    "the setting of the selector it is built into); the user edits his lists only after the "
    "selectors have been built and evaluated once, never while one is being evaluated; after an edit a selector may evaluate the "
    "specification it was built from or the one the object describes now (R2), nothing else; whether "
    "construction may change the user's object is not judged (only recorded in the cause)",
    "GroupBy: a key listed in both group_by and merge is outside the alphabet; two contexts that differ "
    "only in the existence of an empty projected sub-dictionary may or may not share a group (R2)",
    "acceptance of a (group_by, merge) pair is taken from lena (LenaValueError = not accepted), as in "
    "the property's quantifier; a floor on the number of accepted assignments guards against vacuity",
]
NONTRIVIAL_FLOOR = {"quick": 300000, "thorough": 1200000}
BUDGET_S = {"quick": 240, "thorough": 3000}

# --------------------------------------------------------------------------------------------------
# alphabets
# --------------------------------------------------------------------------------------------------

STRINGS = [("s", "a"), ("s", "a.b"), ("s", "a.b.c")]
CLASSES = [("c", "int"), ("c", "sized")]
CALLS = [("f", "t_ctx"), ("f", "t_num"), ("f", "r_len"), ("f", "r_div"), ("f", "r_always")]
FULL_LEAVES = STRINGS + CLASSES + CALLS
SMALL_LEAVES = [("s", "a.b"), ("c", "int"), ("f", "t_num"), ("f", "r_len")]
TINY_LEAVES = [("c", "int"), ("f", "r_len")]

SEL_CONTEXTS = [None, {}, {"a": 1}, {"a": "b"}, {"a": {}}, {"a": {"b": 1}}, {"a": {"b": "c"}},
                {"a": {"b": {"c": 1}}},
                # leaves that only *contain* the last component of a selector (as a part of a string,
                # as an item of a list): not equal to it, hence not selected
                {"a": "xb"}, {"a": {"b": ["c"]}}, {"a": {"b": "cx"}}]
SEL_DATA = [0, 1, "s", []]
SC_EXTRA_CONTEXTS = [{"a": 0}, {"a": {"b": 0}}, {"a": {"b": None}}, {"b": {"a": 1}},
                     {"a": {"b": {"c": 0}}}, {"a": {"b": {"c": {}}}}, {"a": [1]}]
SC_KEYS = [("str", "a"), ("str", "a.b"), ("str", "a.b.c"), ("list", "a.b"), ("list", "a"),
           ("dict", "a.b"), ("dict", "a.b.c"),
           # the empty path addresses the context itself ("", [], {}); the other dictionary spelling
           ("str", ""), ("list", ""), ("dict", ""), ("dict0", "a.b")]
SC_PREDS = ["p_is1", "p_falsy", "p_pos", "p_len"]


# -- the path family: key paths of every length over two keys (so that components repeat), as string
# selectors and as SelectContext keys, on contexts that are chains of nested dictionaries of every depth
PATH_KEYS = ("a", "b")
PATH_TERMINALS = [1, "b", {}, 0, None]     # two falsy scalars, an empty dictionary
PATH_PREDS = ["p_is1", "p_falsy", "p_pos", "p_len"]
PATH_DATUM = "p"        # no other law uses this datum: path cases are distinct from all other cases


def path_seqs(lo, hi):
    out = []
    for n in range(lo, hi + 1):
        out.extend(itertools.product(PATH_KEYS, repeat=n))
    return out


def chain_context(keys, terminal, decorated):
    """{k1: {k2: ... terminal}}; *decorated*: every level also holds the other key with the leaf 1."""
    cur = copy.deepcopy(terminal)
    for k in reversed(keys):
        level = {k: cur}
        if decorated:
            level[PATH_KEYS[1 - PATH_KEYS.index(k)]] = 1
        cur = level
    return cur


def path_values(maxdepth):
    """json descriptions of the values: a bare datum, then all chains of depth 0..maxdepth x terminals,
    plain and decorated."""
    out = [{"data": PATH_DATUM, "ctx": None}]
    for keys in path_seqs(0, maxdepth):
        for t in PATH_TERMINALS:
            if not keys:
                if isinstance(t, dict):
                    out.append({"data": PATH_DATUM, "ctx": {}})
                continue
            out.append({"data": PATH_DATUM, "ctx": chain_context(keys, t, False)})
            out.append({"data": PATH_DATUM, "ctx": chain_context(keys, t, True)})
    return out


def path_strings(maxlen):
    """Dotted strings of 1..maxlen components: keys only, or keys and a last component '1' / '0'
    (matched by the string form of a leaf)."""
    out = [".".join(q) for q in path_seqs(1, maxlen)]
    for last in ("1", "0"):
        out += [".".join(q + (last,)) for q in path_seqs(0, maxlen - 1)]
    return out


def path_sc_keys(maxlen):
    """(notation, dotted) for every path of 0..maxlen keys in every notation."""
    out = []
    for q in path_seqs(0, maxlen):
        dotted = ".".join(q)
        out.extend((n, dotted) for n in M.sc_notations(dotted))
    return out


def _path_dom(tier):
    if tier == "thorough":
        return dict(s_len=6, s_depth=6, sc_len=5, sc_depth=5, chunks=16)
    return dict(s_len=5, s_depth=5, sc_len=4, sc_depth=4, chunks=4)


def sel_values(extra=False):
    """[(json description, value)] - the product data x contexts (None = a bare datum)."""
    out = []
    ctxs = list(SEL_CONTEXTS) + (SC_EXTRA_CONTEXTS if extra else [])
    for ctx in ctxs:
        for d in SEL_DATA:
            if ctx is None and d == 0:
                continue
            out.append({"data": d, "ctx": ctx})
    return out


def make_value(vj):
    d = copy.deepcopy(vj["data"])
    if vj["ctx"] is None:
        return d
    return (d, copy.deepcopy(vj["ctx"]))


def composites(children, width, roe, nots=True):
    """All one-level composites over *children*: Not(x), lists and tuples of 0..width items."""
    out = []
    if nots:
        out.extend(("not", c, roe) for c in children)
    for kind in ("or", "and"):
        for w in range(0, width + 1):
            for items in itertools.product(children, repeat=w):
                out.append((kind, items))
    return out


def level1(leaves, width, roe):
    return list(leaves) + composites(leaves, width, roe)


# --------------------------------------------------------------------------------------------------
# building the real objects
# --------------------------------------------------------------------------------------------------

def build(spec, roe):
    """The Python object a user would write for *spec*; *roe* is the setting new items inherit."""
    k = spec[0]
    if k == "s":
        return spec[1]
    if k == "c":
        return M.CLASSES[spec[1]]
    if k == "f":
        return M.CALLABLES[spec[1]]
    if k == "sc":
        return lena.flow.SelectContext(M.sc_key(spec[1], spec[2]), M.PREDICATES[spec[3]],
                                       raise_on_error=roe)
    if k == "or":
        return [build(c, roe) for c in spec[1]]
    if k == "and":
        return tuple(build(c, roe) for c in spec[1])
    if k == "not":
        return lena.flow.Not(build(spec[1], spec[2]), raise_on_error=spec[2])
    if k == "sel":
        return lena.flow.Selector(build(spec[1], spec[2]), raise_on_error=spec[2])
    raise ValueError(spec)


def build_top(spec, roe, form):
    """(callable under test, reference specification)."""
    if form == "selector":
        return lena.flow.Selector(build(spec, roe), raise_on_error=roe), ("sel", spec, roe)
    if form == "direct":
        k = spec[0]
        if k == "or":
            return lena.flow.Or(build(spec, roe), raise_on_error=roe), spec
        if k == "and":
            return lena.flow.And(build(spec, roe), raise_on_error=roe), spec
        if k in ("not", "sc"):
            return build(spec, roe), spec
        raise ValueError("no direct form for a leaf")
    if form == "wrapped":
        w = wrap(spec, roe)
        return lena.flow.Selector(build(w, roe), raise_on_error=roe), ("sel", w, roe)
    raise ValueError(form)


def wrap(spec, roe):
    """Same specification with every item of a list / tuple pre-built as Selector(item, roe)."""
    k = spec[0]
    if k in ("or", "and"):
        return (k, tuple(("sel", wrap(c, roe), roe) for c in spec[1]))
    if k in ("not", "sel"):
        return (k, wrap(spec[1], spec[2]), spec[2])
    return spec


def has_direct(spec):
    return spec[0] in ("or", "and", "not", "sc")


def observe(obj, value):
    try:
        return ("ok", bool(obj(value)))
    except Exception as e:  # noqa: the type is the observation
        return ("exc", type(e).__name__)


# --------------------------------------------------------------------------------------------------
# reference with a per-shard cache (value index instead of value)
# --------------------------------------------------------------------------------------------------

class Ref(object):
    """Reference evaluator bound to a value family; values are addressed by index so that results
    for the shared items of an enumeration can be remembered."""

    def __init__(self, vjs, shared=()):
        self.vjs = vjs
        self.values = [make_value(vj) for vj in vjs]
        self._leaf = {}
        self._real_leaf = {}
        self._table = {}
        self.outcomes = set()
        self.memo = dict((spec, {}) for spec in shared if not M.is_leaf(spec))

    def leaf(self, spec, vi):
        key = (spec, vi)
        o = self._leaf.get(key)
        if o is None:
            o = M.leaf_outcome(spec, self.values[vi])
            self._leaf[key] = o
        return o

    def lazy(self, spec, vi, roe):
        return M.evaluate(spec, vi, roe, leaf=self.leaf, memo=self.memo)

    def acceptable(self, spec, vi, roe, mixed=False):
        return M.acceptable(spec, vi, roe, mixed=mixed, leaf=self.leaf, memo=self.memo)

    def table(self, refspec, roe):
        """The acceptable outcomes of one reference specification on every value of the family
        (remembered: the history law asks for the same selector in many histories)."""
        key = (refspec, roe)
        t = self._table.get(key)
        if t is None:
            t = [self.acceptable(refspec, vi, roe) for vi in range(len(self.values))]
            self._table[key] = t
        return t

    def real_leaf(self, spec, vi, roe):
        """What the real leaf selector, built on its own, answers (for attributing a violation)."""
        key = (spec, vi, roe)
        o = self._real_leaf.get(key)
        if o is None:
            try:
                o = observe(lena.flow.Selector(build(spec, roe), raise_on_error=roe), self.values[vi])
            except Exception as e:  # noqa
                o = ("construct", type(e).__name__)
            self._real_leaf[key] = o
        return o


def leaf_kind(spec):
    return {"s": "string", "c": "class", "f": "callable", "sc": "SelectContext"}[spec[0]]


def _how(observed, acc):
    exp_exc = any(o[0] == "exc" for o in acc)
    if observed[0] == "exc":
        return "raises " + observed[1]
    if observed[0] == "construct":
        return "construction raises " + observed[1]
    if exp_exc and all(o[0] == "exc" for o in acc):
        return "returns instead of raising"
    return "wrong truth value"


def leaf_defect(ref, lf, vi):
    """Cause dict if the leaf *on its own* already disagrees with the reference on this value."""
    bad = {}
    for r in (True, False):
        exp = M.evaluate(("sel", lf, r), vi, r, leaf=ref.leaf)
        got = ref.real_leaf(lf, vi, r)
        if got not in exp:
            bad[r] = _how(got, exp)
    if not bad:
        return None
    cause = {"law": "selector", "defect": "leaf", "leaf": leaf_kind(lf),
             "how": bad.get(True) or bad.get(False)}
    ctx = M.split_value(ref.values[vi])[1]
    if lf[0] == "s":
        cause["feature"] = path_feature(ctx, lf[1].split("."))
        cause["components"] = len(lf[1].split("."))
    elif lf[0] == "sc":
        cause["feature"] = ("addressed sub-context present"
                            if path_feature(ctx, M.path_of(lf[2])) == "key present"
                            else "addressed sub-context absent")
        cause["components"] = len(M.path_of(lf[2]))
    if len(bad) == 1:
        cause["only_with_raise_on_error"] = list(bad)[0]
    return cause


def selector_cause(ref, refspec, roe, form, vi, observed, acc, mixed):
    """Structural signature of a selector violation: a leaf that is wrong on its own is blamed
    first (so that one leaf defect is one cause however it is combined); otherwise the combination."""
    for lf in sorted(set(M.leaves_of(refspec))):
        cause = leaf_defect(ref, lf, vi)
        if cause is not None:
            return cause
    cause = {"law": "selector-mixed-roe" if mixed else "selector", "defect": "composition",
             "composite": top_kind(refspec) if M.depth_of(refspec) else "none",
             "how": _how(observed, acc), "form": form}
    if not mixed:
        cause["raise_on_error"] = bool(roe)
    return cause


def top_kind(spec):
    while spec[0] == "sel":
        spec = spec[1]
    if spec[0] == "not":
        inner = spec[1]
        while inner[0] == "sel":
            inner = inner[1]
        return "Not(%s)" % ("leaf" if M.is_leaf(inner) else inner[0])
    return spec[0]


def path_feature(ctx, path):
    cur = ctx
    for k in path:
        if not isinstance(cur, dict):
            return "path continues through a scalar"
        if k not in cur:
            return "key absent"
        cur = cur[k]
    return "key present"


def check_spec(res, ref, spec, roe, form, mixed=False, sample=False, interesting=None):
    """Build one object and judge it on every value of the family. *interesting* (a list of booleans,
    one per value) replaces the rule for what is non-trivial (the path laws state their own)."""
    law = "selector-mixed-roe" if mixed else "selector"
    try:
        obj, refspec = build_top(spec, roe, form)
    except Exception as e:  # construction of an in-alphabet specification must succeed
        case = {"law": law, "spec": M.to_json(spec), "roe": roe, "form": form, "value": ref.vjs[0]}
        res.case(nontrivial=False, outcome=("construct", type(e).__name__))
        res.violation(case, "construction raised " + type(e).__name__, "a selector",
                      {"law": law, "defect": "construction", "how": "raises " + type(e).__name__,
                       "composite": top_kind(spec) if not M.is_leaf(spec) else "none"})
        return
    composite = M.depth_of(refspec) > 0
    has_not = composite and M.contains_not(refspec)
    leaves = sorted(set(M.leaves_of(refspec)))
    n = nontrivial = 0
    for vi, value in enumerate(ref.values):
        louts = set(ref.leaf(l, vi) for l in leaves)
        if mixed or any(o[0] == "exc" for o in louts):
            acc = ref.acceptable(refspec, vi, roe, mixed=mixed)
        else:   # nothing raises: all readings coincide
            acc = ref.lazy(refspec, vi, roe)
        got = observe(obj, value)
        n += 1
        if interesting[vi] if interesting is not None else (composite and (has_not or len(louts) > 1)):
            nontrivial += 1
        if got not in acc:
            case = {"law": law, "spec": M.to_json(spec), "roe": roe, "form": form,
                    "value": ref.vjs[vi]}
            res.violation(case, list(got), sorted(acc),
                          selector_cause(ref, refspec, roe, form, vi, got, acc, mixed))
        key = (got, acc)
        if key not in ref.outcomes:
            ref.outcomes.add(key)
            res.outcome((got, tuple(sorted(acc))))
    res.case(nontrivial=False, n=n - nontrivial)
    if nontrivial:
        res.case(nontrivial=True, n=nontrivial)
    if sample and n:
        res.sample({"law": law, "spec": M.to_json(spec), "roe": roe, "form": form,
                    "value": ref.vjs[n - 1]}, 2)


def replay_selector(res, case):
    spec = M.from_json(case["spec"])
    ref = Ref([case["value"]])
    check_spec(res, ref, spec, case["roe"], case["form"], mixed=(case["law"] == "selector-mixed-roe"))


# --------------------------------------------------------------------------------------------------
# one specification object in the hands of its user: several selectors made from it, edits afterwards
# --------------------------------------------------------------------------------------------------
#
# A specification is a Python object the user owns. The statement speaks about what a selector
# evaluates - its specification, with its raise_on_error - and nothing in it depends on what else the
# user does with the object he wrote the specification in. The history law builds the object ONCE,
# hands it to several constructors one after another (every form, both settings) and demands from
# every selector what the reference evaluator says for (specification, its own setting); afterwards
# the user edits the lists of his object and the selectors are asked again (rule R2: a selector may
# describe the specification as it was when it was built or as the object reads now).

SHARED_FORMS = ("selector", "direct", "not", "filter", "in-list", "in-tuple")


def shared_builds(forms):
    """(form, raise_on_error) steps; Filter converts a specification with the default setting."""
    out = []
    for form in forms:
        if form == "filter":
            out.append(("filter", True))
        else:
            out.extend((form, roe) for roe in (True, False))
    return out


def shared_edits(leaves):
    out = [("pop",)]
    for op in ("append", "insert", "replace"):
        out.extend((op, lf) for lf in leaves)
    return out


def shared_specs(leaves, width, depth):
    """Lists and tuples of 0..width items over the leaves (depth 1); lists and tuples of 1..2 items
    over leaves and depth-1 containers with at least one container among them (depth 2). No Not and
    no pre-built selector inside: every leaf gets the setting of the selector it is built into."""
    l1 = composites(leaves, width, True, nots=False)
    if depth == 1:
        return l1
    children = list(leaves) + composites(leaves, 2, True, nots=False)
    out = []
    for kind in ("or", "and"):
        for w in (1, 2):
            for items in itertools.product(children, repeat=w):
                if any(not M.is_leaf(c) for c in items):
                    out.append((kind, items))
    return out


class _FilterProbe(object):
    """A Filter seen as a boolean function: does a flow of this one value pass run()."""

    def __init__(self, filt):
        self.filt = filt

    def __call__(self, value):
        return len(list(self.filt.run(iter([value])))) == 1


def shared_refspec(spec, form, roe):
    if form in ("selector", "filter"):
        return ("sel", spec, roe)
    if form == "direct":
        return spec
    if form == "not":
        return ("not", spec, roe)
    if form == "in-list":       # the object as the only item of another specification
        return ("sel", ("or", (spec,)), roe)
    if form == "in-tuple":
        return ("sel", ("and", (spec,)), roe)
    raise ValueError(form)


def shared_make(obj, spec, form, roe):
    """The selector a user gets from his specification object *obj* in one of the documented ways."""
    if form == "selector":
        return lena.flow.Selector(obj, raise_on_error=roe)
    if form == "direct":
        cls = lena.flow.Or if spec[0] == "or" else lena.flow.And
        return cls(obj, raise_on_error=roe)
    if form == "not":
        return lena.flow.Not(obj, raise_on_error=roe)
    if form == "filter":
        return _FilterProbe(lena.flow.Filter(obj))
    if form == "in-list":
        return lena.flow.Selector([obj], raise_on_error=roe)
    if form == "in-tuple":
        return lena.flow.Selector((obj,), raise_on_error=roe)
    raise ValueError(form)


def collect_lists(obj, acc=None):
    """The list objects of a user's specification, items before their container."""
    if acc is None:
        acc = []
    if isinstance(obj, (list, tuple)):
        for item in obj:
            collect_lists(item, acc)
        if isinstance(obj, list):
            acc.append(obj)
    return acc


def same_spec_object(obj, twin):
    """Two specification objects written from the same specification still read the same."""
    if type(obj) is not type(twin):
        return False
    if isinstance(obj, (list, tuple)):
        return len(obj) == len(twin) and all(same_spec_object(a, b) for a, b in zip(obj, twin))
    return obj is twin or (isinstance(obj, str) and obj == twin) or (
        isinstance(obj, lena.flow.Selector) and isinstance(twin, lena.flow.Selector))


def check_shared(res, ref, spec, builds, mode, edit=None, sample=False, items="raw"):
    """One specification object, *builds* = [(form, raise_on_error), ...] made from it in this order.

    mode "each": a selector is evaluated on every value as soon as it is built, and all of them once
    more when all are built; "end": only when all are built; "end-rev": the same, the selector built
    last is asked first.  *edit*: then the user edits every list of his object (M.edit_spec) and all
    selectors are asked again; both readings of what their specification now is are accepted.
    items "prebuilt": the user wrote every item of the outermost container as Selector(item, r) with
    the r he also gives to the (single) build - one setting throughout, the same meaning as "raw".
    A case = one evaluation of one selector on one value. It is non-trivial when the reference gives
    the selectors of the history different answers on that value (so a selector that took anything
    over from its sibling is told apart), after an edit when the two readings differ."""
    case = {"law": "shared-spec", "spec": M.to_json(spec), "builds": [list(b) for b in builds],
            "mode": mode, "edit": M.to_json(edit) if edit else None, "items": items, "values": ref.vjs}
    nvalues = len(ref.values)
    if items == "prebuilt":
        if len(set(roe for _, roe in builds)) != 1:
            raise ValueError("pre-built items: one setting throughout")
        r = builds[0][1]
        spec = (spec[0], tuple(("sel", c, r) for c in spec[1]))
    obj = build(spec, True)
    twin = build(spec, True)
    user_lists = collect_lists(obj)
    exps = [ref.table(shared_refspec(spec, form, roe), roe) for form, roe in builds]
    differ = [len(set(e[vi] for e in exps)) > 1 for vi in range(nvalues)]
    state = {"modified": False, "n": 0, "nt": 0}
    sels = []

    def judge(k, phase, exp, hot):
        form, roe = builds[k]
        reported = False
        for vi, value in enumerate(ref.values):
            got = observe(sels[k], value)
            state["n"] += 1
            if hot[vi]:
                state["nt"] += 1
            okey = (phase, got, exp[vi])
            if okey not in ref.outcomes:
                ref.outcomes.add(okey)
                res.outcome((phase, got, tuple(sorted(exp[vi]))))
            if got in exp[vi] or reported:
                continue
            reported = True
            refspec = shared_refspec(spec, form, roe)
            # what a selector made in the same way from an object nobody else has used says
            try:
                alone = observe(shared_make(build(spec, True), spec, form, roe), value)
            except Exception as e:  # noqa
                alone = ("construct", type(e).__name__)
            if phase != "edited" and alone not in exp[vi]:
                # wrong without any history: the defect the selector law reports
                cause = selector_cause(ref, refspec, roe, form, vi, got, exp[vi], False)
            else:
                cause = {"law": "shared-spec",
                         "phase": "after the user's edit" if phase == "edited" else "selectors built",
                         "selector": ("the only one" if len(builds) == 1 else
                                      "built first" if k == 0 else "built later"),
                         "how": "raises" if got[0] == "exc" else _how(got, exp[vi]),
                         "specification_object_changed_by_construction": state["modified"]}
            res.violation(dict(case, failing={"build": k, "value": ref.vjs[vi], "phase": phase}),
                          list(got), sorted(exp[vi]), cause,
                          note="built alone from a fresh specification object the selector answers %r"
                               % (alone,))

    for k, (form, roe) in enumerate(builds):
        try:
            sels.append(shared_make(obj, spec, form, roe))
        except Exception as e:  # noqa: an in-alphabet specification, used before or not
            res.case(nontrivial=False, outcome=("construct", type(e).__name__))
            res.violation(dict(case, failing={"build": k}), "construction raised " + type(e).__name__,
                          "a selector",
                          {"law": "shared-spec", "phase": "construction", "how": "raises " + type(e).__name__,
                           "selector": "built first" if k == 0 else "built later"})
            return
        state["modified"] = state["modified"] or not same_spec_object(obj, twin)
        if mode == "each":
            judge(k, "built", exps[k], differ)
    order = list(range(len(sels)))
    if mode == "end-rev":
        order.reverse()
    for k in order:
        judge(k, "all-built", exps[k], differ)
    if edit is not None:
        item = build(edit[1], True) if len(edit) > 1 else None
        for lst in user_lists:
            M.edit_list(lst, edit[0], item)
        new = M.edit_spec(spec, edit)
        for k in order:
            form, roe = builds[k]
            after = ref.table(shared_refspec(new, form, roe), roe)
            both = [exps[k][vi] | after[vi] for vi in range(nvalues)]
            judge(k, "edited", both, [exps[k][vi] != after[vi] for vi in range(nvalues)])
    res.case(nontrivial=False, n=state["n"] - state["nt"])
    if state["nt"]:
        res.case(nontrivial=True, n=state["nt"])
    res.count("shared_spec_histories")
    if sample:
        res.sample(case, 2)


def _shared_dom(tier):
    if tier == "thorough":
        return dict(flat_width=3, modes=("each", "end", "end-rev"), nested_leaves=SMALL_LEAVES,
                    nested_forms=("selector", "direct", "not"), nested_name="Selector / Or,And / Not")
    return dict(flat_width=2, modes=("each", "end-rev"), nested_leaves=TINY_LEAVES,
                nested_forms=("selector", "direct"), nested_name="Selector / Or,And")


def run_shared(res, tier, part, chunk, chunks):
    """part "flat": every depth-1 container, every ordered pair (thorough: also every triple of the
    Selector / Or / And / Not builds) of builds in every form, two (three) evaluation orders; one build
    followed by every edit.
    part "nested": every depth-2 container, ordered pairs of Selector / Or / And (thorough: / Not)
    builds; one Selector build followed by every edit."""
    thorough = tier == "thorough"
    sd = _shared_dom(tier)
    vjs = [v for v in sel_values() if v["ctx"] in (None, {"a": 1}, {"a": {"b": 1}})]
    if part == "flat":
        leaves = SMALL_LEAVES
        specs = shared_specs(leaves, sd["flat_width"], 1)
        builds = shared_builds(SHARED_FORMS)
        triples = shared_builds(("selector", "direct", "not")) if thorough else ()
        modes = sd["modes"]
        edit_builds = builds
    else:
        leaves = sd["nested_leaves"]
        specs = shared_specs(leaves, 2, 2)
        builds = shared_builds(sd["nested_forms"])
        triples = ()
        modes = ("each",)
        edit_builds = shared_builds(("selector",))
    ref = Ref(vjs)
    edits = shared_edits(leaves)
    before = res.nontrivial_count
    for i, spec in enumerate(specs):
        if i % chunks != chunk:
            continue
        for hist in itertools.chain(itertools.product(builds, repeat=2), itertools.product(triples, repeat=3)):
            for mode in modes:
                check_shared(res, ref, spec, hist, mode, sample=(hist[0] != hist[1]))
        for b in edit_builds:
            for edit in edits:
                if M.has_list(spec):
                    check_shared(res, ref, spec, (b,), "end", edit=edit)
                if spec[0] == "or" and spec[1]:
                    check_shared(res, ref, spec, (b,), "end", edit=edit, items="prebuilt")
    if res.nontrivial_count == before:
        raise AssertionError("shared-spec shard without a single non-trivial evaluation")


# --------------------------------------------------------------------------------------------------
# Filter
# --------------------------------------------------------------------------------------------------

class _Sink(object):
    def __init__(self):
        self.got = []

    def fill(self, value):
        self.got.append(value)


def check_filter(res, spec, roe, how, vjs, flow_name):
    """Filter keeps exactly the values the (fresh, identically built) selector selects."""
    case = {"law": "filter", "spec": M.to_json(spec), "roe": roe, "how": how, "flow": flow_name,
            "values": vjs}
    values = [make_value(vj) for vj in vjs]
    try:
        sel, _ = build_top(spec, roe, "selector")
        if how == "raw":          # Filter converts the specification itself (raise_on_error=True)
            filt = lena.flow.Filter(build(spec, True))
        else:
            filt = lena.flow.Filter(build_top(spec, roe, "selector")[0])
    except Exception as e:
        res.case(nontrivial=False, outcome=("construct", type(e).__name__))
        res.violation(case, "construction raised " + type(e).__name__, "a Filter",
                      {"law": "filter", "how": "construction raises " + type(e).__name__})
        return
    # what the selector itself says, value by value, up to its first exception
    expected = []
    exp_exc = None
    verdicts = []
    for v in values:
        o = observe(sel, v)
        verdicts.append(o)
        if o[0] == "exc":
            exp_exc = o[1]
            break
        if o[1]:
            expected.append(v)
    # run
    got = []
    got_exc = None
    try:
        for v in filt.run(iter(values)):
            got.append(v)
    except Exception as e:  # noqa
        got_exc = type(e).__name__
    # fill_into
    sink = _Sink()
    fill_exc = None
    try:
        for v in values:
            filt.fill_into(sink, v)
    except Exception as e:  # noqa
        fill_exc = type(e).__name__

    def same(a, b):
        return len(a) == len(b) and all(x is y for x, y in zip(a, b))

    kept = len(expected)
    nontrivial = 0 < kept < len(values) and exp_exc is None
    res.case(nontrivial=nontrivial, outcome=(tuple(verdicts), got_exc))
    idx = {id(v): i for i, v in enumerate(values)}
    if not same(got, expected) or got_exc != exp_exc:
        res.violation(case, {"kept": [idx.get(id(v), "foreign") for v in got], "raised": got_exc},
                      {"kept": [idx[id(v)] for v in expected], "raised": exp_exc},
                      {"law": "filter", "method": "run", "how": how,
                       "difference": "exception" if got_exc != exp_exc else "kept values"})
    if not same(sink.got, expected) or fill_exc != exp_exc:
        res.violation(case, {"filled": [idx.get(id(v), "foreign") for v in sink.got], "raised": fill_exc},
                      {"filled": [idx[id(v)] for v in expected], "raised": exp_exc},
                      {"law": "filter", "method": "fill_into", "how": how,
                       "difference": "exception" if fill_exc != exp_exc else "kept values"})
    return case


def filter_flows(spec, roe, vjs):
    """Named flows for one specification: everything; the values on which the reference does not
    raise, reversed and with the first one repeated at the end."""
    flows = [("all", vjs)]
    calm = []
    for vj in vjs:
        acc = M.acceptable(("sel", spec, roe), make_value(vj), roe)
        if all(o[0] == "ok" for o in acc):
            calm.append(vj)
    if calm:
        flows.append(("calm-reversed-repeat", list(reversed(calm)) + [calm[-1]]))
    return flows


# --------------------------------------------------------------------------------------------------
# GroupBy
# --------------------------------------------------------------------------------------------------

ABSENT = "<absent>"


def _dict(**kw):
    return dict((k, copy.deepcopy(v)) for k, v in sorted(kw.items()) if not (isinstance(v, str) and v == ABSENT))


def gb_family(tier):
    """Depth-3 context family over a{b{c}, c}, b (and d in thorough)."""
    thorough = tier == "thorough"
    abc = [ABSENT, 1, 2, {}]
    ab = [ABSENT, 1, 2] + [_dict(c=x) for x in abc]
    ac = [ABSENT, 1, "1", {}]
    a = [ABSENT, 1, 2] + [_dict(b=x, c=y) for x in ab for y in ac]
    b = [ABSENT, 1, 2, {}]
    if thorough:
        b = b + [{"c": 1}, {"c": 2}, [1]]
    d = [ABSENT, 1] if thorough else [ABSENT]
    out = []
    for x in a:
        for y in b:
            for z in d:
                out.append(_dict(a=x, b=y, d=z))
    return out


def gb_keys(tier):
    keys = ["", "a", "b", "a.b", "a.c", "a.b.c"]
    if tier == "thorough":
        keys.append("b.c")
    return keys


def gb_assignments(tier, fixed):
    """All assignments key -> G / M / unlisted that extend *fixed* (root, a, b given by the shard)."""
    keys = gb_keys(tier)
    free = [k for k in keys if k not in fixed]
    for choice in itertools.product("-GM", repeat=len(free)):
        asg = dict(fixed)
        asg.update(zip(free, choice))
        g = tuple(k for k in keys if asg[k] == "G")
        m = tuple(k for k in keys if asg[k] == "M")
        yield g, m


def make_groupby(g, m):
    return lena.flow.GroupBy(group_by=tuple(g), merge=tuple(m))


def reorder(ctx):
    """Equal dictionary with the reverse key insertion order (recursively)."""
    if isinstance(ctx, dict):
        return dict((k, reorder(ctx[k])) for k in reversed(list(ctx)))
    return copy.deepcopy(ctx)


def differing_paths(p1, p2):
    return sorted(set(path for path, _ in (p1 ^ p2)))


def gb_cause_merged(c1, c2, g, m):
    l1, _ = M.projections(c1, g, m)
    l2, _ = M.projections(c2, g, m)
    paths = differing_paths(l1, l2)
    scalar_at_dict = [p for p in paths if M.expects_dict(p, g, m)]
    cause = {"law": "groupby-merges-distinct", "root": "include" if "" in g else "exclude"}
    if paths and len(scalar_at_dict) == len(paths):
        cause["differing_leaf"] = "scalar where a listed key expects a dictionary"
        cause["scalar_key_is_group_by_entry"] = all(".".join(p) in g for p in paths)
    else:
        cause["differing_leaf"] = "plain leaf"
        plain = [p for p in paths if p not in scalar_at_dict]
        gov = set(M.governing(p, set(M.entry(k) for k in tuple(g) + tuple(m))) for p in plain)
        cause["governed_by"] = "root" if gov == {()} else "nested group_by entry"
    return cause, paths


def gb_cause_split(c1, c2, g, m):
    return {"law": "groupby-splits-equal", "root": "include" if "" in g else "exclude",
            "contexts_equal": c1 == c2}


def gb_demand(pr1, pr2):
    """'same', 'different' or None (nothing demanded) from the two (leaves, skeleton) projections."""
    if pr1[0] != pr2[0]:
        return "different"
    if pr1[1] == pr2[1]:
        return "same"
    return None


_PAIR_SHAPES = (((0, 1),), ((0,), (1,)), ((1,), (0,)))


def check_gb_pair(res, g, m, c1, c2, count=True, projs=None, fresh=True):
    """Fresh GroupBy, two values (0, c1), (1, c2)."""
    if projs is None:
        projs = (M.projections(c1, g, m), M.projections(c2, g, m))
    demand = gb_demand(*projs)
    vals = ((0, copy.deepcopy(c1)), (1, copy.deepcopy(c2))) if fresh else ((0, c1), (1, c2))
    err = None
    try:
        gb = make_groupby(g, m)
        gb.fill(vals[0])
        gb.fill(vals[1])
        groups = list(gb.groups.values())
        computed = list(gb.compute())
    except Exception as e:  # noqa
        err = type(e).__name__
    if err is not None:
        case = {"law": "groupby-pair", "group_by": list(g), "merge": list(m), "contexts": [c1, c2]}
        if count:
            res.case(nontrivial=False, outcome=("exc", err))
        res.violation(case, "raised " + err, demand,
                      {"law": "groupby-raises", "exception": err,
                       "root": "include" if "" in g else "exclude"})
        return
    shape = tuple(tuple(v[0] if isinstance(v, tuple) and v and v[0] in (0, 1) else "?" for v in grp)
                  for grp in groups)
    if count:
        res.case(nontrivial=(demand is not None and c1 != c2), outcome=(shape, demand))
    ok_partition = (shape in _PAIR_SHAPES
                    and all(v is vals[v[0]] for grp in groups for v in grp)
                    and len(computed) == len(groups)
                    and all(len(a) == len(b) and all(x is y for x, y in zip(a, b))
                            for a, b in zip(computed, groups)))
    if not ok_partition:
        case = {"law": "groupby-pair", "group_by": list(g), "merge": list(m), "contexts": [c1, c2]}
        res.violation(case, {"groups": [list(x) for x in shape]},
                      "a partition of the two values in arrival order, also from compute()",
                      {"law": "groupby-partition", "root": "include" if "" in g else "exclude"})
        return
    together = len(groups) == 1
    if demand == "different" and together:
        case = {"law": "groupby-pair", "group_by": list(g), "merge": list(m), "contexts": [c1, c2]}
        cause, paths = gb_cause_merged(c1, c2, g, m)
        res.violation(case, "one group", "two groups", cause,
                      note="the contexts differ on counted key path(s) %s" % [".".join(q) for q in paths])
    elif demand == "same" and not together:
        case = {"law": "groupby-pair", "group_by": list(g), "merge": list(m), "contexts": [c1, c2]}
        res.violation(case, "two groups", "one group", gb_cause_split(c1, c2, g, m))


def _gb_forms(keys):
    """The documented ways of writing a list of at most one key path: a string, or a container."""
    keys = tuple(keys)
    if len(keys) == 1:
        return [("str", keys[0]), ("list", [keys[0]])]
    if len(keys) == 0:
        return [("tuple", ()), ("list", []), ("set", set())]
    return []


def check_gb_forms(res, g, m, contexts):
    """group_by / merge written as a string or as another container of strings mean the same as the
    tuples: the same partition of the family (differential)."""
    def partition(gb):
        for i, c in enumerate(contexts):
            gb.fill((i, copy.deepcopy(c)))
        return sorted(tuple(v[0] for v in grp) for grp in gb.groups.values())
    try:
        want = partition(make_groupby(g, m))
    except Exception:  # noqa: judged by check_gb_flow
        return
    for gname, gform in [("tuple", tuple(g))] + _gb_forms(g):
        for mname, mform in [("tuple", tuple(m))] + _gb_forms(m):
            if gname == "tuple" and mname == "tuple":
                continue
            if gform == "" and mform == "":
                continue      # the documented default: everything in one group
            case = {"law": "groupby-forms", "group_by": list(g), "merge": list(m),
                    "forms": [gname, mname], "contexts": contexts}
            try:
                got = partition(lena.flow.GroupBy(group_by=copy.copy(gform), merge=copy.copy(mform)))
            except Exception as e:  # noqa
                got = "raised " + type(e).__name__
            res.case(nontrivial=len(want) >= 2, outcome=("forms", gname, mname, repr(got)[:80]))
            if got != want:
                res.violation(case, got, want,
                              {"law": "groupby-forms", "group_by_form": gname, "merge_form": mname,
                               "root_grouped": "" in g})


def check_gb_flow(res, g, m, contexts, order="sorted", count=True, name="family"):
    """One GroupBy filled with the whole family twice (second pass reversed, keys re-ordered) and
    three values without a context."""
    if order == "interleaved":
        # keys with a common first component are not neighbours in the listing (ordered by their last
        # component): the order in which keys are listed means nothing
        def ilv(keys):
            return tuple(sorted(keys, key=lambda k: (k.split(".")[-1], -len(k), k)))
        gg, mm = ilv(g), ilv(m)
    else:
        gg = tuple(g) if order == "sorted" else tuple(reversed(g))
        mm = tuple(m) if order == "sorted" else tuple(reversed(m))
    case = {"law": "groupby-flow", "group_by": list(gg), "merge": list(mm), "contexts": contexts,
            "order": order}
    flow = []
    for c in contexts:
        flow.append((len(flow), copy.deepcopy(c)))
    flow.append("bare-%d" % len(flow))
    for c in reversed(contexts):
        flow.append((len(flow), reorder(c)))
    flow.append((len(flow),))          # a 1-tuple: no context
    ctxs = [M.split_value(v)[1] for v in flow]
    try:
        gb = make_groupby(gg, mm)
        for v in flow:
            gb.fill(v)
        groups = list(gb.groups.values())
        computed = list(gb.compute())
    except Exception as e:  # noqa
        if count:
            res.case(nontrivial=False, outcome=("exc", type(e).__name__))
        res.violation(case, "raised " + type(e).__name__, "groups",
                      {"law": "groupby-raises", "exception": type(e).__name__,
                       "root": "include" if "" in g else "exclude"})
        return
    pos = {id(v): i for i, v in enumerate(flow)}
    shape = []
    problems = []
    seen = set()
    for grp in groups:
        idxs = [pos.get(id(v), -1) for v in grp]
        shape.append(tuple(idxs))
        if not idxs:
            problems.append("empty group")
        if -1 in idxs:
            problems.append("a group holds an object that was not filled")
        if idxs != sorted(idxs):
            problems.append("arrival order not preserved")
        if seen & set(idxs) or len(set(idxs)) != len(idxs):
            problems.append("a value is in two groups / twice in a group")
        seen |= set(idxs)
    if seen - {-1} != set(range(len(flow))):
        problems.append("a filled value is in no group")
    if [tuple(pos.get(id(v), -1) for v in grp) for grp in computed] != shape:
        problems.append("compute() yields other groups than .groups")
    npairs = len(flow) * (len(flow) - 1) // 2
    if count:
        res.case(nontrivial=len(groups) > 1, outcome=tuple(shape))
    if problems:
        kind = "order" if problems == ["arrival order not preserved"] else "partition"
        res.violation(case, sorted(set(problems)), "a partition of the filled values, arrival order inside groups",
                      {"law": "groupby-" + kind, "root": "include" if "" in g else "exclude"})
        return
    # demands
    proj = [M.projections(c, g, m) for c in ctxs]
    group_of = {}
    for gi, idxs in enumerate(shape):
        for i in idxs:
            group_of[i] = gi
    # wrongly merged: a group with two different leaf projections
    for idxs in shape:
        first = idxs[0]
        for i in idxs[1:]:
            if proj[i][0] != proj[first][0]:
                _report_flow_pair(res, case, g, m, ctxs, first, i, "different", contexts)
                break
    # wrongly split: equal (leaves, skeleton) in different groups
    rep = {}
    for i in range(len(flow)):
        j = rep.setdefault(proj[i], i)
        if group_of[j] != group_of[i]:
            _report_flow_pair(res, case, g, m, ctxs, j, i, "same", contexts)
    res.count("groupby_flow_pairs_covered", npairs)


def _report_flow_pair(res, case, g, m, ctxs, i, j, demand, contexts):
    """A pair misjudged inside a long flow: report it as a pair case when it reproduces alone."""
    c1, c2 = ctxs[i], ctxs[j]
    probe = Result()
    check_gb_pair(probe, g, m, c1, c2, count=False)
    if probe.viol:
        for _, (n, v) in probe.viol.items():
            res.violation(v["case"], v["observed"], v["expected"], v["cause"], v["note"])
        return
    if demand == "different":
        cause, _ = gb_cause_merged(c1, c2, g, m)
    else:
        cause = gb_cause_split(c1, c2, g, m)
    cause = dict(cause, only_in_a_long_flow=True)
    res.violation(case, "flow positions %d and %d in %s" % (i, j, "one group" if demand == "different" else "two groups"),
                  demand, cause)


def gb_accepts(g, m):
    try:
        make_groupby(g, m)
        return True, None
    except lena.core.LenaValueError:
        return False, "LenaValueError"
    except Exception as e:  # noqa
        return False, type(e).__name__


# --------------------------------------------------------------------------------------------------
# shards
# --------------------------------------------------------------------------------------------------

def _dom(tier):
    if tier == "thorough":
        return dict(chunks=16, deep_leaves=SMALL_LEAVES, deep_name="4-leaf", extras=True, shared_chunks=16,
                    shared_flat_chunks=16)
    return dict(chunks=8, deep_leaves=TINY_LEAVES, deep_name="2-leaf", extras=False, shared_chunks=2,
                shared_flat_chunks=1)


def describe(tier):
    d = _dom(tier)
    pd = _path_dom(tier)
    sd = _shared_dom(tier)
    return ("selectors: 10 leaves (3 strings, 2 classes, 5 callables); depth <= 1 with lists/tuples of 0..3 "
            "items; depth 2 = Not / list / tuple of 1..2 items over all 242 depth<=1 specifications with "
            "0..2 items%s; depth 3 = Not / list / tuple of (one depth-2 item [+ one leaf-level item]) over a "
            "%s alphabet%s; both raise_on_error; forms Selector(spec), direct And/Or/Not%s; %d values "
            "(4 data x 11 contexts); SelectContext: %d keys (the empty key in three notations among them) x "
            "4 predicates x %d values, alone and inside "
            "one-level composites; path law: %d dotted strings of 1..%d components over a, b (+ last "
            "component 1 / 0) as Selector / Not / [s] / (s,) x %d chain contexts of depth 0..%d (5 kinds of "
            "ends, plain and with a sibling key at every level), %d SelectContext keys (paths of 0..%d "
            "components in every notation) x 4 predicates x both raise_on_error x %d chain contexts; "
            "own raise_on_error per sub-selector to depth 2%s; shared specification object: %d depth-1 "
            "containers (0..%d items over 4 leaves) x all ordered pairs of %d builds (Selector / Or,And / Not "
            "x both raise_on_error, Filter, as the item of a list / a tuple)%s x %d evaluation orders, %d depth-2 "
            "containers over %d leaves x ordered pairs of %s builds, and one build + one of %d / %d "
            "edits of every list (pop; append / insert / replace with every leaf), items raw or pre-built "
            "selectors; Filter over all "
            "depth<=1 specifications x 2 flows x run/fill_into; GroupBy: all %d assignments of %s to "
            "group_by / merge / unlisted, %d contexts, all ordered pairs + whole-family flows in three "
            "listing orders"
            % (" (thorough: also 3 items over the 50 depth<=1 specifications of the 4-leaf alphabet)"
               if d["extras"] else "", d["deep_name"],
               " and all pairs with a depth-2 item over the 2-leaf alphabet" if d["extras"] else "",
               ", pre-built items" + ("" if d["extras"] else " (depth<=1 and Not only)"),
               len(sel_values()), len(SC_KEYS), len(sel_values(extra=True)),
               len(path_strings(pd["s_len"])), pd["s_len"], len(path_values(pd["s_depth"])), pd["s_depth"],
               len(path_sc_keys(pd["sc_len"])), pd["sc_len"], len(path_values(pd["sc_depth"])),
               " (+ one more level)" if d["extras"] else "",
               len(shared_specs(SMALL_LEAVES, sd["flat_width"], 1)), sd["flat_width"],
               len(shared_builds(SHARED_FORMS)),
               " and all triples of the 6 Selector / Or,And / Not builds" if d["extras"] else "", len(sd["modes"]),
               len(shared_specs(sd["nested_leaves"], 2, 2)), len(sd["nested_leaves"]), sd["nested_name"],
               len(shared_edits(SMALL_LEAVES)), len(shared_edits(sd["nested_leaves"])),
               2 * 3 ** (len(gb_keys(tier)) - 1), gb_keys(tier), len(gb_family(tier))))


def shards(tier):
    d = _dom(tier)
    out = []
    out.append({"kind": "sel1", "bound": "depth<=1"})
    out.append({"kind": "sc", "bound": "depth<=1"})
    out.append({"kind": "filter", "bound": "depth<=1"})
    for part in ("strings", "sc"):
        for ch in range(_path_dom(tier)["chunks"]):
            out.append({"kind": "paths", "part": part, "chunk": ch, "bound": "depth<=1"})
    for ch in range(d["shared_flat_chunks"]):
        out.append({"kind": "shared", "part": "flat", "chunk": ch, "chunks": d["shared_flat_chunks"],
                    "bound": "depth<=1"})
    for roe in (True, False):
        out.append({"kind": "mixed", "outer": roe, "bound": "depth<=2"})
    for ch in range(d["shared_chunks"]):
        out.append({"kind": "shared", "part": "nested", "chunk": ch, "chunks": d["shared_chunks"],
                    "bound": "depth<=2"})
    for roe in (True, False):
        out.append({"kind": "sel2not", "roe": roe, "bound": "depth<=2"})
        for top in ("or", "and"):
            for ch in range(d["chunks"]):
                out.append({"kind": "sel2", "roe": roe, "top": top, "chunk": ch, "bound": "depth<=2"})
    for root in "GM":
        for a in "-GM":
            for b in "-GM":
                out.append({"kind": "groupby", "fixed": {"": root, "a": a, "b": b}, "bound": "depth<=2"})
    if d["extras"]:
        for roe in (True, False):
            for top in ("or", "and"):
                for ch in range(4):
                    out.append({"kind": "sel2triples", "roe": roe, "top": top, "chunk": ch,
                                "bound": "depth<=2"})
    for roe in (True, False):
        for top in ("not", "or", "and"):
            for ch in range(4):
                out.append({"kind": "sel3", "roe": roe, "top": top, "chunk": ch, "bound": "depth<=3"})
    if d["extras"]:
        for roe in (True, False):
            for top in ("or", "and"):
                for ch in range(16):
                    out.append({"kind": "sel3pairs", "roe": roe, "top": top, "chunk": ch,
                                "bound": "depth<=3"})
    return out


def _deep_level2(leaves, roe):
    l1 = level1(leaves, 2, roe)
    return l1 + composites(l1, 2, roe)


def run_shard(p, tier):
    d = _dom(tier)
    res = Result()
    kind = p["kind"]
    if kind == "sel1":
        ref = Ref(sel_values())
        for roe in (True, False):
            for spec in level1(FULL_LEAVES, 3, roe):
                forms = ["selector", "wrapped"] + (["direct"] if has_direct(spec) else [])
                for form in forms:
                    check_spec(res, ref, spec, roe, form, sample=True)
    elif kind == "sel2not":
        roe = p["roe"]
        children = level1(FULL_LEAVES, 2, roe)
        ref = Ref(sel_values(), shared=children)
        for c in children:
            spec = ("not", c, roe)
            for form in ("selector", "direct", "wrapped"):
                check_spec(res, ref, spec, roe, form, sample=True)
    elif kind == "sel2":
        roe, top = p["roe"], p["top"]
        children = level1(FULL_LEAVES, 2, roe)
        ref = Ref(sel_values(), shared=children)
        firsts = [c for i, c in enumerate(children) if i % d["chunks"] == p["chunk"]]
        for x in firsts:
            for items in [(x,)] + [(x, y) for y in children]:
                spec = (top, items)
                if M.depth_of(spec) < 2:
                    continue        # already in sel1
                check_spec(res, ref, spec, roe, "selector", sample=True)
                if len(items) == 1 or d["extras"]:
                    check_spec(res, ref, spec, roe, "direct")
                if d["extras"] and M.is_leaf(items[-1]):
                    check_spec(res, ref, spec, roe, "wrapped")
    elif kind == "sel2triples":
        roe, top = p["roe"], p["top"]
        children = level1(SMALL_LEAVES, 2, roe)
        ref = Ref(sel_values(), shared=children)
        firsts = [c for i, c in enumerate(children) if i % 4 == p["chunk"]]
        for x in firsts:
            for y in children:
                for z in children:
                    spec = (top, (x, y, z))
                    if M.depth_of(spec) < 2:
                        continue
                    check_spec(res, ref, spec, roe, "selector", sample=True)
    elif kind == "sel3":
        roe, top = p["roe"], p["top"]
        leaves = d["deep_leaves"]
        l2 = [s for s in _deep_level2(leaves, roe) if M.depth_of(s) == 2]
        ref = Ref(sel_values(), shared=l2)
        mine = [s for i, s in enumerate(l2) if i % 4 == p["chunk"]]
        for x in mine:
            if top == "not":
                specs = [("not", x, roe)]
            else:
                specs = [(top, (x,))]
                for l in leaves + [("not", leaves[-1], roe)]:
                    specs.append((top, (x, l)))
                    specs.append((top, (l, x)))
            for spec in specs:
                check_spec(res, ref, spec, roe, "selector", sample=True)
                check_spec(res, ref, spec, roe, "direct")
    elif kind == "sel3pairs":
        vjs = [v for v in sel_values() if v["ctx"] in (None, {"a": 1})]
        roe, top = p["roe"], p["top"]
        l2 = _deep_level2(TINY_LEAVES, roe)
        ref = Ref(vjs, shared=l2)
        deep = [s for s in l2 if M.depth_of(s) == 2]
        mine = [s for i, s in enumerate(deep) if i % 16 == p["chunk"]]
        for x in mine:
            for y in l2:
                check_spec(res, ref, (top, (x, y)), roe, "selector", sample=True)
                if M.depth_of(y) < 2:
                    check_spec(res, ref, (top, (y, x)), roe, "selector")
    elif kind == "sc":
        run_sc(res, tier)
    elif kind == "mixed":
        run_mixed(res, tier, p["outer"])
    elif kind == "filter":
        run_filter(res, tier)
    elif kind == "paths":
        run_paths(res, tier, p["part"], p["chunk"])
    elif kind == "groupby":
        run_groupby(res, tier, p["fixed"])
    elif kind == "shared":
        run_shared(res, tier, p["part"], p["chunk"], p["chunks"])
    else:
        raise ValueError(p)
    return res


def run_sc(res, tier):
    ref = Ref(sel_values(extra=True))
    partners = [("c", "int"), ("f", "r_len"), ("s", "a.b")]
    for roe in (True, False):
        for notation, dotted in SC_KEYS:
            for pred in SC_PREDS:
                leaf = ("sc", notation, dotted, pred)
                check_spec(res, ref, leaf, roe, "direct", sample=True)
                check_spec(res, ref, leaf, roe, "selector")
                comps = [("not", leaf, roe), ("or", (leaf,)), ("and", (leaf,))]
                for q in partners:
                    for top in ("or", "and"):
                        comps.append((top, (leaf, q)))
                        comps.append((top, (q, leaf)))
                for spec in comps:
                    check_spec(res, ref, spec, roe, "selector")
                    check_spec(res, ref, spec, roe, "direct")
        # two SelectContext leaves together
        for k1, k2 in itertools.product(SC_KEYS[:3], repeat=2):
            for p1, p2 in itertools.product(SC_PREDS, repeat=2):
                for top in ("or", "and"):
                    check_spec(res, ref, (top, (("sc",) + k1 + (p1,), ("sc",) + k2 + (p2,))), roe,
                               "selector")


def run_paths(res, tier, part, chunk):
    """Key paths of every length (components repeat) against nested contexts of every depth.

    strings: Selector(s), Not(s), [s], (s,) for every dotted string; non-trivial when at least two
    components of the string are keys on the way down, or the reference selects the value.
    sc: SelectContext(key, predicate) for every path in every notation (the empty path = the context
    itself), alone, inside Selector and under Not; non-trivial when the addressed sub-context is
    present (the predicate is really applied)."""
    d = _path_dom(tier)
    if part == "strings":
        ref = Ref(path_values(d["s_depth"]))
        ctxs = [M.split_value(v)[1] for v in ref.values]
        mine = [x for i, x in enumerate(path_strings(d["s_len"])) if i % d["chunks"] == chunk]
        for dotted in mine:
            leaf = ("s", dotted)
            parts = dotted.split(".")
            hot = [M.descent(c, parts) >= 2 or ref.leaf(leaf, vi) == ("ok", True)
                   for vi, c in enumerate(ctxs)]
            check_spec(res, ref, leaf, True, "selector", sample=True, interesting=hot)
            check_spec(res, ref, leaf, False, "selector", interesting=hot)
            check_spec(res, ref, ("not", leaf, True), True, "selector", interesting=hot)
            check_spec(res, ref, ("not", leaf, True), True, "direct", interesting=hot)
            check_spec(res, ref, ("or", (leaf,)), True, "selector", interesting=hot)
            check_spec(res, ref, ("and", (leaf,)), True, "selector", interesting=hot)
    elif part == "sc":
        ref = Ref(path_values(d["sc_depth"]))
        ctxs = [M.split_value(v)[1] for v in ref.values]
        mine = [x for i, x in enumerate(path_sc_keys(d["sc_len"])) if i % d["chunks"] == chunk]
        for notation, dotted in mine:
            path = M.path_of(dotted)
            hot = [M.descent(c, path) == len(path) for c in ctxs]
            for pred in PATH_PREDS:
                leaf = ("sc", notation, dotted, pred)
                for roe in (True, False):
                    check_spec(res, ref, leaf, roe, "direct", sample=roe, interesting=hot)
                check_spec(res, ref, leaf, True, "selector", interesting=hot)
                check_spec(res, ref, ("not", leaf, False), False, "direct", interesting=hot)
    else:
        raise ValueError(part)


def run_mixed(res, tier, outer):
    """Sub-selectors with their own raise_on_error (pre-built Selector / Not items)."""
    d = _dom(tier)
    vjs = [v for v in sel_values() if v["ctx"] in (None, {"a": 1}, {"a": {"b": 1}})]
    ref = Ref(vjs)
    leaves = [("s", "a.b"), ("c", "int"), ("f", "r_len"), ("f", "r_div")]
    items = list(leaves)
    for l in leaves:
        for r in (True, False):
            items.append(("sel", l, r))
            items.append(("not", l, r))
    comps = []
    for kind in ("or", "and"):
        for w in (1, 2):
            for its in itertools.product(items, repeat=w):
                comps.append((kind, its))
    level = []
    for c in comps:
        level.append(c)                       # top: Selector(c, outer)
        level.append(("not", c, outer))       # top: Selector(Not(c, outer), outer)
        level.append(("not", c, not outer))   # a Not with the other setting below the top
        level.append(("sel", c, not outer))
    for spec in level:
        check_spec(res, ref, spec, outer, "selector", mixed=True, sample=True)
    if d["extras"]:
        small_items = [("f", "r_len"), ("sel", ("f", "r_len"), True), ("sel", ("f", "r_len"), False),
                       ("c", "int"), ("not", ("f", "r_div"), True), ("not", ("f", "r_div"), False)]
        inner = []
        for kind in ("or", "and"):
            for its in itertools.product(small_items, repeat=2):
                for r in (True, False):
                    inner.append(("sel", (kind, its), r))
                    inner.append(("not", (kind, its), r))
        for x in inner:
            for y in small_items:
                for kind in ("or", "and"):
                    for its in ((x, y), (y, x)):
                        check_spec(res, ref, (kind, its), outer, "selector", mixed=True)
                        check_spec(res, ref, ("not", (kind, its), not outer), outer, "selector", mixed=True)


def run_filter(res, tier):
    vjs = sel_values()
    sc_leaves = [("sc", "str", "a.b", "p_pos"), ("sc", "list", "a", "p_is1"), ("sc", "str", "", "p_len")]
    for roe in (True, False):
        for spec in level1(FULL_LEAVES + sc_leaves, 2, roe):
            for name, flow in filter_flows(spec, roe, vjs):
                hows = ["selector"] + (["raw"] if roe else [])
                for how in hows:
                    case = check_filter(res, spec, roe, how, flow, name)
                    if case is not None:
                        res.sample(case, 2)


def run_groupby(res, tier, fixed):
    family = gb_family(tier)
    pristine = copy.deepcopy(family)
    for g, m in gb_assignments(tier, fixed):
        if set(g) & set(m):
            continue
        ok, why = gb_accepts(g, m)
        res.count("groupby_assignments_tried")
        if not ok:
            res.count("groupby_rejected_" + why)
            continue
        res.count("groupby_assignments_accepted")
        projs = [M.projections(c, g, m) for c in family]
        res.count("groupby_distinct_leaf_projections", len(set(pr[0] for pr in projs)))
        for order in ("sorted", "reversed", "interleaved"):
            check_gb_flow(res, g, m, family, order=order)
        if len(g) <= 1 and len(m) <= 1:
            check_gb_forms(res, g, m, family[:24])
        for i1, c1 in enumerate(family):
            for i2, c2 in enumerate(family):
                check_gb_pair(res, g, m, c1, c2, projs=(projs[i1], projs[i2]), fresh=False)
        res.sample({"law": "groupby-pair", "group_by": list(g), "merge": list(m),
                    "contexts": [family[len(family) // 2], family[-1]]}, 2)
    if family != pristine:   # the bulk loop shares the family's dictionaries between executions
        raise AssertionError("GroupBy modified a filled context; the pair enumeration is unreliable")
    # the documented defaults: GroupBy() merges everything into one group
    try:
        gb = lena.flow.GroupBy()
        vals = [(i, copy.deepcopy(c)) for i, c in enumerate(family[:40])]
        for v in vals:
            gb.fill(v)
        groups = list(gb.groups.values())
        ok = len(groups) == 1 and len(groups[0]) == len(vals) and all(x is y for x, y in zip(groups[0], vals))
        obs = [len(grp) for grp in groups]
    except Exception as e:  # noqa
        ok, obs = False, "raised " + type(e).__name__
    if fixed == {"": "M", "a": "-", "b": "-"}:
        res.case(nontrivial=True, outcome=("default", repr(obs)))
        if not ok:
            res.violation({"law": "groupby-default"}, obs, "one group in arrival order",
                          {"law": "groupby-default"})


def replay(case):
    res = Result()
    law = case.get("law")
    if law in ("selector", "selector-mixed-roe"):
        replay_selector(res, case)
    elif law == "shared-spec":
        check_shared(res, Ref(case["values"]), M.from_json(case["spec"]),
                     tuple(tuple(b) for b in case["builds"]), case["mode"],
                     edit=M.from_json(case["edit"]) if case.get("edit") else None,
                     items=case.get("items", "raw"))
    elif law == "filter":
        check_filter(res, M.from_json(case["spec"]), case["roe"], case["how"], case["values"], case["flow"])
    elif law == "groupby-pair":
        check_gb_pair(res, tuple(case["group_by"]), tuple(case["merge"]), case["contexts"][0],
                      case["contexts"][1])
    elif law == "groupby-forms":
        check_gb_forms(res, tuple(case["group_by"]), tuple(case["merge"]), case["contexts"])
        return [v for v in result_violations(res) if v["case"].get("forms") == case.get("forms")]
    elif law == "groupby-flow":
        order = case.get("order", "sorted")
        g, m = tuple(case["group_by"]), tuple(case["merge"])
        if order != "sorted":
            g, m = tuple(reversed(g)), tuple(reversed(m))
        check_gb_flow(res, g, m, case["contexts"], order=order)
    elif law == "groupby-default":
        run_groupby(res, "quick", {"": "M", "a": "-", "b": "-"})
        return [v for v in result_violations(res) if v["case"].get("law") == law]
    return result_violations(res)


LEVEL_TEXT = ("bounded exhaustive exploration: every selector specification of a 10-leaf alphabet nested "
              "to depth 2 (depth 3 over reduced alphabets), both raise_on_error settings and three "
              "construction forms, is executed on every value of a data x context family and compared "
              "with a recursive reference evaluator; one specification object (lists / tuples to depth 2) is "
              "handed to every ordered pair of constructions (6 forms, both settings) and then edited by its "
              "user, every selector made from it judged by the same evaluator with its own setting; every dotted string of 1..5 components and every "
              "SelectContext key path of 0..4 components (all notations, the empty key included) is "
              "executed on chains of nested dictionaries of every depth 0..5 / 0..4; every accepted (group_by, merge) assignment over "
              "{'', a, b, a.b, a.c, a.b.c} is executed on every ordered pair of a 124-context depth-3 "
              "family and judged by the longest-listed-prefix rule")
LEVEL_NOTE = ("holds for the enumerated alphabets only; truth values and exception types are compared; "
              "where the statement leaves a choice (short-circuit vs eager AND - OR is documented short-circuit -, empty projected "
              "sub-dictionaries, a specification list edited after a selector was built from it) both "
              "readings are accepted")
TECHNIQUE = ("exhaustive enumeration of specifications x values (selectors) and key-set assignments x "
             "context pairs (GroupBy) on the real code against independent reference models; bounded histories "
             "(builds, evaluations, edits) over one user-owned specification object")
