"""C06 - Histogram fill puts every value into exactly the right cell and conserves weight.

Bounded exhaustive enumeration (drivers E1 + E2) on the real lena.structures code:

  * index law: get_bin_on_value_1d(x, e) (and get_bin_on_value) == number of edges <= x, minus one,
    for every strictly increasing sub-sequence of every edge pool and every coordinate of the
    coordinate pool (pool numbers, their floating-point neighbours, midpoints, far outside, +-inf);
  * single fills: histogram.fill(x, w) from an all-zero and from an index-coded pre-filled state,
    for every (edge array, coordinate, weight): bins and n_out_of_range equal the reference model
    (the weight in the one cell of the half-open intervals, else in n_out_of_range), every other
    attribute is unchanged, sum(bins) + n_out_of_range == total weight (Fractions);
    the same through the Histogram element with bare data and with (data, context) values;
  * fill sequences up to length 3 (events = coordinate x weight) on 1-, 2- and 3-dimensional
    histograms, judged after every fill; and value sequences through the Histogram element;
  * the numeric-type axis (mc/ref/c06_types.py): the same laws for coordinates that are numbers but
    neither int nor float objects - Fraction (on the edges, between an edge and the float below it,
    a third into every bin, beyond the float range), huge int, bool, int and float subclasses,
    Decimal (integer edges only) - for every edge array, for multidimensional points with such
    items, with Fraction and Decimal weights, and in fill sequences that mix the kinds;
  * the container axis (mc/ref/c06_forms.py): the same edges given in tuples and in instances of
    list / tuple subclasses instead of lists - the flat edge list of every 1-dimensional array,
    and for the multidimensional histograms every outer container x every assignment of list /
    tuple to the axes - with bins made by lena and bins given, structure and element;
  * histories: every sequence of fills and OPERATIONS (every other public method of the histogram:
    reading, scale(), scale(other), set_nevents both ways, add; deepcopy and pickle; for the
    element compute, reset, deepcopy) with at least one operation and a fill at the end, up to 3
    steps (4, thorough 5, on the small histograms). The operations are executed, not judged: the
    model takes over the contents the real object shows after an operation, and every fill after
    it must again add its weight to exactly the right cell of THAT object and to nothing else -
    not to bins the operation replaced, not to the object a copy was taken from.
"""
import copy
import itertools
import math
import pickle
from decimal import Decimal
from fractions import Fraction

import lena.core
import lena.structures
from lena.structures import histogram, Histogram, get_bin_on_value_1d, get_bin_on_value

from mc.core import Result, result_violations
from mc.ref import c06c12_ref as R
from mc.ref import c06_types as T
from mc.ref import c06_forms as FM

ID = "C06"
LEVEL = "exploration"
DESIGN_REF = "DESIGN.md section 5, C06"
RULE = ("every strictly increasing sub-sequence (2..6 edges quick, 2..9 thorough, 10..12 - thorough 6..12 - from pools "
        "of 12) of every edge pool is an edge array (duplicates between pools removed); the index law "
        "is executed for every coordinate of the pool (numbers of the pool, their float neighbours, "
        "midpoints, far outside, +-inf), single fills for every (array, coordinate, weight, initial "
        "state), fill sequences up to length 3 for every sequence of (coordinate, weight) events of "
        "the listed 1-3 dimensional histograms. Numeric-type axis: for every edge array every typed "
        "coordinate of mc/ref/c06_types.typed_coordinates (Fraction on every edge, half-way to the float "
        "below every edge, a third into every bin, outside, +-10**400/3; int +-10**400; True, False; an "
        "int subclass on every int edge, a float subclass on every edge; for all-int arrays Decimal on "
        "every edge, 1e-9 below it, mid-bin, outside, +-1e400, +-Infinity) runs the index law, a "
        "structure fill of weight 1 (zero state) and of weight Fraction(-1, 3) (index-coded state) and "
        "both element drivers; every product of the short typed per-axis lists is a multidimensional "
        "point (tuple and list alternate) filled with weights 1, Fraction(-1, 3), Decimal('0.1'); three "
        "sequence histograms mix the kinds of coordinates and weights. Container axis: every 1-d edge "
        "array as tuple / list subclass / tuple subclass x (below, every edge, just below the last edge, "
        "above) x (bins made by lena: structure; index-coded bins given: element with contexts), and "
        "every multidimensional configuration in every form of mc/ref/c06_forms.forms_md (outer list / "
        "tuple / list subclass / tuple subclass x every assignment of list / tuple to the axes, all axes "
        "list subclass, all axes tuple subclass) x every product of those per-axis coordinates x four "
        "drivers. Histories: for each of the history histograms every step sequence of the patterns "
        "of/fof/off/oof (4 steps - thorough: up to 5 - where the count stays below the stated threshold) "
        "with f = every (coordinate, weight) of per-axis [below, every edge] and o = "
        "every operation of c06_forms.OPS (ELEMENT_OPS for the two element drivers); the model is "
        "set to the real contents after each operation and every fill is judged (exact conservation "
        "only while no operation has multiplied the contents). An index case is non-trivial when the array has at "
        "least two bins and the coordinate lies inside [first edge, last edge); a fill case when at "
        "least one weight lands in a cell of a histogram with at least two cells; a history when its last "
        "fill does. Cases are distinct "
        "by construction (the enumeration never repeats an (array, container form, coordinate, weight, "
        "state, driver) combination or a history)")
ASSUMPTIONS = [
"edges are finite ints/floats, strictly increasing, with a finite span (last - first "
    "does not overflow); 1-dimensional histograms use a flat edge list as lena documents",
    "the containers of edges are lists, tuples and instances of subclasses of the two ('lists or "
    "tuples of numbers', 'a sequence of one-dimensional arrays'); other sequence types (range, "
    "array.array, deque) are outside the alphabet; everywhere off the container axis they are lists",
    "operations between fills are the public methods of histogram (repr/==/get_nevents, scale(), "
    "scale(3), set_nevents(8), set_nevents(8, include_out_of_range=True), add of an index-coded "
    "histogram), copy.deepcopy and a pickle round trip, and compute / reset / deepcopy of the "
    "element; their own results are not judged here (C12, C09), an exception they raise (documented "
    "for a histogram without entries) ends nothing: the fills go on; assignment to the attributes "
    "from outside is not an operation of the alphabet",
    "what a fill must leave alone is every public attribute and the stored scale; other private "
    "attributes are the implementation's (state kept there is judged by what later fills do)",
    "coordinates are finite numbers or +-inf (NaN is outside the alphabet); multidimensional "
    "coordinates are tuples or lists of the histogram's dimension",
    "a number is any object of a Python real-number type that can be compared with and subtracted "
    "from the edges: int, bool, float, their subclasses, fractions.Fraction with any edges, "
    "decimal.Decimal with all-integer edges only (Python defines no Decimal-float arithmetic, so "
    "Decimal coordinates on float edges are outside the alphabet); complex and user-defined number "
    "classes are not enumerated; edges themselves stay ints and floats as the quantifier says",
    "weights of the numeric-type axis are Fraction(-1, 3), Fraction(1, 3), Decimal('0.1'), "
    "Decimal('0.5') (never mixed with float contents, with which Decimal cannot be added); "
    "conservation for them is judged exactly with Fractions",
    "weights are 1, 2, 0.5, -1 (dyadic, so that conservation is exact); the Histogram element fills "
    "with weight 1 only (it has no weight argument)",
"fill sequences have length <= 3, histories <= 3 steps (4 for a histogram with fewer than 30000 "
    "histories of 4 steps; thorough: 4 and 5 with fewer than 1200000; an eighth of these thresholds "
    "for the element drivers); 12-edge arrays are all "
    "sub-sequences of length >= 10 of six pools",
]
NONTRIVIAL_FLOOR = {"quick": 250000, "thorough": 600000}
BUDGET_S = {"quick": 240, "thorough": 1500}

WEIGHTS = [1, 2, 0.5, -1]
N_ARRAY_SHARDS = 32
N_FORM_SHARDS = 16


def describe(tier):
    n = len(R.edge_arrays(tier))
    return ("%d distinct 1-d edge arrays from %d pools of 9 numbers (sub-sequences of length 2..%d) "
            "and %d pools of 12 (length 10..12 quick, 6..12 thorough); about 40 coordinates each; weights %r; two initial "
            "states; %d multi-dimensional configurations; fill sequences of length <= 3; numeric-type "
            "axis: per edge array 4 typed coordinates per edge plus 7 (8 per edge plus 12 for integer "
            "arrays) of the kinds %s, typed points on every multi-dimensional configuration, "
"typed weights %r, 3 mixed-kind sequence histograms; container axis: %d forms of every 1-d "
            "array, %d / %d forms of the 2- / 3-dimensional configurations; histories of fills and "
            "operations (%d operations of the structure, %d of the element) of at most %d steps (4, "
            "in the thorough tier 5, where fewer than %d of that length - an eighth of that for the "
            "element drivers) on %d histograms"
            % (n, len(R.POOLS9), 9 if tier == "thorough" else 6, len(R.POOLS12), WEIGHTS,
               len(_md_configs(tier)), "/".join(T.KINDS), [str(w) for w in T.TYPED_WEIGHTS],
               len(FM.forms_1d()), len(FM.forms_md(2)), len(FM.forms_md(3)), len(FM.OPS),
               len(FM.ELEMENT_OPS), 3, HISTORY_EXTRA_BELOW[tier],
               len(_history_configs(tier))))


# ---- configurations ---------------------------------------------------------------------------------
def _seq_configs(tier):
    """Histograms for the fill-sequence exploration: (name, edges, rich coordinates?, weights)."""
    if tier == "thorough":
        W3 = W2a = W2b = WEIGHTS
    else:
        W3, W2a, W2b = [1, 0.5, -1], [1, -1], [1, 0.5]
    cfgs = [
        ("1d-int-3bins", [0, 1, 2, 3], True, W3),
        ("1d-nonuniform", [0, 1e-9, 1, 1e9], True, W2a),
        ("1d-noise", [0.1, 0.2, 0.30000000000000004], True, W3),
        ("1d-negative", [-1e3, -8, -7.5, -1e-5], True, W2b),
        ("1d-one-bin", [-1, 1], True, WEIGHTS),
        ("2d-2x2", [[0, 1, 2], [0, 1, 2]], False, [1, -1]),
        ("2d-1x3", [[0.5, 1e3], [-2, -1, 0, 1e-9]], False, [1, 2]),
        ("3d-1x2x2", [[0, 1], [0, 1, 2], [0.0, 0.5, 1.0]], False, [1, -1]),
    ]
    # histories that mix the numeric kinds of coordinates and weights (per-axis lists given here)
    F, D = Fraction, Decimal
    cfgs += [
        ("1d-int-3bins-typed", [0, 1, 2, 3],
         [[F(-1, 3), F(0), F(1, 2), F(3) - F(1, 2 ** 80), D("1.5"), D("3"), True, T.FloatSub(2.0),
           T.IntSub(1), 2.5]], [1, F(1, 3)]),
        ("1d-float-typed", [0.1, 0.5, 1.0, 4.0],
         [[F(1, 10), F(1, 2), F(7, 2), F(4), False, True, T.FloatSub(0.5), 0.75]], [1, D("0.5")]),
        ("2d-2x2-typed", [[0, 1, 2], [0.0, 0.5, 1.0]],
         [[F(1, 2), F(1), D("1.5"), 2], [F(-1, 7), F(1, 2), T.FloatSub(0.0), 0.75]], [1]),
    ]
    if tier == "thorough":
        cfgs += [
            ("1d-int-5bins", [0, 1, 2, 3, 4, 5], True, WEIGHTS),
            ("1d-huge-last", [0, 1, 2, 1e12], True, WEIGHTS),
            ("1d-big-int", [2 ** 53, 2 ** 53 + 1, 2 ** 60], True, WEIGHTS),
            ("2d-3x2", [[0, 1e-9, 1, 1e9], [1, 2, 4]], False, [1, 2, 0.5, -1]),
            ("3d-2x2x2", [[0, 1, 2], [0.1, 0.2, 0.30000000000000004], [-1, 0, 1]], False, [1, 0.5]),
        ]
    return cfgs


def _md_configs(tier):
    """Multidimensional histograms for the single-fill sweep with rich per-axis coordinates."""
    cfgs = [
        ("2d-2x2-int", [[0, 1, 2], [0, 1, 2]]),
        ("2d-nonuniform", [[0, 1e-9, 1, 1e9], [-1e300, -1, 0]]),
        ("2d-noise-pow2", [[0.1, 0.2, 0.30000000000000004], [1, 2, 4, 8]]),
        ("2d-1x1", [[0, 1], [0.0, 1.0]]),
        ("3d-1x2x3", [[0, 1], [0, 1, 2], [0.0, 0.5, 1.0, 1.5]]),
        ("3d-2x2x2-mixed", [[-1, 0, 1], [1e-300, 1, 1e300], [2 ** 53, 2 ** 53 + 1, 2 ** 60]]),
    ]
    if tier == "thorough":
        cfgs += [
            ("2d-5x4", [[0, 1, 2, 3, 4, 5], [0, 1e-12, 1, 2, 1e12]]),
            ("3d-3x3x3", [[0, 1, 2, 3], [0.1, 0.2, 0.30000000000000004, 0.4], [-8, -7.5, -1, 0]]),
            ("3d-3x4x2", [[0, 1, 4, 5], [1, 2, 4, 8, 16], [-2.0, -1.5, 2.0]]),
        ]
    return cfgs


def _history_configs(tier):
    """Histograms for the histories with operations between the fills: (name, edges, weights)."""
    cfgs = [
        ("1d-int-3bins", [0, 1, 2, 3], [1, 0.5, -1]),
        ("1d-noise", [0.1, 0.2, 0.30000000000000004], [1, -1]),
        ("2d-2x2", [[0, 1, 2], [0, 1, 2]], [1, -1]),
        ("2d-1x3", [[0.5, 1e3], [-2, -1, 0, 1e-9]], [1, 2]),
        ("3d-1x2x2", [[0, 1], [0, 1, 2], [0.0, 0.5, 1.0]], [1]),
    ]
    if tier == "thorough":
        cfgs += [
            ("2d-3x2", [[0, 1e-9, 1, 1e9], [1, 2, 4]], [1, 0.5]),
            ("3d-2x2x2", [[0, 1, 2], [0.1, 0.2, 0.30000000000000004], [-1, 0, 1]], [1, -1]),
        ]
    return cfgs


HISTORY_PARTS = {"quick": 4, "thorough": 8}
# a history has at most 3 steps; 4 (thorough: up to 5) for a histogram and driver whose histories
# of that length are fewer than this
HISTORY_LONGEST = {"quick": 4, "thorough": 5}
HISTORY_EXTRA_BELOW = {"quick": 30000, "thorough": 1200000}


def _history_steps(cfg, element=False):
    """(fill steps, operation steps) of one history configuration: the coordinates are every
    product of per-axis [below the range, every edge] (an edge lies in the bin it opens, the last
    edge is the first value above the range)."""
    name, edges, weights = cfg
    axes = R.unify(edges)
    per_axis = [[a[0] - (a[-1] - a[0])] + list(a) for a in axes]
    coords = per_axis[0] if len(axes) == 1 else list(itertools.product(*per_axis))
    fills = [["f", c, w] for c in coords for w in ([1] if element else weights)]
    ops = [["o", o] for o in (FM.ELEMENT_OPS if element else FM.OPS)]
    return fills, ops


def _history_max_len(tier, nf, no, element=False):
    n = 3
    # the element drivers (two of them, few operations) get an eighth of the threshold
    limit = HISTORY_EXTRA_BELOW[tier] // (8 if element else 1)
    # histories of n + 1 steps: every sequence of n fills / operations with an operation, then a fill
    while n < HISTORY_LONGEST[tier] and ((nf + no) ** n - nf ** n) * nf < limit:
        n += 1
    return n


def shards(tier):
    # the cheap shards of every law first (a run stopped by its budget has then seen every law on
    # the small histograms), the sweeps over all edge arrays and the long sequences after them
    out = [{"kind": "index", "chunk": k} for k in range(N_ARRAY_SHARDS)]
    for i, _cfg in enumerate(_md_configs(tier)):
        for r in range(4):
            out.append({"kind": "md", "cfg": i, "part": r, "of": 4})
    for i, _cfg in enumerate(_md_configs(tier)):
        out.append({"kind": "md-typed", "cfg": i})
    for i, _cfg in enumerate(_md_configs(tier)):
        out.append({"kind": "forms-md", "cfg": i})
    for i, cfg in enumerate(_history_configs(tier)):
        for r in range(HISTORY_PARTS[tier]):
            out.append({"kind": "history", "cfg": i, "part": r, "of": HISTORY_PARTS[tier]})
    # the three sweeps over all edge arrays interleaved, so that a stopped run has seen each of them
    for k in range(N_ARRAY_SHARDS):
        out.append({"kind": "typed", "chunk": k})
        if k < N_FORM_SHARDS:
            out.append({"kind": "forms-1d", "chunk": k})
        out.append({"kind": "fill1", "chunk": k})
    for r in range(6):
        for i, cfg in enumerate(_seq_configs(tier)):
            out.append({"kind": "seq", "cfg": i, "part": r, "of": 6})
    return out


# ---- the index law ------------------------------------------------------------------------------------
_PLAIN = (int, float)


def _with_kind(cause, coord, weight=1):
    """Causes of cases from the numeric-type axis carry the kinds of the numbers; causes of plain
    int/float cases stay as they always were."""
    items = coord if isinstance(coord, (list, tuple)) else (coord,)
    if any(type(c) not in _PLAIN for c in items):
        cause["kind"] = T.kinds_of(coord)
    if type(weight) not in _PLAIN:
        cause["weight_kind"] = T.kind_of(weight)
    return cause


def _formed(case, cause, form):
    """Cases and causes of the container axis carry the form; the others stay as they were."""
    if form is not None:
        case["form"] = form
        cause["form"] = FM.form_label(form)
    return case, cause


def check_index(res, edges, x, form=None):
    ref = R.ref_index(edges, x)
    try:
        formed = edges if form is None else FM.apply_form(edges, form)
        got = get_bin_on_value_1d(x, formed)
        got_md = get_bin_on_value(x, formed)
    except Exception as e:
        got, got_md = "raised " + type(e).__name__, None
    nontrivial = len(edges) >= 3 and edges[0] <= x < edges[-1]
    res.case(nontrivial=nontrivial, outcome=(len(edges), ref))
    if got != ref or (got_md is not None and got_md != [ref]):
        if isinstance(got, int):
            diff = max(-2, min(2, got - ref)) if got != ref else "get_bin_on_value-differs"
        else:
            diff = got
        case, cause = _formed({"law": "bin-index-1d", "edges": T.enc(edges), "x": T.enc(x)},
                              _with_kind({"law": "bin-index-1d", "position": R.position(edges, x),
                                          "diff": diff}, x), form)
        res.violation(case, {"get_bin_on_value_1d": got, "get_bin_on_value": got_md}, ref, cause)


def check_index_md(res, edges, coord, form=None):
    axes = R.unify(edges)
    ref = [R.ref_index(a, c) for a, c in zip(axes, coord)]
    try:
        got = get_bin_on_value(coord, edges if form is None else FM.apply_form(edges, form))
    except Exception as e:
        got = "raised " + type(e).__name__
    inside = all(0 <= i < len(a) - 1 for i, a in zip(ref, axes))
    res.case(nontrivial=inside, outcome=("md", tuple(ref)))
    if got != ref:
        case, cause = _formed({"law": "bin-index-md", "edges": T.enc(edges), "x": T.enc(list(coord)),
                               "as_list": isinstance(coord, list)},
                              _with_kind({"law": "bin-index-md", "dim": len(axes),
                                          "position": "/".join(sorted(set(R.position(a, c)
                                                                          for a, c in zip(axes, coord))))},
                                         coord), form)
        res.violation(case, got, ref, cause)


# ---- fills ------------------------------------------------------------------------------------------
_CONT = (list, tuple)


def _cp(x):
    """Copy of nested lists/tuples of numbers (much cheaper than copy.deepcopy); instances of
    subclasses of list and tuple are rebuilt in their own type."""
    t = type(x)
    if t is list:
        if x and isinstance(x[0], _CONT):
            return [_cp(v) for v in x]
        return x[:]
    if t is tuple:
        if x and isinstance(x[0], _CONT):
            return tuple(_cp(v) for v in x)
        return x
    if isinstance(x, _CONT):
        return t(_cp(v) for v in x)
    return x


def _others(h):
    """Copy of every attribute of the histogram a fill has to leave alone: the public ones except
    bins and n_out_of_range (edges, dim, ranges, nbins and whatever else is there), and the stored
    scale, of which scale() documents that filling does not touch it. Other private attributes are
    the implementation's own (a cache may be built when the first value comes); whether such state
    does harm is judged by what the fills after it do, in the sequences and in the histories."""
    return {k: _cp(v) for k, v in vars(h).items()
            if (k[0] != "_" or k == "_scale") and k != "bins" and k != "n_out_of_range"}


def _exact_total(h):
    vals = R.flat(h.bins) + [h.n_out_of_range]
    try:
        return Fraction(math.fsum(vals))
    except (TypeError, ValueError, OverflowError):
        return None


def _positions(axes, coord):
    if len(axes) == 1 and not isinstance(coord, (list, tuple)):
        coord = (coord,)
    return "/".join(sorted(set(R.position(a, c) for a, c in zip(axes, coord))))


def _enc_events(events):
    return [[T.enc(list(c)) if isinstance(c, (list, tuple)) else T.enc(c), T.enc(w),
             "tuple" if isinstance(c, tuple) else ""] for c, w in events]


def _compare(h, model, before, edges, exact_total=True):
    """What of the real histogram differs from the model after a fill (None: nothing).
    exact_total=False: the contents are floats that are no dyadic rationals of a few bits (they
    come from a rescaling), so the one addition of the fill rounds and the exact sum is not
    demanded beyond the equality with the model, which makes the same addition (rule R4)."""
    if h.bins != model.bins:
        return "bins"
    if h.n_out_of_range != model.n_out:
        return "n_out_of_range"
    if _others(h) != before or h.edges != edges:
        return "other-attribute-changed"
    if not exact_total:
        return None
    # math.fsum is exact whenever the exact sum is a float (always, for dyadic weights);
    # a mismatch is confirmed with Fractions before it is reported
    if _exact_total(h) != model.total:
        try:
            total = sum((Fraction(v) for v in R.flat(h.bins)), Fraction(0)) \
                + Fraction(h.n_out_of_range)
        except (TypeError, ValueError):
            total = None
        if total != model.total:
            return "conservation"
    return None


def judge_fill(res, edges, bins0, n_out0, events, via="structure", form=None):
    """Build a fresh histogram (or Histogram element), apply the events one by one and compare
    with the reference model after every fill. events: list of (coordinate, weight).
    *form* names the containers the edges are given in (mc/ref/c06_forms.py; None: plain lists).
    Returns True when some weight landed inside a cell."""
    def case():
        c = {"law": "fill", "via": via, "edges": T.enc(edges),
             "bins": T.enc(bins0) if bins0 is not None else None, "n_out": n_out0,
             "events": _enc_events(events)}
        if form is not None:
            c["form"] = form
        return c

    def cause(what, coord, w=1):
        c = _with_kind({"law": "fill", "via": via, "dim": len(model.axes), "what": what,
                        "position": _positions(model.axes, coord)}, coord, w)
        if form is not None:
            # the container axis: which containers, not where the point lies
            del c["position"]
            c["form"] = FM.form_label(form)
        return c

    model = R.ModelHist(edges, bins0, n_out0)
    landed = False
    try:
        if form is None:
            e = _cp(edges)
        else:
            e = FM.apply_form(edges, form)
            edges = FM.apply_form(edges, form)        # what h.edges must stay equal to
        b = _cp(bins0)
        if via in ("structure", "structure-buffer"):
            el = None
            h = histogram(e, b) if b is not None else histogram(e)
            h.n_out_of_range = n_out0
        else:
            el = Histogram(e, b) if b is not None else Histogram(e)
            h = list(el.compute())[0][0]
            if n_out0:
                h.n_out_of_range = n_out0
    except Exception as ex:
        c = {"law": "fill", "via": via, "what": "construction:" + type(ex).__name__}
        if form is not None:
            c["form"] = FM.form_label(form)
        res.violation(case(), "construction raised " + type(ex).__name__, "a histogram", c)
        return False
    buf = []
    for step, (coord, w) in enumerate(events):
        before = _others(h)
        idx, inside = model.fill(coord, w)
        landed = landed or inside
        try:
            if via == "structure":
                h.fill(_cp(coord), w)
            elif via == "structure-buffer":
                # the caller keeps ONE list for its coordinates and overwrites it for every point
                buf[:] = list(coord)
                h.fill(buf, w)
            elif via == "element":
                el.fill(_cp(coord))
            else:
                el.fill((_cp(coord), {"ctx": step}))
            if el is not None:
                h = list(el.compute())[0][0]
        except Exception as ex:
            res.violation(case(), "fill %d raised %s" % (step, type(ex).__name__),
                          {"bins": T.enc(model.bins), "n_out_of_range": T.enc(model.n_out)},
                          cause("exception:" + type(ex).__name__, coord, w))
            return landed
        what = _compare(h, model, before, edges)
        if what:
            res.violation(case(), {"step": step, "bins": T.enc(h.bins),
                                   "n_out_of_range": T.enc(h.n_out_of_range)},
                          {"cell": list(idx), "inside": inside, "bins": T.enc(model.bins),
                           "n_out_of_range": T.enc(model.n_out)},
                          cause(what, coord, w))
            return landed
    res.outcome((R.flat(model.bins), model.n_out))
    return landed


# ---- histories: operations between the fills ---------------------------------------------------------
# operations after which the contents are still the small dyadic rationals the fills made them (add
# adds small integers); the others multiply the contents with a quotient
_KEEPS_CONTENTS = ("read", "scale", "add", "deepcopy", "pickle", "compute", "reset")


def _hist_op(name, h, edges):
    """Execute one operation of FM.OPS on the real histogram; returns the histogram to go on with."""
    if name == "read":
        repr(h)
        h == h
        h != 0
        h.get_nevents()
        h.get_nevents(include_out_of_range=True)
        return h
    if name == "scale":
        h.scale()
        return h
    if name == "rescale":
        h.scale(3)
        return h
    if name == "set_nevents":
        h.set_nevents(8)
        return h
    if name == "set_nevents_all":
        h.set_nevents(8, include_out_of_range=True)
        return h
    if name == "add":
        return h.add(histogram(_cp(edges), R.coded_bins(edges)))
    if name == "deepcopy":
        return copy.deepcopy(h)
    if name == "pickle":
        return pickle.loads(pickle.dumps(h))
    raise ValueError(name)


def _element_op(name, el):
    if name == "compute":
        list(el.compute())
        return el
    if name == "reset":
        el.reset()
        return el
    if name == "deepcopy":
        return copy.deepcopy(el)
    raise ValueError(name)


def judge_history(res, edges, steps, via="structure"):
    """A history of fills with operations in between (steps: ["f", coordinate, weight] or
    ["o", name]) on one fresh histogram (or Histogram element). The operations are executed, not
    judged (what scaling, adding, resetting give belongs to C12 / C09): after each of them the
    reference model is set to the bins and n_out_of_range the real object then shows. Every fill
    is judged as always: the weight in exactly the one cell (or in n_out_of_range), nothing else
    changed, weight conserved. An object left behind by deepcopy / pickle / add must not see the
    fills of its successor. Returns True when the last fill landed in a cell."""
    def case():
        return {"law": "history", "via": via, "edges": T.enc(edges),
                "steps": [[st[0], st[1]] if st[0] == "o" else
                          ["f"] + _enc_events([(st[1], st[2])])[0] for st in steps]}

    def cause(what, k, coord):
        prev = [st[1] for st in steps[:k] if st[0] == "o"]
        first_op = min([i for i, st in enumerate(steps[:k]) if st[0] == "o"] or [0])
        return {"law": "history", "via": via, "dim": len(axes), "what": what,
                "after": prev[-1] if prev else None,
                "filled_before_first_operation": any(st[0] == "f" for st in steps[:first_op]),
                "position": _positions(axes, coord)}

    def current(obj):
        return obj if el_mode is False else list(obj.compute())[0][0]

    axes = R.unify(edges)
    el_mode = via != "structure"
    try:
        obj = Histogram(_cp(edges)) if el_mode else histogram(_cp(edges))
        h = current(obj)
    except Exception as ex:
        res.violation(case(), "construction raised " + type(ex).__name__, "a histogram",
                      {"law": "history", "via": via, "what": "construction:" + type(ex).__name__})
        return False
    model = R.ModelHist(edges)
    left_behind = []          # (operation, histogram, its bins and n_out_of_range when it was left)
    inside = False
    exact = True              # until an operation has produced the contents
    op_outcomes = []
    for k, st in enumerate(steps):
        if st[0] == "o":
            try:
                new = _element_op(st[1], obj) if el_mode else _hist_op(st[1], obj, edges)
                op_outcomes.append("ok")
            except Exception as ex:
                # documented for histograms without entries / with zero integral (LenaValueError);
                # whatever it is, it is the operation's affair: the fills go on on the same object
                new = obj
                op_outcomes.append(type(ex).__name__)
            if new is not obj:
                left_behind.append((st[1], h, copy.deepcopy(h.bins), h.n_out_of_range))
            obj = new
            exact = exact and st[1] in _KEEPS_CONTENTS
            try:
                h = current(obj)
                model = R.ModelHist(edges, h.bins, h.n_out_of_range)
            except Exception as ex:
                # the operation left something that is no histogram of finite numbers: not a
                # matter of fill
                res.outcome(("history-ends", st[1], type(ex).__name__))
                return False
            continue
        coord, w = st[1], st[2]
        before = _others(h)
        idx, inside = model.fill(coord, w)
        try:
            if not el_mode:
                obj.fill(_cp(coord), w)
            elif via == "element":
                obj.fill(_cp(coord))
            else:
                obj.fill((_cp(coord), {"ctx": k}))
            h = current(obj)
        except Exception as ex:
            res.violation(case(), "step %d: fill raised %s" % (k, type(ex).__name__),
                          {"bins": T.enc(model.bins), "n_out_of_range": T.enc(model.n_out)},
                          cause("exception:" + type(ex).__name__, k, coord))
            return False
        what = _compare(h, model, before, edges, exact_total=exact)
        if not what:
            for name, old, bins, n_out in left_behind:
                if old.bins != bins or old.n_out_of_range != n_out:
                    what = "fill-reached-the-object-left-by-" + name
                    break
        if what:
            res.violation(case(), {"step": k, "bins": T.enc(h.bins),
                                   "n_out_of_range": T.enc(h.n_out_of_range)},
                          {"cell": list(idx), "inside": inside, "bins": T.enc(model.bins),
                           "n_out_of_range": T.enc(model.n_out)},
                          cause(what, k, coord))
            return False
    res.outcome((R.flat(model.bins), model.n_out, tuple(op_outcomes)))
    return inside


def run_index(res, tier, chunk):
    arrays = R.edge_arrays(tier)
    last = None
    for name, edges in arrays[chunk::N_ARRAY_SHARDS]:
        for x in R.coordinates(edges, R.pool_of(name)):
            check_index(res, edges, x)
            last = {"law": "bin-index-1d", "edges": T.enc(edges), "x": T.enc(x)}
        res.count("edge_arrays_index")
        res.maximum("max_edges", len(edges))
    if last:
        res.sample(last, 1)


def run_fill1(res, tier, chunk):
    arrays = R.edge_arrays(tier)
    last = None
    for name, edges in arrays[chunk::N_ARRAY_SHARDS]:
        coords = R.coordinates(edges, R.pool_of(name))
        ncells = len(edges) - 1
        coded = R.coded_bins(edges)
        for x in coords:
            for bins0, n0 in ((None, 0), (coded, 7)):
                for w in WEIGHTS:
                    landed = judge_fill(res, edges, bins0, n0, [(x, w)])
                    res.case(nontrivial=landed and ncells >= 2)
            # the element: bare data and (data, context)
            for via in ("element", "element-ctx"):
                for bins0 in (None, coded):
                    landed = judge_fill(res, edges, bins0, 0, [(x, 1)], via=via)
                    res.case(nontrivial=landed and ncells >= 2)
        res.count("edge_arrays_fill")
        last = {"law": "fill", "via": "structure", "edges": T.enc(edges), "bins": None, "n_out": 0,
                "events": [[T.enc(coords[len(coords) // 2]), 1, ""]]}
    if last:
        res.sample(last, 1)


def run_typed(res, tier, chunk):
    """The numeric-type axis: every edge array x every typed coordinate (mc/ref/c06_types.py):
    the index law, a fill of weight 1 into the all-zero state, a fill of a Fraction weight into the
    index-coded state, and the Histogram element with bare data and with (data, context).
    (Decimal weights are combined with every typed point in run_md_typed and in the sequences.)"""
    arrays = R.edge_arrays(tier)
    last = None
    for name, edges in arrays[chunk::N_ARRAY_SHARDS]:
        ncells = len(edges) - 1
        coded = R.coded_bins(edges)
        for kind, x in T.typed_coordinates(edges):
            check_index(res, edges, x)
            res.count("typed_index_" + kind)
            for bins0, n0, w, via in ((None, 0, 1, "structure"), (coded, 7, T.TYPED_WEIGHTS[0], "structure"),
                                      (coded, 0, 1, "element"), (None, 0, 1, "element-ctx")):
                landed = judge_fill(res, edges, bins0, n0, [(x, w)], via=via)
                res.case(nontrivial=landed and ncells >= 2)
            last = {"law": "fill", "via": "structure", "edges": T.enc(edges), "bins": None,
                    "n_out": 0, "events": _enc_events([(x, T.TYPED_WEIGHTS[0])])}
        res.count("edge_arrays_typed")
    if last:
        res.sample(last, 1)


def run_md_typed(res, tier, p):
    """Multidimensional points whose items are of the typed kinds (every product of the short
    per-axis lists), as tuples and as lists."""
    name, edges = _md_configs(tier)[p["cfg"]]
    axes = R.unify(edges)
    per_axis = [T.typed_axis_coordinates(a) for a in axes]
    ncells = len(R.cells_in_order(edges))
    coded = R.coded_bins(edges)
    last = None
    for k, coord in enumerate(itertools.product(*per_axis)):
        c = list(coord) if k % 2 else coord
        check_index_md(res, edges, c)
        for bins0, n0, w, via in ((None, 0, 1, "structure"), (coded, 3, T.TYPED_WEIGHTS[0], "structure"),
                                  (None, 0, T.TYPED_WEIGHTS[1], "structure"),
                                  (coded, 0, 1, "element-ctx")):
            landed = judge_fill(res, edges, bins0, n0, [(c, w)], via=via)
            res.case(nontrivial=landed and ncells >= 2)
        res.count("typed_points_md")
        last = {"law": "fill", "via": "structure", "edges": T.enc(edges), "bins": None, "n_out": 0,
                "events": _enc_events([(c, 1)])}
    if last:
        res.sample(last, 1)


def run_md(res, tier, p):
    name, edges = _md_configs(tier)[p["cfg"]]
    axes = R.unify(edges)
    per_axis = [R.axis_coordinates(a, rich=True) for a in axes]
    ncells = len(R.cells_in_order(edges))
    coded = R.coded_bins(edges)
    k = -1
    last = None
    for coord in itertools.product(*per_axis):
        k += 1
        if k % p["of"] != p["part"]:
            continue
        as_list = (k // p["of"]) % 2 == 1      # alternate tuple / list coordinates
        c = list(coord) if as_list else coord
        check_index_md(res, edges, c)
        for bins0, n0 in ((None, 0), (coded, 3)):
            for w in WEIGHTS:
                landed = judge_fill(res, edges, bins0, n0, [(c, w)])
                res.case(nontrivial=landed and ncells >= 2)
        for via in ("element", "element-ctx"):
            landed = judge_fill(res, edges, coded, 0, [(c, 1)], via=via)
            res.case(nontrivial=landed and ncells >= 2)
        last = {"law": "fill", "via": "structure", "edges": T.enc(edges), "bins": None, "n_out": 0,
                "events": [[T.enc(list(c)), 1, "" if as_list else "tuple"]]}
    res.maximum("max_dim", len(axes))
    if last:
        res.sample(last, 1)


def _events(cfg):
    name, edges, rich, weights = cfg
    axes = R.unify(edges)
    if isinstance(rich, list):
        per_axis = rich
    else:
        per_axis = [R.axis_coordinates(a, rich=rich) for a in axes]
    if len(axes) == 1:
        coords = per_axis[0]
    else:
        coords = list(itertools.product(*per_axis))
    return [(c, w) for c in coords for w in weights], coords


def run_seq(res, tier, p):
    cfg = _seq_configs(tier)[p["cfg"]]
    name, edges, rich, weights = cfg
    events, coords = _events(cfg)
    ncells = len(R.cells_in_order(edges))
    maxlen = 3
    # keep the number of sequences per configuration bounded: length 3 only while it stays
    # below about 300 k sequences
    if len(events) ** 3 > 400000:
        maxlen = 2
    res.maximum("max_sequence_length", maxlen)
    res.maximum("max_events_per_step", len(events))
    last = None
    for i, first in enumerate(events):
        if i % p["of"] != p["part"]:
            continue
        for length in range(1, maxlen + 1):
            for rest in itertools.product(events, repeat=length - 1):
                seq = [first] + list(rest)
                landed = judge_fill(res, edges, None, 0, seq)
                res.case(nontrivial=landed and ncells >= 2)
                res.count("fill_sequences")
                last = seq
                if length >= 2 and isinstance(first[0], (list, tuple)):
                    landed = judge_fill(res, edges, None, 0, seq, via="structure-buffer")
                    res.case(nontrivial=landed and ncells >= 2)
                    res.count("fill_sequences_from_one_coordinate_buffer")
    # the element: sequences of values (weight 1), alternating bare data / (data, context) driver
    for i, first in enumerate(coords):
        if i % p["of"] != p["part"]:
            continue
        for length in range(1, 4 if len(coords) ** 3 <= 40000 else 3):
            for rest in itertools.product(coords, repeat=length - 1):
                seq = [(c, 1) for c in (first,) + rest]
                for via in ("element", "element-ctx"):
                    landed = judge_fill(res, edges, None, 0, seq, via=via)
                    res.case(nontrivial=landed and ncells >= 2)
                    res.count("element_sequences")
    if last:
        res.sample({"law": "fill", "via": "structure", "edges": T.enc(edges), "bins": None,
                    "n_out": 0,
                    "events": _enc_events(last)}, 1)


def run_history(res, tier, p):
    """Every history of fills and operations of the patterns FM.history_patterns(max length) - at
    least one operation, a fill at the end - on the structure, and on the Histogram element with
    its own operations (bare data and (data, context) values)."""
    cfg = _history_configs(tier)[p["cfg"]]
    name, edges, weights = cfg
    ncells = len(R.cells_in_order(edges))
    for via in ("structure", "element", "element-ctx"):
        fills, ops = _history_steps(cfg, element=via != "structure")
        maxlen = _history_max_len(tier, len(fills), len(ops), element=via != "structure")
        res.maximum("max_history_length", maxlen)
        last = None
        for pattern in FM.history_patterns(maxlen):
            lists = [fills if c == "f" else ops for c in pattern]
            for i, first in enumerate(lists[0]):
                for j, second in enumerate(lists[1]):
                    # a shard = the histories whose first two steps have this index sum
                    if (i + j) % p["of"] != p["part"]:
                        continue
                    for rest in itertools.product(*lists[2:]):
                        steps = [first, second] + list(rest)
                        landed = judge_history(res, edges, steps, via=via)
                        res.case(nontrivial=landed and ncells >= 2)
                        res.count("histories_" + ("structure" if via == "structure" else "element"))
                        last = steps
        if last and via == "structure":
            res.sample({"law": "history", "via": via, "edges": T.enc(edges),
                        "steps": [[st[0], st[1]] if st[0] == "o" else
                                  ["f"] + _enc_events([(st[1], st[2])])[0] for st in last]}, 1)


def _form_drivers(coded, dim):
    # (initial bins, initial n_out_of_range, weight, driver): bins made by lena from the edges and
    # bins given with the edges, the structure and the element (all four combinations for the
    # multidimensional histograms, two of them for the many 1-dimensional arrays)
    if dim == 1:
        return ((None, 0, 1, "structure"), (coded, 0, 1, "element-ctx"))
    return ((None, 0, 1, "structure"), (coded, 3, -1, "structure"),
            (None, 0, 1, "element"), (coded, 0, 1, "element-ctx"))


def run_forms_md(res, tier, p):
    """The container axis on the multidimensional histograms: every form of FM.forms_md x every
    product of the per-axis coordinates (below, every edge, just below the last edge, above)."""
    name, edges = _md_configs(tier)[p["cfg"]]
    axes = R.unify(edges)
    per_axis = [R.axis_coordinates(a, rich=False) for a in axes]
    ncells = len(R.cells_in_order(edges))
    coded = R.coded_bins(edges)
    last = None
    for form in FM.forms_md(len(axes)):
        for k, coord in enumerate(itertools.product(*per_axis)):
            c = list(coord) if k % 2 else coord
            check_index_md(res, edges, c, form=form)
            for bins0, n0, w, via in _form_drivers(coded, len(axes)):
                landed = judge_fill(res, edges, bins0, n0, [(c, w)], via=via, form=form)
                res.case(nontrivial=landed and ncells >= 2)
            res.count("formed_points_md")
        res.count("forms_md")
        last = {"law": "fill", "via": "structure", "edges": T.enc(edges), "bins": None, "n_out": 0,
                "events": _enc_events([(c, 1)]), "form": form}
    if last:
        res.sample(last, 1)


def run_forms_1d(res, tier, chunk):
    """The container axis on every 1-dimensional edge array: the flat edge list as a tuple and as
    an instance of a list / tuple subclass x (below, every edge, just below the last edge, above)."""
    arrays = R.edge_arrays(tier)
    last = None
    for name, edges in arrays[chunk::N_FORM_SHARDS]:
        ncells = len(edges) - 1
        coded = R.coded_bins(edges)
        coords = R.axis_coordinates(edges, rich=False)
        for form in FM.forms_1d():
            for x in coords:
                check_index(res, edges, x, form=form)
                for bins0, n0, w, via in _form_drivers(coded, 1):
                    landed = judge_fill(res, edges, bins0, n0, [(x, w)], via=via, form=form)
                    res.case(nontrivial=landed and ncells >= 2)
                res.count("formed_points_1d")
        res.count("edge_arrays_forms")
        last = {"law": "fill", "via": "structure", "edges": T.enc(edges), "bins": None, "n_out": 0,
                "events": _enc_events([(coords[1], 1)]), "form": "tuple"}
    if last:
        res.sample(last, 1)


def run_shard(p, tier):
    res = Result()
    if p["kind"] == "index":
        run_index(res, tier, p["chunk"])
    elif p["kind"] == "fill1":
        run_fill1(res, tier, p["chunk"])
    elif p["kind"] == "typed":
        run_typed(res, tier, p["chunk"])
    elif p["kind"] == "md":
        run_md(res, tier, p)
    elif p["kind"] == "md-typed":
        run_md_typed(res, tier, p)
    elif p["kind"] == "seq":
        run_seq(res, tier, p)
    elif p["kind"] == "history":
        run_history(res, tier, p)
    elif p["kind"] == "forms-md":
        run_forms_md(res, tier, p)
    elif p["kind"] == "forms-1d":
        run_forms_1d(res, tier, p["chunk"])
    return res


def replay(case):
    res = Result()
    law = case.get("law")
    edges = T.dec(case["edges"])
    form = case.get("form")
    if law == "bin-index-1d":
        check_index(res, edges, T.dec(case["x"]), form=form)
    elif law == "bin-index-md":
        x = T.dec(case["x"])
        check_index_md(res, edges, x if case.get("as_list") else tuple(x), form=form)
    elif law == "history":
        steps = []
        for st in case["steps"]:
            if st[0] == "o":
                steps.append(["o", st[1]])
            else:
                c = T.dec(st[1])
                if isinstance(c, list) and len(st) > 3 and st[3] == "tuple":
                    c = tuple(c)
                steps.append(["f", c, T.dec(st[2])])
        judge_history(res, edges, steps, via=case.get("via", "structure"))
    elif law == "fill":
        events = []
        for ev in case["events"]:
            c = T.dec(ev[0])
            if isinstance(c, list) and len(ev) > 2 and ev[2] == "tuple":
                c = tuple(c)
            events.append((c, T.dec(ev[1])))
        bins0 = T.dec(case["bins"]) if case.get("bins") is not None else None
        judge_fill(res, edges, bins0, case.get("n_out", 0), events, via=case.get("via", "structure"),
                   form=form)
    return result_violations(res)


LEVEL_TEXT = ("bounded exhaustive exploration: every strictly increasing sub-sequence of 14 adversarial "
              "edge pools (uniform, highly non-uniform, float noise, adjacent floats, 1e-300..1e300, "
              "negative, integers beyond 2**53; up to 12 edges) is executed on the real "
              "get_bin_on_value_1d / histogram.fill / Histogram.fill for every coordinate of the pool "
              "(edges, float neighbours, midpoints, far outside, +-inf), every weight and two initial "
              "states, plus every fill sequence up to length 3 on 1-3 dimensional histograms, and - "
              "for every edge array again - for coordinates of every other real-number type (Fraction "
              "on and between floats, huge int, bool, int/float subclasses, Decimal on integer edges) "
              "with int, Fraction and Decimal weights, for the edges given in tuples and in list / tuple "
              "subclasses (every assignment of containers to the axes), and for every short history "
              "in which other public operations (scale, set_nevents, add, copies, reset) stand between "
              "the fills, each judged against a count-the-edges reference model")
LEVEL_NOTE = ("holds for the enumerated pools only; NaN coordinates, edge spans that overflow, "
              "non-numeric bin contents, Decimal coordinates on float edges, edges that are not ints "
              "or floats, user-defined number classes and edge containers other than lists and tuples "
              "(and their subclasses) are outside the alphabet; sequences longer than 3 fills and "
              "histories longer than 3 (4 or 5 for small histograms) steps are not explored; the results "
              "of the operations between fills are not judged here")
TECHNIQUE = ("exhaustive enumeration of edge arrays (in every list/tuple container form) x coordinates "
             "(floats and every other real-number type) x weights x short fill sequences and short "
             "histories of fills and other public operations on the real code against a count-of-edges "
             "reference model that is re-based on the real contents after every operation")
