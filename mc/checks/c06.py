"""C06 - Histogram fill puts every value into exactly the right cell and conserves weight.

Bounded exhaustive enumeration (drivers E1 + E2) on the real lena.structures code:

  * index law: get_bin_on_value_1d(x, e) (and get_bin_on_value) == number of edges <= x, minus one,
    for every strictly increasing sub-sequence of every edge pool and every coordinate of the
    coordinate pool (pool numbers, their floating-point neighbours, midpoints, far outside, +-inf);
  * single fills: histogram.fill(x, w) from an all-zero and from an index-coded pre-filled state,
    for every (edge array, coordinate, weight): bins and n_out_of_range equal the reference model
    (the weight in the one cell of the half-open intervals, else in n_out_of_range), every other
    attribute is unchanged, sum(bins) + n_out_of_range == total weight (Fractions);
    the same through the Histogram element with bare data and with (data, context) values;
  * fill sequences up to length 3 (events = coordinate x weight) on 1-, 2- and 3-dimensional
    histograms, judged after every fill; and value sequences through the Histogram element;
  * the numeric-type axis (mc/ref/c06_types.py): the same laws for coordinates that are numbers but
    neither int nor float objects - Fraction (on the edges, between an edge and the float below it,
    a third into every bin, beyond the float range), huge int, bool, int and float subclasses,
    Decimal (integer edges only) - for every edge array, for multidimensional points with such
    items, with Fraction and Decimal weights, and in fill sequences that mix the kinds.
"""
import copy
import itertools
import math
from decimal import Decimal
from fractions import Fraction

import lena.core
import lena.structures
from lena.structures import histogram, Histogram, get_bin_on_value_1d, get_bin_on_value

from mc.core import Result, result_violations
from mc.ref import c06c12_ref as R
from mc.ref import c06_types as T

ID = "C06"
LEVEL = "exploration"
DESIGN_REF = "DESIGN.md section 5, C06"
RULE = ("every strictly increasing sub-sequence (2..6 edges quick, 2..9 thorough, 10..12 - thorough 6..12 - from pools "
        "of 12) of every edge pool is an edge array (duplicates between pools removed); the index law "
        "is executed for every coordinate of the pool (numbers of the pool, their float neighbours, "
        "midpoints, far outside, +-inf), single fills for every (array, coordinate, weight, initial "
        "state), fill sequences up to length 3 for every sequence of (coordinate, weight) events of "
        "the listed 1-3 dimensional histograms. Numeric-type axis: for every edge array every typed "
        "coordinate of mc/ref/c06_types.typed_coordinates (Fraction on every edge, half-way to the float "
        "below every edge, a third into every bin, outside, +-10**400/3; int +-10**400; True, False; an "
        "int subclass on every int edge, a float subclass on every edge; for all-int arrays Decimal on "
        "every edge, 1e-9 below it, mid-bin, outside, +-1e400, +-Infinity) runs the index law, a "
        "structure fill of weight 1 (zero state) and of weight Fraction(-1, 3) (index-coded state) and "
        "both element drivers; every product of the short typed per-axis lists is a multidimensional "
        "point (tuple and list alternate) filled with weights 1, Fraction(-1, 3), Decimal('0.1'); three "
        "sequence histograms mix the kinds of coordinates and weights. An index case is non-trivial when the array has at "
        "least two bins and the coordinate lies inside [first edge, last edge); a fill case when at "
        "least one weight lands in a cell of a histogram with at least two cells. Cases are distinct "
        "by construction (the enumeration never repeats an (array, coordinate, weight, state, driver) "
        "combination)")
ASSUMPTIONS = [
    "edges are lists of finite ints/floats, strictly increasing, with a finite span (last - first "
    "does not overflow); 1-dimensional histograms use a flat edge list as lena documents",
    "coordinates are finite numbers or +-inf (NaN is outside the alphabet); multidimensional "
    "coordinates are tuples or lists of the histogram's dimension",
    "a number is any object of a Python real-number type that can be compared with and subtracted "
    "from the edges: int, bool, float, their subclasses, fractions.Fraction with any edges, "
    "decimal.Decimal with all-integer edges only (Python defines no Decimal-float arithmetic, so "
    "Decimal coordinates on float edges are outside the alphabet); complex and user-defined number "
    "classes are not enumerated; edges themselves stay ints and floats as the quantifier says",
    "weights of the numeric-type axis are Fraction(-1, 3), Fraction(1, 3), Decimal('0.1'), "
    "Decimal('0.5') (never mixed with float contents, with which Decimal cannot be added); "
    "conservation for them is judged exactly with Fractions",
    "weights are 1, 2, 0.5, -1 (dyadic, so that conservation is exact); the Histogram element fills "
    "with weight 1 only (it has no weight argument)",
    "fill sequences have length <= 3; 12-edge arrays are all sub-sequences of length >= 10 of six pools",
]
NONTRIVIAL_FLOOR = {"quick": 250000, "thorough": 600000}
BUDGET_S = {"quick": 240, "thorough": 1500}

WEIGHTS = [1, 2, 0.5, -1]
N_ARRAY_SHARDS = 32


def describe(tier):
    n = len(R.edge_arrays(tier))
    return ("%d distinct 1-d edge arrays from %d pools of 9 numbers (sub-sequences of length 2..%d) "
            "and %d pools of 12 (length 10..12 quick, 6..12 thorough); about 40 coordinates each; weights %r; two initial "
            "states; %d multi-dimensional configurations; fill sequences of length <= 3; numeric-type "
            "axis: per edge array 4 typed coordinates per edge plus 7 (8 per edge plus 12 for integer "
            "arrays) of the kinds %s, typed points on every multi-dimensional configuration, "
            "typed weights %r, 3 mixed-kind sequence histograms"
            % (n, len(R.POOLS9), 9 if tier == "thorough" else 6, len(R.POOLS12), WEIGHTS,
               len(_md_configs(tier)), "/".join(T.KINDS), [str(w) for w in T.TYPED_WEIGHTS]))


# ---- configurations ---------------------------------------------------------------------------------
def _seq_configs(tier):
    """Histograms for the fill-sequence exploration: (name, edges, rich coordinates?, weights)."""
    if tier == "thorough":
        W3 = W2a = W2b = WEIGHTS
    else:
        W3, W2a, W2b = [1, 0.5, -1], [1, -1], [1, 0.5]
    cfgs = [
        ("1d-int-3bins", [0, 1, 2, 3], True, W3),
        ("1d-nonuniform", [0, 1e-9, 1, 1e9], True, W2a),
        ("1d-noise", [0.1, 0.2, 0.30000000000000004], True, W3),
        ("1d-negative", [-1e3, -8, -7.5, -1e-5], True, W2b),
        ("1d-one-bin", [-1, 1], True, WEIGHTS),
        ("2d-2x2", [[0, 1, 2], [0, 1, 2]], False, [1, -1]),
        ("2d-1x3", [[0.5, 1e3], [-2, -1, 0, 1e-9]], False, [1, 2]),
        ("3d-1x2x2", [[0, 1], [0, 1, 2], [0.0, 0.5, 1.0]], False, [1, -1]),
    ]
    # histories that mix the numeric kinds of coordinates and weights (per-axis lists given here)
    F, D = Fraction, Decimal
    cfgs += [
        ("1d-int-3bins-typed", [0, 1, 2, 3],
         [[F(-1, 3), F(0), F(1, 2), F(3) - F(1, 2 ** 80), D("1.5"), D("3"), True, T.FloatSub(2.0),
           T.IntSub(1), 2.5]], [1, F(1, 3)]),
        ("1d-float-typed", [0.1, 0.5, 1.0, 4.0],
         [[F(1, 10), F(1, 2), F(7, 2), F(4), False, True, T.FloatSub(0.5), 0.75]], [1, D("0.5")]),
        ("2d-2x2-typed", [[0, 1, 2], [0.0, 0.5, 1.0]],
         [[F(1, 2), F(1), D("1.5"), 2], [F(-1, 7), F(1, 2), T.FloatSub(0.0), 0.75]], [1]),
    ]
    if tier == "thorough":
        cfgs += [
            ("1d-int-5bins", [0, 1, 2, 3, 4, 5], True, WEIGHTS),
            ("1d-huge-last", [0, 1, 2, 1e12], True, WEIGHTS),
            ("1d-big-int", [2 ** 53, 2 ** 53 + 1, 2 ** 60], True, WEIGHTS),
            ("2d-3x2", [[0, 1e-9, 1, 1e9], [1, 2, 4]], False, [1, 2, 0.5, -1]),
            ("3d-2x2x2", [[0, 1, 2], [0.1, 0.2, 0.30000000000000004], [-1, 0, 1]], False, [1, 0.5]),
        ]
    return cfgs


def _md_configs(tier):
    """Multidimensional histograms for the single-fill sweep with rich per-axis coordinates."""
    cfgs = [
        ("2d-2x2-int", [[0, 1, 2], [0, 1, 2]]),
        ("2d-nonuniform", [[0, 1e-9, 1, 1e9], [-1e300, -1, 0]]),
        ("2d-noise-pow2", [[0.1, 0.2, 0.30000000000000004], [1, 2, 4, 8]]),
        ("2d-1x1", [[0, 1], [0.0, 1.0]]),
        ("3d-1x2x3", [[0, 1], [0, 1, 2], [0.0, 0.5, 1.0, 1.5]]),
        ("3d-2x2x2-mixed", [[-1, 0, 1], [1e-300, 1, 1e300], [2 ** 53, 2 ** 53 + 1, 2 ** 60]]),
    ]
    if tier == "thorough":
        cfgs += [
            ("2d-5x4", [[0, 1, 2, 3, 4, 5], [0, 1e-12, 1, 2, 1e12]]),
            ("3d-3x3x3", [[0, 1, 2, 3], [0.1, 0.2, 0.30000000000000004, 0.4], [-8, -7.5, -1, 0]]),
            ("3d-3x4x2", [[0, 1, 4, 5], [1, 2, 4, 8, 16], [-2.0, -1.5, 2.0]]),
        ]
    return cfgs


def shards(tier):
    out = [{"kind": "index", "chunk": k} for k in range(N_ARRAY_SHARDS)]
    out += [{"kind": "fill1", "chunk": k} for k in range(N_ARRAY_SHARDS)]
    out += [{"kind": "typed", "chunk": k} for k in range(N_ARRAY_SHARDS)]
    for i, _cfg in enumerate(_md_configs(tier)):
        for r in range(4):
            out.append({"kind": "md", "cfg": i, "part": r, "of": 4})
    for i, _cfg in enumerate(_md_configs(tier)):
        out.append({"kind": "md-typed", "cfg": i})
    for i, cfg in enumerate(_seq_configs(tier)):
        for r in range(6):
            out.append({"kind": "seq", "cfg": i, "part": r, "of": 6})
    return out


# ---- the index law ------------------------------------------------------------------------------------
_PLAIN = (int, float)


def _with_kind(cause, coord, weight=1):
    """Causes of cases from the numeric-type axis carry the kinds of the numbers; causes of plain
    int/float cases stay as they always were."""
    items = coord if isinstance(coord, (list, tuple)) else (coord,)
    if any(type(c) not in _PLAIN for c in items):
        cause["kind"] = T.kinds_of(coord)
    if type(weight) not in _PLAIN:
        cause["weight_kind"] = T.kind_of(weight)
    return cause


def check_index(res, edges, x):
    ref = R.ref_index(edges, x)
    try:
        got = get_bin_on_value_1d(x, edges)
        got_md = get_bin_on_value(x, edges)
    except Exception as e:
        got, got_md = "raised " + type(e).__name__, None
    nontrivial = len(edges) >= 3 and edges[0] <= x < edges[-1]
    res.case(nontrivial=nontrivial, outcome=(len(edges), ref))
    if got != ref or (got_md is not None and got_md != [ref]):
        if isinstance(got, int):
            diff = max(-2, min(2, got - ref)) if got != ref else "get_bin_on_value-differs"
        else:
            diff = got
        res.violation({"law": "bin-index-1d", "edges": T.enc(edges), "x": T.enc(x)},
                      {"get_bin_on_value_1d": got, "get_bin_on_value": got_md}, ref,
                      _with_kind({"law": "bin-index-1d", "position": R.position(edges, x),
                                  "diff": diff}, x))


def check_index_md(res, edges, coord):
    axes = R.unify(edges)
    ref = [R.ref_index(a, c) for a, c in zip(axes, coord)]
    try:
        got = get_bin_on_value(coord, edges)
    except Exception as e:
        got = "raised " + type(e).__name__
    inside = all(0 <= i < len(a) - 1 for i, a in zip(ref, axes))
    res.case(nontrivial=inside, outcome=("md", tuple(ref)))
    if got != ref:
        res.violation({"law": "bin-index-md", "edges": T.enc(edges), "x": T.enc(list(coord)),
                       "as_list": isinstance(coord, list)},
                      got, ref,
                      _with_kind({"law": "bin-index-md", "dim": len(axes),
                                  "position": "/".join(sorted(set(R.position(a, c)
                                                                  for a, c in zip(axes, coord))))},
                                 coord))


# ---- fills ------------------------------------------------------------------------------------------
_CONT = (list, tuple)


def _cp(x):
    """Copy of nested lists/tuples of numbers (much cheaper than copy.deepcopy)."""
    t = type(x)
    if t is list:
        if x and type(x[0]) in _CONT:
            return [_cp(v) for v in x]
        return x[:]
    if t is tuple:
        if x and type(x[0]) in _CONT:
            return tuple(_cp(v) for v in x)
        return x
    return x


def _others(h):
    """Copy of every attribute of the histogram except bins and n_out_of_range."""
    return {k: _cp(v) for k, v in vars(h).items() if k != "bins" and k != "n_out_of_range"}


def _exact_total(h):
    vals = R.flat(h.bins) + [h.n_out_of_range]
    try:
        return Fraction(math.fsum(vals))
    except (TypeError, ValueError, OverflowError):
        return None


def _positions(axes, coord):
    if len(axes) == 1 and not isinstance(coord, (list, tuple)):
        coord = (coord,)
    return "/".join(sorted(set(R.position(a, c) for a, c in zip(axes, coord))))


def _enc_events(events):
    return [[T.enc(list(c)) if isinstance(c, (list, tuple)) else T.enc(c), T.enc(w),
             "tuple" if isinstance(c, tuple) else ""] for c, w in events]


def judge_fill(res, edges, bins0, n_out0, events, via="structure"):
    """Build a fresh histogram (or Histogram element), apply the events one by one and compare
    with the reference model after every fill. events: list of (coordinate, weight).
    Returns True when some weight landed inside a cell."""
    def case():
        return {"law": "fill", "via": via, "edges": T.enc(edges),
                "bins": T.enc(bins0) if bins0 is not None else None, "n_out": n_out0,
                "events": _enc_events(events)}

    def cause(what, coord, w=1):
        return _with_kind({"law": "fill", "via": via, "dim": len(model.axes), "what": what,
                           "position": _positions(model.axes, coord)}, coord, w)

    model = R.ModelHist(edges, bins0, n_out0)
    landed = False
    try:
        e = _cp(edges)
        b = _cp(bins0)
        if via in ("structure", "structure-buffer"):
            el = None
            h = histogram(e, b) if b is not None else histogram(e)
            h.n_out_of_range = n_out0
        else:
            el = Histogram(e, b) if b is not None else Histogram(e)
            h = list(el.compute())[0][0]
            if n_out0:
                h.n_out_of_range = n_out0
    except Exception as ex:
        res.violation(case(), "construction raised " + type(ex).__name__, "a histogram",
                      {"law": "fill", "via": via, "what": "construction:" + type(ex).__name__})
        return False
    buf = []
    for step, (coord, w) in enumerate(events):
        before = _others(h)
        idx, inside = model.fill(coord, w)
        landed = landed or inside
        try:
            if via == "structure":
                h.fill(_cp(coord), w)
            elif via == "structure-buffer":
                # the caller keeps ONE list for its coordinates and overwrites it for every point
                buf[:] = list(coord)
                h.fill(buf, w)
            elif via == "element":
                el.fill(_cp(coord))
            else:
                el.fill((_cp(coord), {"ctx": step}))
            if el is not None:
                h = list(el.compute())[0][0]
        except Exception as ex:
            res.violation(case(), "fill %d raised %s" % (step, type(ex).__name__),
                          {"bins": T.enc(model.bins), "n_out_of_range": T.enc(model.n_out)},
                          cause("exception:" + type(ex).__name__, coord, w))
            return landed
        what = None
        if h.bins != model.bins:
            what = "bins"
        elif h.n_out_of_range != model.n_out:
            what = "n_out_of_range"
        elif _others(h) != before or h.edges != edges:
            what = "other-attribute-changed"
        else:
            # math.fsum is exact whenever the exact sum is a float (always, for dyadic weights);
            # a mismatch is confirmed with Fractions before it is reported
            if _exact_total(h) != model.total:
                try:
                    total = sum((Fraction(v) for v in R.flat(h.bins)), Fraction(0)) \
                        + Fraction(h.n_out_of_range)
                except (TypeError, ValueError):
                    total = None
                if total != model.total:
                    what = "conservation"
        if what:
            res.violation(case(), {"step": step, "bins": T.enc(h.bins),
                                   "n_out_of_range": T.enc(h.n_out_of_range)},
                          {"cell": list(idx), "inside": inside, "bins": T.enc(model.bins),
                           "n_out_of_range": T.enc(model.n_out)},
                          cause(what, coord, w))
            return landed
    res.outcome((R.flat(model.bins), model.n_out))
    return landed


def run_index(res, tier, chunk):
    arrays = R.edge_arrays(tier)
    last = None
    for name, edges in arrays[chunk::N_ARRAY_SHARDS]:
        for x in R.coordinates(edges, R.pool_of(name)):
            check_index(res, edges, x)
            last = {"law": "bin-index-1d", "edges": T.enc(edges), "x": T.enc(x)}
        res.count("edge_arrays_index")
        res.maximum("max_edges", len(edges))
    if last:
        res.sample(last, 1)


def run_fill1(res, tier, chunk):
    arrays = R.edge_arrays(tier)
    last = None
    for name, edges in arrays[chunk::N_ARRAY_SHARDS]:
        coords = R.coordinates(edges, R.pool_of(name))
        ncells = len(edges) - 1
        coded = R.coded_bins(edges)
        for x in coords:
            for bins0, n0 in ((None, 0), (coded, 7)):
                for w in WEIGHTS:
                    landed = judge_fill(res, edges, bins0, n0, [(x, w)])
                    res.case(nontrivial=landed and ncells >= 2)
            # the element: bare data and (data, context)
            for via in ("element", "element-ctx"):
                for bins0 in (None, coded):
                    landed = judge_fill(res, edges, bins0, 0, [(x, 1)], via=via)
                    res.case(nontrivial=landed and ncells >= 2)
        res.count("edge_arrays_fill")
        last = {"law": "fill", "via": "structure", "edges": T.enc(edges), "bins": None, "n_out": 0,
                "events": [[T.enc(coords[len(coords) // 2]), 1, ""]]}
    if last:
        res.sample(last, 1)


def run_typed(res, tier, chunk):
    """The numeric-type axis: every edge array x every typed coordinate (mc/ref/c06_types.py):
    the index law, a fill of weight 1 into the all-zero state, a fill of a Fraction weight into the
    index-coded state, and the Histogram element with bare data and with (data, context).
    (Decimal weights are combined with every typed point in run_md_typed and in the sequences.)"""
    arrays = R.edge_arrays(tier)
    last = None
    for name, edges in arrays[chunk::N_ARRAY_SHARDS]:
        ncells = len(edges) - 1
        coded = R.coded_bins(edges)
        for kind, x in T.typed_coordinates(edges):
            check_index(res, edges, x)
            res.count("typed_index_" + kind)
            for bins0, n0, w, via in ((None, 0, 1, "structure"), (coded, 7, T.TYPED_WEIGHTS[0], "structure"),
                                      (coded, 0, 1, "element"), (None, 0, 1, "element-ctx")):
                landed = judge_fill(res, edges, bins0, n0, [(x, w)], via=via)
                res.case(nontrivial=landed and ncells >= 2)
            last = {"law": "fill", "via": "structure", "edges": T.enc(edges), "bins": None,
                    "n_out": 0, "events": _enc_events([(x, T.TYPED_WEIGHTS[0])])}
        res.count("edge_arrays_typed")
    if last:
        res.sample(last, 1)


def run_md_typed(res, tier, p):
    """Multidimensional points whose items are of the typed kinds (every product of the short
    per-axis lists), as tuples and as lists."""
    name, edges = _md_configs(tier)[p["cfg"]]
    axes = R.unify(edges)
    per_axis = [T.typed_axis_coordinates(a) for a in axes]
    ncells = len(R.cells_in_order(edges))
    coded = R.coded_bins(edges)
    last = None
    for k, coord in enumerate(itertools.product(*per_axis)):
        c = list(coord) if k % 2 else coord
        check_index_md(res, edges, c)
        for bins0, n0, w, via in ((None, 0, 1, "structure"), (coded, 3, T.TYPED_WEIGHTS[0], "structure"),
                                  (None, 0, T.TYPED_WEIGHTS[1], "structure"),
                                  (coded, 0, 1, "element-ctx")):
            landed = judge_fill(res, edges, bins0, n0, [(c, w)], via=via)
            res.case(nontrivial=landed and ncells >= 2)
        res.count("typed_points_md")
        last = {"law": "fill", "via": "structure", "edges": T.enc(edges), "bins": None, "n_out": 0,
                "events": _enc_events([(c, 1)])}
    if last:
        res.sample(last, 1)


def run_md(res, tier, p):
    name, edges = _md_configs(tier)[p["cfg"]]
    axes = R.unify(edges)
    per_axis = [R.axis_coordinates(a, rich=True) for a in axes]
    ncells = len(R.cells_in_order(edges))
    coded = R.coded_bins(edges)
    k = -1
    last = None
    for coord in itertools.product(*per_axis):
        k += 1
        if k % p["of"] != p["part"]:
            continue
        as_list = (k // p["of"]) % 2 == 1      # alternate tuple / list coordinates
        c = list(coord) if as_list else coord
        check_index_md(res, edges, c)
        for bins0, n0 in ((None, 0), (coded, 3)):
            for w in WEIGHTS:
                landed = judge_fill(res, edges, bins0, n0, [(c, w)])
                res.case(nontrivial=landed and ncells >= 2)
        for via in ("element", "element-ctx"):
            landed = judge_fill(res, edges, coded, 0, [(c, 1)], via=via)
            res.case(nontrivial=landed and ncells >= 2)
        last = {"law": "fill", "via": "structure", "edges": T.enc(edges), "bins": None, "n_out": 0,
                "events": [[T.enc(list(c)), 1, "" if as_list else "tuple"]]}
    res.maximum("max_dim", len(axes))
    if last:
        res.sample(last, 1)


def _events(cfg):
    name, edges, rich, weights = cfg
    axes = R.unify(edges)
    if isinstance(rich, list):
        per_axis = rich
    else:
        per_axis = [R.axis_coordinates(a, rich=rich) for a in axes]
    if len(axes) == 1:
        coords = per_axis[0]
    else:
        coords = list(itertools.product(*per_axis))
    return [(c, w) for c in coords for w in weights], coords


def run_seq(res, tier, p):
    cfg = _seq_configs(tier)[p["cfg"]]
    name, edges, rich, weights = cfg
    events, coords = _events(cfg)
    ncells = len(R.cells_in_order(edges))
    maxlen = 3
    # keep the number of sequences per configuration bounded: length 3 only while it stays
    # below about 300 k sequences
    if len(events) ** 3 > 400000:
        maxlen = 2
    res.maximum("max_sequence_length", maxlen)
    res.maximum("max_events_per_step", len(events))
    last = None
    for i, first in enumerate(events):
        if i % p["of"] != p["part"]:
            continue
        for length in range(1, maxlen + 1):
            for rest in itertools.product(events, repeat=length - 1):
                seq = [first] + list(rest)
                landed = judge_fill(res, edges, None, 0, seq)
                res.case(nontrivial=landed and ncells >= 2)
                res.count("fill_sequences")
                last = seq
                if length >= 2 and isinstance(first[0], (list, tuple)):
                    landed = judge_fill(res, edges, None, 0, seq, via="structure-buffer")
                    res.case(nontrivial=landed and ncells >= 2)
                    res.count("fill_sequences_from_one_coordinate_buffer")
    # the element: sequences of values (weight 1), alternating bare data / (data, context) driver
    for i, first in enumerate(coords):
        if i % p["of"] != p["part"]:
            continue
        for length in range(1, 4 if len(coords) ** 3 <= 40000 else 3):
            for rest in itertools.product(coords, repeat=length - 1):
                seq = [(c, 1) for c in (first,) + rest]
                for via in ("element", "element-ctx"):
                    landed = judge_fill(res, edges, None, 0, seq, via=via)
                    res.case(nontrivial=landed and ncells >= 2)
                    res.count("element_sequences")
    if last:
        res.sample({"law": "fill", "via": "structure", "edges": T.enc(edges), "bins": None,
                    "n_out": 0,
                    "events": _enc_events(last)}, 1)


def run_shard(p, tier):
    res = Result()
    if p["kind"] == "index":
        run_index(res, tier, p["chunk"])
    elif p["kind"] == "fill1":
        run_fill1(res, tier, p["chunk"])
    elif p["kind"] == "typed":
        run_typed(res, tier, p["chunk"])
    elif p["kind"] == "md":
        run_md(res, tier, p)
    elif p["kind"] == "md-typed":
        run_md_typed(res, tier, p)
    elif p["kind"] == "seq":
        run_seq(res, tier, p)
    return res


def replay(case):
    res = Result()
    law = case.get("law")
    edges = T.dec(case["edges"])
    if law == "bin-index-1d":
        check_index(res, edges, T.dec(case["x"]))
    elif law == "bin-index-md":
        x = T.dec(case["x"])
        check_index_md(res, edges, x if case.get("as_list") else tuple(x))
    elif law == "fill":
        events = []
        for ev in case["events"]:
            c = T.dec(ev[0])
            if isinstance(c, list) and len(ev) > 2 and ev[2] == "tuple":
                c = tuple(c)
            events.append((c, T.dec(ev[1])))
        bins0 = T.dec(case["bins"]) if case.get("bins") is not None else None
        judge_fill(res, edges, bins0, case.get("n_out", 0), events, via=case.get("via", "structure"))
    return result_violations(res)


LEVEL_TEXT = ("bounded exhaustive exploration: every strictly increasing sub-sequence of 14 adversarial "
              "edge pools (uniform, highly non-uniform, float noise, adjacent floats, 1e-300..1e300, "
              "negative, integers beyond 2**53; up to 12 edges) is executed on the real "
              "get_bin_on_value_1d / histogram.fill / Histogram.fill for every coordinate of the pool "
              "(edges, float neighbours, midpoints, far outside, +-inf), every weight and two initial "
              "states, plus every fill sequence up to length 3 on 1-3 dimensional histograms, and - "
              "for every edge array again - for coordinates of every other real-number type (Fraction "
              "on and between floats, huge int, bool, int/float subclasses, Decimal on integer edges) "
              "with int, Fraction and Decimal weights, each judged against a count-the-edges "
              "reference model")
LEVEL_NOTE = ("holds for the enumerated pools only; NaN coordinates, edge spans that overflow, "
              "non-numeric bin contents, Decimal coordinates on float edges, edges that are not ints "
              "or floats and user-defined number classes are outside the alphabet; sequences longer "
              "than 3 fills are not explored")
TECHNIQUE = ("exhaustive enumeration of edge arrays x coordinates (floats and every other real-number "
             "type) x weights x short fill sequences on the real code against a count-of-edges "
             "reference model")
