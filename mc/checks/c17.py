"""C17 - Flow iterators equal their Python reference (Slice is list slicing).

Exhaustive enumeration (driver E1) of the property's own domain:
  * Slice(start, stop, step).run(xs) == xs[start:stop:step] (same objects, same order) for start, stop
    in {None, -B..B}, step in {None, 1..S}, len(xs) in 0..L, in the 1-, 2- and 3-argument forms;
  * steps 0, negative and fractional raise LenaValueError at construction;
  * Slice.fill_into fills exactly the selected indices and raises LenaStopFill only at an index from
    which no later index is selected (checked against every later index up to a horizon), under both
    drivers: the one that stops at the first LenaStopFill and the one that catches it per value and offers
    the whole flow (mc/ref/c17_drivers.py);
  * Reverse / Chain / CountFrom / RunningChunkBy against reversed / itertools.chain / itertools.count /
    sliding windows;
  * every element also while it is queried (repr, ==, !=, in) before, between and in the middle of its
    uses: the results are those of the unqueried Python reference;
  * histories of calls of ONE Chain object over one tuple of iterables (mc/ref/c17_chain_hist.py): calls left
    before their end (iterator kept suspended, closed or dropped after every number of values; an iterable
    that raises), then calls read to the end, the suspended iterators resumed and the iterables read by their
    owner - everything equal to the same history with itertools.chain(*iterables) in the place of every call.
"""
import collections
import itertools

import lena.core
import lena.flow

from mc.core import Result, result_violations
from mc.ref import c17_chain_hist as hist
from mc.ref.c17_drivers import drive_fill_into, observe

ID = "C17"
LEVEL = "exploration"
DESIGN_REF = "DESIGN.md section 5, C17"
RULE = ("every (start, stop, step, flow length) of the stated domain is executed once on the real "
        "Slice and compared with list slicing; a case is non-trivial when the reference selects a "
        "non-empty proper subsequence of a non-empty flow (or, for the other iterators, when the "
        "expected output is non-empty; for the fill_into driver that offers every value, when values were "
        "offered after the first LenaStopFill; for a history of calls of one Chain, when a call was left although "
        "it could give more values and at least one iterable is one-shot); cases are distinct by construction "
        "of the enumeration")
ASSUMPTIONS = [
    "flows are finite lists of distinct (int, dict) pairs; identity (is) of yielded values is compared",
    "steps are None or integers >= 1 for the equality law; 0, negative and fractional (non-integral) "
    "steps must raise LenaValueError at construction; integral floats such as 2.0 are outside the alphabet",
    "fill_into is checked for non-negative arguments only (negative ones are documented as unsupported)",
    "a caller of fill_into reacts to LenaStopFill in one of two ways: it stops offering values, or it catches "
    "the exception for the offered value and offers the next one; after a LenaStopFill only 'nothing more is "
    "filled' is demanded, not that every later offer raises again",
    "the iterables of a Chain are lists, tuples, list iterators, generators or map objects; in the histories "
    "of calls also one-shot iterator objects that are not generators and re-iterable objects whose iter() "
    "starts a new generator",
    "a consumer leaves a call of a Chain by keeping the iterator suspended, by close() (if the iterator has "
    "one) or by dropping its last reference (CPython finalises it at once); an iterator that let an exception "
    "of an iterable through is not asked again (a generator is finished then, itertools.chain is not: the "
    "statement does not choose); exceptions are compared by type",
    "what a history observes: the values of every call, how it ended, the number of events the iterables had "
    "seen then, what suspended iterators and the iterables themselves give afterwards, and the events seen by "
    "the iterables (iter, value made, normal end, GeneratorExit) - all equal to those under itertools.chain",
    "queries are repr, ==, != (both operand orders), in and list.count against the element itself, equally "
    "and differently built elements of its class, elements of other classes and None; their answers and "
    "exceptions are not judged, only what the element produces afterwards",
]
NONTRIVIAL_FLOOR = {"quick": 50000, "thorough": 500000}


def _dom(tier):
    if tier == "thorough":
        return dict(B=26, S=10, L=52, H=10, LF=12)
    return dict(B=12, S=6, L=22, H=8, LF=10)


def describe(tier):
    d = _dom(tier)
    return ("start, stop in {None, -%(B)d..%(B)d}; step in {None, 1..%(S)d}; flows of length 0..%(L)d; "
            "fill_into horizon %(H)d values beyond stop, two drivers (stop at the first LenaStopFill / every "
            "value offered), the second also with the element queried before every offer over the flow of "
            "length %(L)d; Slice.run queried after every value for flows of length %(LQ)d and %(L)d; Chain of "
            "0..3 iterables of lengths 0..2 of 5 kinds, queried at 3 points and at every consumer position "
            "of the laziness law; chunk sizes 1..5; %(HIST)s" % dict(d, LQ=d["LF"] // 2, HIST=_hist_describe(tier)))


def shards(tier):
    d = _dom(tier)
    out = [{"kind": "slice", "start": s} for s in [None] + list(range(-d["B"], d["B"] + 1))]
    out.append({"kind": "badstep"})
    out.extend({"kind": "fill_into", "start": s} for s in [None] + list(range(0, d["B"] + 1)))
    out.append({"kind": "others"})
    out.extend({"kind": "chain-history", "group": g} for g in range(len(_hist_groups(tier))))
    return out


class _Collect(object):
    def __init__(self):
        self.got = []

    def fill(self, value):
        self.got.append(value)


def _flow(n):
    return [(i, {"i": i}) for i in range(n)]


def _peers(el, *more):
    """What an element is compared with by the observers: itself, the given equally / differently built
    objects, an element of another class, a non-element."""
    return [el] + list(more) + [lena.flow.Reverse(), lena.flow.Slice(0, 1), None]


def _same(a, b):
    return len(a) == len(b) and all(x is y for x, y in zip(a, b))


def _sign(v):
    return "none" if v is None else ("neg" if v < 0 else "nonneg")


def _forms(start, stop, step):
    """Argument tuples that denote slice(start, stop, step)."""
    forms = [(start, stop, step)]
    if step is None:
        forms.append((start, stop))
        if start is None:
            forms.append((stop,))
    return forms


FALSY = [None, 0, False, "", (), 0.0]


def _falsy_flow(n, shift):
    """Bare values that are all falsy (None among them): nothing in a flow is an end marker."""
    return [FALSY[(i + shift) % len(FALSY)] for i in range(n)]


def check_slice_run(res, args, n, falsy_shift=None):
    if falsy_shift is not None:
        return _check_slice_run_falsy(res, args, n, falsy_shift)
    xs = _flow(n)
    expected = xs[slice(*args)]
    case = {"law": "slice-run", "args": list(args), "n": n}
    try:
        el = lena.flow.Slice(*args)
        got = list(el.run(iter(xs)))
        ok = _same(got, expected)
        observed = [v[0] for v in got]
        if ok:
            # the same Slice object over a second flow (one value longer): list slicing again
            ys = _flow(n + 1)
            got2 = list(el.run(iter(ys)))
            if not _same(got2, ys[slice(*args)]):
                ok = False
                observed = {"second_run_over_%d_values" % (n + 1): [v[0] for v in got2]}
            elif len(expected) >= 2:
                # a run whose consumer stops after one value, then the same object over a new flow
                el = lena.flow.Slice(*args)
                g = el.run(iter(_flow(n)))
                next(g)
                zs = _flow(n)
                got3 = list(el.run(iter(zs)))
                if not _same(got3, zs[slice(*args)]):
                    ok = False
                    observed = {"run_after_abandoned_run": [v[0] for v in got3]}
                del g
    except Exception as e:  # any exception is a difference from list slicing
        ok = False
        observed = "raised " + type(e).__name__
    s = slice(*args)
    nontrivial = 0 < len(expected) < n
    res.case(nontrivial=nontrivial, outcome=(tuple(v[0] for v in expected)))
    if not ok:
        res.violation(case, observed, [v[0] for v in expected],
                      {"law": "slice-run", "start": _sign(s.start), "stop": _sign(s.stop),
                       "step_gt_1": bool(s.step and s.step > 1)})
    return case


def _check_slice_run_falsy(res, args, n, shift):
    xs = _falsy_flow(n, shift)
    expected = xs[slice(*args)]
    case = {"law": "slice-run", "args": list(args), "n": n, "falsy_shift": shift}
    try:
        got = list(lena.flow.Slice(*args).run(iter(xs)))
        ok = _same(got, expected)
        observed = repr(got)
    except Exception as e:
        ok, observed = False, "raised " + type(e).__name__
    s = slice(*args)
    res.case(nontrivial=0 < len(expected) < n, outcome=("falsy", len(expected)))
    if not ok:
        res.violation(case, observed, repr(expected),
                      {"law": "slice-run", "start": _sign(s.start), "stop": _sign(s.stop),
                       "step_gt_1": bool(s.step and s.step > 1), "flow": "falsy values"})
    return case


class _Hinted(object):
    """An iterator over *xs* whose __length_hint__ is an estimate (PEP 424 allows it to be wrong)."""

    def __init__(self, xs, hint):
        self._it = iter(xs)
        self._hint = hint

    def __iter__(self):
        return self

    def __next__(self):
        return next(self._it)

    def __length_hint__(self):
        return self._hint


def check_slice_run_hinted(res, args, n, hint):
    xs = _flow(n)
    expected = xs[slice(*args)]
    case = {"law": "slice-run-hinted", "args": list(args), "n": n, "hint": hint}
    try:
        got = list(lena.flow.Slice(*args).run(_Hinted(xs, hint)))
        ok = _same(got, expected)
        observed = [v[0] for v in got]
    except Exception as e:
        ok, observed = False, "raised " + type(e).__name__
    s = slice(*args)
    res.case(nontrivial=0 < len(expected) < n, outcome=("hinted", len(expected)))
    if not ok:
        res.violation(case, observed, [v[0] for v in expected],
                      {"law": "slice-run", "start": _sign(s.start), "stop": _sign(s.stop),
                       "step_gt_1": bool(s.step and s.step > 1), "flow": "iterator with an inexact length hint"})
    return case


def check_slice_run_queried(res, args, n):
    """Slice.run while the element is queried (repr, ==, !=, in) before run(), between run() and the first
    value, after every value and between two runs: still list slicing."""
    xs, ys = _flow(n), _flow(n + 1)
    expected = xs[slice(*args)]
    case = {"law": "slice-run-queried", "args": list(args), "n": n}
    try:
        el = lena.flow.Slice(*args)
        peers = _peers(el, lena.flow.Slice(*args), lena.flow.Slice(*[None if a is None else a + 1 for a in args]))
        observe(el, peers)
        it = iter(el.run(iter(xs)))
        got = []
        while True:
            observe(el, peers)
            try:
                got.append(next(it))
            except StopIteration:
                break
        ok, observed = _same(got, expected), [v[0] for v in got]
        if ok:
            observe(el, peers)
            got2 = list(el.run(iter(ys)))
            if not _same(got2, ys[slice(*args)]):
                ok, observed = False, {"second_run_over_%d_values" % (n + 1): [v[0] for v in got2]}
    except Exception as e:
        ok, observed = False, "raised " + type(e).__name__
    s = slice(*args)
    res.case(nontrivial=0 < len(expected) < n, outcome=("queried", len(expected)))
    if not ok:
        res.violation(case, observed, [v[0] for v in expected],
                      {"law": "slice-run", "start": _sign(s.start), "stop": _sign(s.stop),
                       "step_gt_1": bool(s.step and s.step > 1), "queried": True})
    return case


LONG = 300      # beyond the positions whose int objects CPython shares (-5..256)


def check_long(res, args):
    """One long flow through run and (non-negative arguments) through fill_into."""
    xs = _flow(LONG)
    expected = xs[slice(*args)]
    s = slice(*args)
    case = {"law": "slice-long", "args": list(args), "n": LONG}
    cause = {"law": "slice-long", "start": _sign(s.start), "stop": _sign(s.stop),
             "step_gt_1": bool(s.step and s.step > 1)}
    try:
        got = list(lena.flow.Slice(*args).run(iter(xs)))
        ok, observed = _same(got, expected), "run gave %d values" % len(got)
    except Exception as e:
        ok, observed = False, "run raised " + type(e).__name__
    if ok and all(a is None or a >= 0 for a in (s.start, s.stop)):
        sink = _Collect()
        try:
            el = lena.flow.Slice(*args)
            for v in xs:
                try:
                    el.fill_into(sink, v)
                except lena.core.LenaStopFill:
                    break
            ok, observed = _same(sink.got, expected), "fill_into filled %d values" % len(sink.got)
            cause["route"] = "fill_into"
        except Exception as e:
            ok, observed = False, "fill_into raised " + type(e).__name__
    res.case(nontrivial=0 < len(expected) < LONG, outcome=("long", len(expected)))
    if not ok:
        res.violation(case, observed, "%d values" % len(expected), cause)
    return case


def check_bad_step(res, args):
    case = {"law": "slice-badstep", "args": list(args)}
    try:
        lena.flow.Slice(*args)
        observed = "constructed"
    except lena.core.LenaValueError:
        observed = "LenaValueError"
    except Exception as e:
        observed = type(e).__name__
    res.case(nontrivial=True, outcome=observed)
    if observed != "LenaValueError":
        s = slice(*args)
        res.violation(case, observed, "LenaValueError",
                      {"law": "slice-badstep", "start": _sign(s.start), "stop": _sign(s.stop)})
    return case


def check_fill_into(res, args, n, horizon, queried_too=True):
    """Feed n values one by one. Index j must be filled iff j is selected; LenaStopFill at index j
    is allowed only if no index >= j (up to n + horizon) is selected, and after it nothing more is fed."""
    total = n + horizon
    selected = set(list(range(total))[slice(*args)])
    xs = _flow(n)
    case = {"law": "slice-fill-into", "args": list(args), "n": n}
    sink = _Collect()
    stopped_at = None
    err = None
    try:
        el = lena.flow.Slice(*args)
        for j, v in enumerate(xs):
            try:
                el.fill_into(sink, v)
            except lena.core.LenaStopFill:
                stopped_at = j
                break
    except Exception as e:
        err = type(e).__name__
    upto = n if stopped_at is None else stopped_at
    expected = [xs[j] for j in range(upto) if j in selected]
    problems = []
    if err:
        problems.append("raised " + err)
    elif not _same(sink.got, expected):
        problems.append("filled %r" % ([v[0] for v in sink.got],))
    if stopped_at is not None and any(j in selected for j in range(stopped_at, total)):
        problems.append("LenaStopFill at index %d although a later index is selected" % stopped_at)
    res.case(nontrivial=0 < len(expected) < n, outcome=(tuple(v[0] for v in sink.got), stopped_at))
    if stopped_at is not None:
        res.count("fill_into_stopped")
    if not problems and n >= 2:
        # deep copies of one Slice (lena copies analyses: SplitIntoBins, MapBins, Vectorize) are
        # independent elements: two copies filled one after the other both fill what a new Slice fills
        try:
            import copy
            proto = lena.flow.Slice(*args)
            for which in ("first copy", "second copy", "original"):
                el2 = proto if which == "original" else copy.deepcopy(proto)
                sink2 = _Collect()
                for j, v in enumerate(xs):
                    try:
                        el2.fill_into(sink2, v)
                    except lena.core.LenaStopFill:
                        break
                if not _same(sink2.got, sink.got):
                    problems.append("%s of a deep-copied Slice filled %r" % (which, [v[0] for v in sink2.got]))
                    break
        except Exception as e:
            problems.append("deep copy raised " + type(e).__name__)
    if not problems and n >= 2:
        # the element to fill is an argument of every call: a value goes to the element given with it
        try:
            el3 = lena.flow.Slice(*args)
            sinks = (_Collect(), _Collect())
            for j, v in enumerate(xs):
                try:
                    el3.fill_into(sinks[j % 2], v)
                except lena.core.LenaStopFill:
                    break
            for par in (0, 1):
                want = [xs[j] for j in range(upto) if j in selected and j % 2 == par]
                if not _same(sinks[par].got, want):
                    problems.append("with alternating target elements, element %d got %r"
                                    % (par, [v[0] for v in sinks[par].got]))
                    break
        except Exception as e:
            problems.append("alternating target elements: raised " + type(e).__name__)
    if not problems and n >= 1:
        # the other honest driver: it catches LenaStopFill for the value it offered and goes on with the next
        # value, so the whole flow is offered (mc/ref/c17_drivers.py). What is filled is still xs[slice], and
        # a stop still comes only where no later index is selected. Once without and once with queries
        # (repr, ==, !=, in) put to the element before every offer (fill_into cannot know how long the flow
        # is, so the queried pass over the longest flow of the tier covers the shorter ones: queried_too).
        want = xs[slice(*args)]
        for queried in ((False, True) if queried_too else (False,)):
            what = "every value offered (LenaStopFill caught per value)" + (", element queried" if queried else "")
            try:
                el4 = lena.flow.Slice(*args)
                sink4 = _Collect()
                between = None
                if queried:
                    peers = _peers(el4, lena.flow.Slice(*args))
                    between = lambda: observe(el4, peers)
                stops = drive_fill_into(el4, lambda j: sink4, xs, "offer-all", between)
                if not _same(sink4.got, want):
                    problems.append("%s: filled %r" % (what, [v[0] for v in sink4.got]))
                elif stops and any(j in selected for j in range(stops[0], total)):
                    problems.append("%s: LenaStopFill at index %d although a later index is selected"
                                    % (what, stops[0]))
                res.case(nontrivial=bool(stops) and stops[0] < n - 1,
                         outcome=("offer-all", queried, tuple(v[0] for v in sink4.got), len(stops)))
                if len(stops) > 1:
                    res.count("fill_into_offered_after_stop")
            except Exception as e:
                problems.append("%s: raised %s" % (what, type(e).__name__))
            if problems:
                break
    if problems:
        s = slice(*args)
        cause = {"law": "slice-fill-into", "step_gt_1": bool(s.step and s.step > 1),
                 "alternating_targets": any("alternating" in p for p in problems),
                 "early_stop": any("LenaStopFill at" in p for p in problems)}
        if any("every value offered" in p for p in problems):
            cause["driver"] = "offer-all"
        if any("element queried" in p for p in problems):
            cause["queried"] = True
        res.violation(case, problems, {"filled": [v[0] for v in expected]}, cause)
    return case


def _windows(xs, k):
    return [tuple(xs[i:i + k]) for i in range(len(xs) - k + 1)]


def check_others(res, tier):
    L = _dom(tier)["L"]
    # Reverse
    for n, queried in itertools.product(range(L + 1), (False, True)):
        xs = _flow(n)
        case = {"law": "reverse", "n": n, "queried": queried}
        # queried: repr / == / != / in are put to the element before, in the middle of and between its runs
        look = (lambda el: observe(el, _peers(el, lena.flow.Reverse()))) if queried else (lambda el: 0)
        try:
            rev = lena.flow.Reverse()
            look(rev)
            g = rev.run(iter(xs))
            look(rev)
            got = list(itertools.islice(g, 1))
            look(rev)
            got.extend(g)
            ok = _same(got, list(reversed(xs)))
            observed = [v[0] for v in got]
            if ok:      # the same object over a second flow
                look(rev)
                ys = _flow(n + 1)
                ok = _same(list(rev.run(iter(ys))), list(reversed(ys)))
            if ok and n >= 2:
                # ... and after a run whose consumer stopped after one value (generator left alive)
                rev = lena.flow.Reverse()
                g = rev.run(iter(xs))
                next(g)
                look(rev)
                ys = _flow(n + 1)
                ok = _same(list(rev.run(iter(ys))), list(reversed(ys)))
                del g
                if not ok:
                    observed = "differs after an abandoned earlier run of the same object"
        except Exception as e:
            ok, observed = False, "raised " + type(e).__name__
        if ok and n:
            fs = _falsy_flow(n, n % len(FALSY))
            ok = _same(list(lena.flow.Reverse().run(iter(fs))), list(reversed(fs)))
            if not ok:
                observed = "differs on a flow of falsy values"
        res.case(nontrivial=n > 1, outcome=("rev", n))
        res.sample(case, 1)
        if not ok:
            res.violation(case, observed, list(range(n - 1, -1, -1)),
                          dict({"law": "reverse"}, **({"queried": True} if queried else {})))
    # Chain: all tuples of 0..3 iterables of lengths 0..2 (of every kind of iterable: lists, tuples and the
    # one-shot ones: list iterators, generators, map objects), each used plainly
    # and after / while the Chain object is queried (repr, ==, !=, in; against itself, a Chain of the same
    # objects, a Chain of equal lists, Chains of another length, other objects): before it is called,
    # between the call and the first value, after the first value
    lens = [0, 1, 2]

    def _gen(l):
        for v in l:
            yield v
    kinds = [("list", lambda l: l), ("tuple", tuple), ("iter", iter), ("generator", _gen),
             ("map", lambda l: map(lambda v: v, l))]
    for k in range(0, 4):
        for ls in itertools.product(lens, repeat=k):
            for (kind, mk), queried_at in itertools.product(kinds, (None, "new", "called", "started")):
                lists = [[("c", a, i) for i in range(l)] for a, l in enumerate(ls)]
                expected = list(itertools.chain(*[mk(l) for l in lists]))
                args = [mk(l) for l in lists]
                case = {"law": "chain", "lengths": list(ls), "iterables": kind, "queried": queried_at}
                try:
                    ch = lena.flow.Chain(*args)
                    peers = _peers(ch, lena.flow.Chain(*args), lena.flow.Chain(*[list(l) for l in lists]),
                                   lena.flow.Chain(*[[0]] * k), lena.flow.Chain(*[[]] * (k + 1)),
                                   lena.flow.Chain())
                    if queried_at == "new":
                        observe(ch, peers)
                    it = ch()
                    if queried_at == "called":
                        observe(ch, peers)
                    got = list(itertools.islice(it, 1))
                    if queried_at == "started":
                        observe(ch, peers)
                    got.extend(it)
                    ok = _same(got, expected)
                    observed = repr(got)
                except Exception as e:
                    ok, observed = False, "raised " + type(e).__name__
                res.case(nontrivial=len(expected) > 0, outcome=("chain", ls))
                if not ok:
                    cause = {"law": "chain"}
                    if queried_at:
                        cause["queried"] = True
                    res.violation(case, observed, repr(expected), cause)
    # Chain is as lazy as itertools.chain: iter() of an iterable and each of its values are demanded in
    # the same order relative to what the consumer has taken (every prefix length of every tuple)
    class _Traced(object):
        def __init__(self, name, n, log):
            self.name, self.n, self.log = name, n, log

        def __iter__(self):
            self.log.append(("iter", self.name))      # logged when iter() is called, not at the first next()
            return self._values()

        def _values(self):
            for i in range(self.n):
                self.log.append(("make", self.name, i))
                yield ("c", self.name, i)
            self.log.append(("end", self.name))

    def _trace(make_chain, ls, take, query_after=None):
        log = []
        try:
            obj, it = make_chain([_Traced(a, l, log) for a, l in enumerate(ls)])
            it = iter(it)
            log.append(("chained",))
            for i in range(take + 1):
                if i == query_after:
                    unseen = []
                    observe(obj, _peers(obj, lena.flow.Chain(*[[("c", a, j) for j in range(l)]
                                                             for a, l in enumerate(ls)]),
                                        lena.flow.Chain(*[_Traced(a, l, unseen) for a, l in enumerate(ls)])))
                if i == take:
                    break
                try:
                    v = next(it)
                except StopIteration:
                    log.append(("stop",))
                    break
                log.append(("got", v[1], v[2]))
        except Exception as e:
            log.append(("raised", type(e).__name__))
        return log
    for k in range(0, 4):
        for ls in itertools.product(lens, repeat=k):
            for take in range(0, sum(ls) + 2):
                expected = _trace(lambda a: (None, itertools.chain(*a)), ls, take)

                def _lena_chain(a):
                    ch = lena.flow.Chain(*a)
                    return ch, ch()
                # query_after = i: the Chain object is queried when the consumer has taken i values (the
                # iterables must not notice: the trace is that of itertools.chain, which nobody queried)
                for query_after in [None] + list(range(take + 1)):
                    case = {"law": "chain-lazy", "lengths": list(ls), "take": take, "query_after": query_after}
                    got = _trace(_lena_chain, ls, take, query_after)
                    res.case(nontrivial=k >= 2 and take >= 1, outcome=("chain-lazy", ls, take))
                    if got != expected:
                        cause = {"law": "chain-lazy"}
                        if query_after is not None:
                            cause["queried"] = True
                        res.violation(case, got, expected, cause)
    # CountFrom
    for start in (-2, 0, 1, 2.5):
        for step in (1, 2, -1, 0.5, 0):
            for m, queried in itertools.product((0, 1, 5), (False, True)):
                case = {"law": "countfrom", "start": start, "step": step, "take": m, "queried": queried}
                expected = list(itertools.islice(itertools.count(start, step), m))
                try:
                    cf = lena.flow.CountFrom(start, step)
                    # queried: repr / == / != / in before the call, before the first and before later values
                    look = ((lambda: observe(cf, _peers(cf, lena.flow.CountFrom(start, step),
                                                        lena.flow.CountFrom(start + 1, step))))
                            if queried else (lambda: 0))
                    look()
                    it = cf()
                    look()
                    got = list(itertools.islice(it, min(m, 1)))
                    look()
                    got.extend(itertools.islice(it, m - len(got)))
                    ok = got == expected and [type(a) for a in got] == [type(a) for a in expected]
                    observed = got
                except Exception as e:
                    ok, observed = False, "raised " + type(e).__name__
                res.case(nontrivial=m > 0, outcome=("count", start, step, m))
                if not ok:
                    res.violation(case, observed, expected,
                                  dict({"law": "countfrom"}, **({"queried": True} if queried else {})))
    # one CountFrom object called twice, the first flow advanced before / while the second is read
    for start, step in ((0, 1), (3, 2)):
        for m1 in (0, 2):
            case = {"law": "countfrom", "start": start, "step": step, "calls": 2, "first_advanced_by": m1}
            expected = list(itertools.islice(itertools.count(start, step), 4))
            try:
                cf = lena.flow.CountFrom(start, step)
                first = cf()
                list(itertools.islice(first, m1))
                second = cf()
                got = []
                for _ in range(4):
                    got.append(next(second))
                    next(first)
                observed = got
            except Exception as e:
                observed = "raised " + type(e).__name__
            res.case(nontrivial=True, outcome=("count2", start, step, m1))
            if observed != expected:
                res.violation(case, observed, expected, {"law": "countfrom", "calls": 2})
    try:
        got = list(itertools.islice(lena.flow.CountFrom()(), 3))
    except Exception as e:
        got = "raised " + type(e).__name__
    res.case(nontrivial=True)
    if got != [0, 1, 2]:
        res.violation({"law": "countfrom", "defaults": True}, got, [0, 1, 2], {"law": "countfrom"})
    # RunningChunkBy
    for k in range(1, 6):
        nt = collections.namedtuple("NT%d" % k, ["f%d" % i for i in range(k)])
        containers = [("tuple", dict()), ("list_from_iterable", dict(container=list, from_iterable=True)),
                      ("tuple_from_iterable", dict(container=tuple, from_iterable=True)),
                      ("namedtuple", dict(container=nt)),
                      ("lambda_args", dict(container=lambda *a: list(a)))]
        for cname, kw in containers:
            for n, queried in itertools.product(range(0, min(L, 9) + 1), (False, True)):
                xs = _flow(n)
                wins = _windows(xs, k)
                case = {"law": "running-chunk-by", "size": k, "container": cname, "n": n, "queried": queried}
                try:
                    rcb = lena.flow.RunningChunkBy(k, **kw)
                    # queried: repr / == / != / in before, between and in the middle of the runs
                    look = ((lambda: observe(rcb, _peers(rcb, lena.flow.RunningChunkBy(k, **kw),
                                                         lena.flow.RunningChunkBy(k + 1))))
                            if queried else (lambda: 0))
                    look()
                    list(rcb.run(iter(_flow(n // 2))))      # an earlier run of the same object
                    look()
                    g = rcb.run(iter(xs))
                    got = list(itertools.islice(g, 1))
                    look()
                    got.extend(g)
                    ok = len(got) == len(wins) and all(
                        len(g) == k and all(a is b for a, b in zip(g, w)) for g, w in zip(got, wins))
                    if ok and cname == "namedtuple":
                        ok = all(type(g) is nt for g in got)
                    if ok and cname in ("list_from_iterable", "lambda_args"):
                        ok = all(type(g) is list for g in got)
                    if ok and cname.startswith("tuple"):
                        ok = all(type(g) is tuple for g in got)
                    # windows must be independent containers
                    if ok and len(got) > 1 and cname != "tuple" and not cname.startswith("tuple"):
                        ok = len(set(id(g) for g in got)) == len(got)
                    observed = repr([[v[0] for v in g] for g in got])
                except Exception as e:
                    ok, observed = False, "raised " + type(e).__name__
                res.case(nontrivial=len(wins) > 1, outcome=("rcb", k, n))
                if not ok:
                    res.violation(case, observed, repr([[v[0] for v in w] for w in wins]),
                                  dict({"law": "running-chunk-by", "container": cname},
                                       **({"queried": True} if queried else {})))


# --- Chain: histories of calls of one object over one tuple of iterables (mc/ref/c17_chain_hist.py) ---------

def _hist_dom(tier):
    """K: number of iterables; LENS: their lengths; STEPS[k]: how many calls may be left before their end
    (every history ends with calls read to the end); FAIL_STEPS: the same for histories with a failing
    iterable; ALL_KINDS: every tuple of kinds (else the uniform tuples and the 7 rotations of KINDS)."""
    if tier == "thorough":
        return dict(K=3, LENS=(0, 1, 2), STEPS={0: 2, 1: 3, 2: 3, 3: 2}, FAIL_STEPS=2, ALL_KINDS=True)
    return dict(K=3, LENS=(0, 1, 2), STEPS={0: 2, 1: 2, 2: 2, 3: 1}, FAIL_STEPS=1, ALL_KINDS=False)


def _hist_describe(tier):
    d = _hist_dom(tier)
    return ("histories of one Chain over 0..%d iterables of lengths %s of %d kinds (%s): up to %s calls left "
            "after 0..all+1 values by keep / close / drop (%s for 0, 1, 2, 3 iterables), with every position of "
            "a failing iterable in histories of up to %d such calls, then calls read to the end"
            % (d["K"], "/".join(str(l) for l in d["LENS"]), len(hist.KINDS),
               "every tuple of kinds" if d["ALL_KINDS"] else "all of one kind, and the %d rotations of the list "
               "of kinds" % len(hist.KINDS),
               max(d["STEPS"].values()), ", ".join(str(d["STEPS"][k]) for k in sorted(d["STEPS"])),
               d["FAIL_STEPS"]))


def _hist_groups(tier):
    """The tuples of kinds of iterables, grouped into shards (a deterministic list of lists)."""
    d = _hist_dom(tier)
    nk = len(hist.KINDS)
    if d["ALL_KINDS"]:
        groups = collections.OrderedDict()
        for k in range(0, d["K"] + 1):
            for kinds in itertools.product(hist.KINDS, repeat=k):
                groups.setdefault(kinds[:2], []).append(kinds)
        return list(groups.values())
    groups = []
    for r in range(nk):         # all iterables of one kind; k = 0 goes with the first group
        groups.append([(hist.KINDS[r],) * k for k in range(0 if r == 0 else 1, d["K"] + 1)])
    for r in range(nk):         # mixtures: position a has kind number a + r
        groups.append([tuple(hist.KINDS[(a + r) % nk] for a in range(k)) for k in range(2, d["K"] + 1)])
    return groups


def _histories(total, nsteps):
    """Every list of 0..nsteps (take, ending): take in 0..total + 1 (one more than there can be)."""
    one = [(t, e) for t in range(total + 2) for e in hist.ENDINGS]
    for m in range(nsteps + 1):
        for steps in itertools.product(one, repeat=m):
            yield steps


def check_chain_history(res, lengths, kinds, fail, steps):
    """One history on itertools.chain and on lena's Chain over equally built iterables: equal records."""
    case = {"law": "chain-history", "lengths": list(lengths), "kinds": list(kinds),
            "fail": None if fail is None else list(fail), "steps": [list(s) for s in steps]}
    expected, left_early = hist.run_history(lambda its: (lambda: itertools.chain(*its)),
                                            lengths, kinds, fail, steps)
    got, _ = hist.run_history(lambda its: lena.flow.Chain(*its), lengths, kinds, fail, steps)
    one_shot = any(k in hist.ONE_SHOT for k in kinds)
    res.case(nontrivial=left_early and one_shot and sum(lengths) > 0,
             outcome=("chain-history", tuple(lengths), tuple(len(r[1]) for r in expected if len(r) == 3)))
    where = hist.first_difference(expected, got)
    if where is not None:
        res.violation(case, got, expected,
                      {"law": "chain-history", "differs": "".join(c for c in where if not c.isdigit()).strip(),
                       "failing_iterable": fail is not None})
    return case


def check_chain_histories(res, tier, group):
    d = _hist_dom(tier)
    case = None
    for kinds in _hist_groups(tier)[group]:
        k = len(kinds)
        for lengths in itertools.product(d["LENS"], repeat=k):
            total = sum(lengths)
            fails = [(a, j) for a in range(k) if kinds[a] in hist.CAN_FAIL for j in range(lengths[a])]
            for steps in _histories(total, d["STEPS"][k]):
                case = check_chain_history(res, lengths, kinds, None, steps)
                if len(steps) <= d["FAIL_STEPS"]:
                    for fail in fails:
                        check_chain_history(res, lengths, kinds, fail, steps)
            if case is not None:
                res.sample(case, 1)


def run_shard(p, tier):
    d = _dom(tier)
    res = Result()
    rng = [None] + list(range(-d["B"], d["B"] + 1))
    steps = [None] + list(range(1, d["S"] + 1))
    if p["kind"] == "slice":
        start = p["start"]
        for stop in rng:
            for step in steps:
                for args in _forms(start, stop, step):
                    for n in range(d["L"] + 1):
                        case = check_slice_run(res, args, n)
                        if 1 <= n <= d["LF"] and args == (start, stop, step):
                            for shift in range(len(FALSY)):
                                check_slice_run(res, args, n, falsy_shift=shift)
                            for hint in sorted(set([0, n // 2, n - 1, n + 2])):
                                if hint != n and hint >= 0:
                                    check_slice_run_hinted(res, args, n, hint)
                        if n in (d["LF"] // 2, d["L"]):
                            check_slice_run_queried(res, args, n)
                # one long flow: this stop, and for stop None also far stops
                for big in ((None, 260, -260, 290, -3) if stop is None else (stop,)):
                    check_long(res, (start, big, step))
                if start is None and stop is not None and stop >= 0:
                    check_long(res, (250 + stop, None, step))
                res.sample(case, 2)
    elif p["kind"] == "badstep":
        for start in rng:
            for stop in rng:
                for step in (0, -1, -2, 1.5, 0.5):
                    case = check_bad_step(res, (start, stop, step))
                res.sample(case, 2)
    elif p["kind"] == "fill_into":
        nn = [None] + list(range(0, d["B"] + 1))
        for start in [p["start"]]:
            for stop in nn:
                for step in steps:
                    for args in _forms(start, stop, step):
                        for n in range(d["L"] + 1):
                            case = check_fill_into(res, args, n, d["H"] + d["B"], queried_too=(n == d["L"]))
                    res.sample(case, 2)
    elif p["kind"] == "others":
        check_others(res, tier)
    elif p["kind"] == "chain-history":
        check_chain_histories(res, tier, p["group"])
    return res


def replay(case):
    res = Result()
    law = case.get("law")
    if law == "slice-run":
        check_slice_run(res, tuple(case["args"]), case["n"], case.get("falsy_shift"))
    elif law == "slice-run-hinted":
        check_slice_run_hinted(res, tuple(case["args"]), case["n"], case["hint"])
    elif law == "slice-run-queried":
        check_slice_run_queried(res, tuple(case["args"]), case["n"])
    elif law == "slice-long":
        check_long(res, tuple(case["args"]))
    elif law == "slice-badstep":
        check_bad_step(res, tuple(case["args"]))
    elif law == "slice-fill-into":
        check_fill_into(res, tuple(case["args"]), case["n"], 20)
    elif law == "chain-history":
        check_chain_history(res, tuple(case["lengths"]), tuple(case["kinds"]),
                            None if case["fail"] is None else tuple(case["fail"]),
                            [tuple(st) for st in case["steps"]])
    else:
        # the small laws are re-run as a whole and filtered on the law name
        check_others(res, "thorough")
        return [v for v in result_violations(res) if v["case"].get("law") == law]
    return result_violations(res)

LEVEL_TEXT = ("bounded exhaustive exploration: the property's whole stated domain (start, stop in "
              "{None,-12..12}, step in {None,1..6}, flows of length 0..22; thorough: -26..26, 1..10, 0..52) is enumerated "
              "and every case executed on the real Slice / Reverse / Chain / CountFrom / RunningChunkBy and "
              "compared with Python's own slicing, reversed, itertools.chain/count and sliding windows; two "
              "fill_into drivers; 5 kinds of Chain iterables; every element with and without interleaved queries; "
              "every bounded history of complete and abandoned calls of one Chain object over 7 kinds of iterables "
              "(one of them possibly raising) against the same history with itertools.chain")
LEVEL_NOTE = ("holds for the enumerated domain only; identity of yielded objects is compared; "
              "integral float steps are outside the alphabet; every Slice / Reverse / RunningChunkBy object is also "
              "run over a second flow and every CountFrom called twice with both flows alive; fill_into is driven "
              "both by a caller that stops at the first LenaStopFill and by one that offers every value; every "
              "element is also used while it is queried (repr, ==, !=, in), the answers of the queries are not judged; "
              "one Chain object is called repeatedly over the same (also one-shot) iterables with calls left after "
              "every number of values (iterator kept, closed, dropped, or an iterable raised): later calls, "
              "suspended iterators and the iterables themselves give what they give under itertools.chain; quick "
              "tier: up to 2 abandoned calls (1 for three iterables), thorough: up to 3 (2) and every tuple of kinds")
TECHNIQUE = "exhaustive enumeration of the stated input domain on the real code against a list-slicing reference"
