"""C19 - Output files always match the current data and nothing unchanged is redone.

History explorer over a directory (driver E5, explicit-state search with de-duplication):

  * a STATE is what earlier runs left in the output directory: relative path -> (content, age rank);
  * a TRANSITION is "delete a subset of the files, then run a freshly built pipeline
    ToCSV - MakeFilename - Write - RenderLaTeX - Write - LaTeXToPDF - PDFToPNG over data in {A, B} per
    plot and a template in {T1, T1 plus a final newline}", for every answer the stub converter processes can give to poll();
  * pdflatex / pdftoppm are a stub ``subprocess`` (pdf := PDF[tex|csv named in it], png := PNG[pdf]) that
    records its invocations; file ages are sentinel mtimes owned by the explorer;
  * every executed transition is judged against a boring model of the property statement
    (mc/ref/c19_model.py): yielded paths, source contents, derived artefacts regenerated when anything
    they were rendered from was written or they were missing, output.changed true when content changed
    and staying true downstream, a fully unchanged re-run rewrites nothing and launches nothing.

Two pipelines: "plain" (p independent plots) and "grouped" (group_plots + MapGroup: p csv members, one
combined tex/pdf/png; 2 members, and 3 so that a member has a neighbour on both sides), all
existing_unchanged / overwrite settings. Besides the data A and B a plot can be E, empty (a graph without
points, whose CSV text is the empty string).
Separately (exhaustive enumeration): sequences of <= 3 MakeFilename elements against the naming model,
Write's path rule, Write's content rule (every text, the empty one included, over every earlier content of
the file), group_plots' and MapGroup's combination of output.changed.
"""
import copy
import itertools
import multiprocessing
import os
import shutil

import lena.core
import lena.flow
import lena.output
import lena.structures
import lena.output.latex_to_pdf as _l2p
import lena.output.pdf_to_png as _p2p
from lena.flow.group_plots import group_plots as _group_plots

from mc.core import Result, result_violations
from mc.instrument import scratch_dir
from mc.ref import c19_model as M

ID = "C19"
LEVEL = "model_checking"
DESIGN_REF = "DESIGN.md section 5, C19"
RULE = ("explicit-state search: a state is the canonical content of the output directory (path, content, "
        "age rank within one plot's files); from every state reached within the run bound every transition "
        "(subset of files deleted x data of every plot in {A,B} - or {A,E}, E being a plot without rows, in the "
        "jobs that say so - x template in {T1, T1 plus a final newline} x every answer "
        "sequence of the stub converters' poll()) is executed once on a freshly built real pipeline and "
        "judged; a transition is non-trivial when it is a re-run over a non-empty directory left by earlier "
        "runs; for the naming part a case is non-trivial when the context already held a name, prefix or "
        "suffix or an earlier element of the sequence created one; cases are distinct by construction")
ASSUMPTIONS = [
    "pdflatex/pdftoppm are a stub subprocess (pdf := PDF[tex|csv files named by \\input], png := PNG[pdf]); "
    "every converter exits with status 0; converter completion order is enumerated through poll() answers",
    "file ages are sentinel mtimes; only the age order among the files of one plot (same path stem) is part "
    "of a state (lena compares only the tex and pdf of one plot)",
    "data in {A,B} per plot (1-dim histograms; in separate jobs {A,E} or {A,B,E}, where E is a graph without "
    "points, CSV text ''), one template file with content in {T1, T1 plus a final newline} shared by all plots, "
    "pipeline settings fixed along a history",
    "MapGroup's combination of output.changed is judged for mapped sequences that leave a member's flag alone "
    "or raise it (absent to False or True, False to True), as a Write does, on groups made by group_plots",
    "Write's content rule: with overwrite or for a newly created file the value of output.changed is not "
    "judged beyond 'true on arrival stays true' and 'true when the content changed'",
    "content freshness is judged, not re-conversion as such: a derived artefact must equal what the stub "
    "produces from the files on disk whenever one of its sources was written in this run or it was missing",
    "with Write(existing_unchanged=True) an existing source file may keep its old content (documented)",
    "'a run whose inputs are unchanged rewrites no file and launches no converter' is demanded of a run over a "
    "complete, fully fresh directory with default overwrite settings of all elements; redoing one unchanged "
    "plot while another plot changed is only counted (counter per_plot_redo_observed)",
    "a Write that creates a missing file is judged by its consequence (stale derived artefact), not by the "
    "flag alone",
    "MakeFilename strings are non-empty; formatting uses the single field {{name}}",
]
NONTRIVIAL_FLOOR = {"quick": 20000, "thorough": 200000}
BUDGET_S = {"quick": 240, "thorough": 3000}

WMODES = ("default", "eu", "ov")
WKW = {"default": {}, "eu": {"existing_unchanged": True}, "ov": {"overwrite": True}}
T0 = 1000000000
STAGES = ("w1", "w2", "pdf", "png")


# ------------------------------------------------------------------------------------------------
# configurations and bounds
# ------------------------------------------------------------------------------------------------
def _cfg(w1="default", w2="default", pdf_ov=False, png_ov=False, img=None):
    c = {"w1": w1, "w2": w2, "pdf_ov": pdf_ov, "png_ov": png_ov}
    if img:
        c["img"] = img      # PDFToPNG(format=...): a documented non-default option
    return c


ALL_CFGS = [_cfg(a, b, c, d) for a in WMODES for b in WMODES for c in (False, True) for d in (False, True)]
MAIN_CFGS = [_cfg(), _cfg("eu", "eu"), _cfg("ov", "ov"), _cfg("eu", "default"), _cfg("default", "eu"),
             _cfg("ov", "default"), _cfg("default", "ov"), _cfg(pdf_ov=True), _cfg(png_ov=True)]


GROUP3_PARTS = 4


def _plan(tier):
    """(jobs explored inside one shard each, jobs explored level by level over many shards).
    A job may name its data letters ("alphabet", default A and B) and may be one part of a job split
    by the inputs of the first run ("first": [part, parts])."""
    light, heavy = [], []
    if tier == "quick":
        for c in ALL_CFGS:
            light.append({"kind": "plain", "p": 1, "cfg": c, "runs": 6})
        for c in MAIN_CFGS:
            light.append({"kind": "grouped", "p": 2, "cfg": c, "runs": 3})
        light.append({"kind": "plain", "p": 2, "cfg": _cfg(), "runs": 2})
        light.append({"kind": "plain", "p": 1, "cfg": _cfg(img="jpeg"), "runs": 6})
        # a plot that becomes (or stops being) empty: data in {A, E}, E has the empty string as its text
        for c in MAIN_CFGS:
            light.append({"kind": "plain", "p": 1, "cfg": c, "runs": 6, "alphabet": "AE"})
        # a group of three members (the largest of the quantifier): a member with a neighbour on both sides
        for part in range(GROUP3_PARTS):
            light.append({"kind": "grouped", "p": 3, "cfg": _cfg(), "runs": 2, "first": [part, GROUP3_PARTS]})
    else:
        light.append({"kind": "plain", "p": 1, "cfg": _cfg(img="jpeg"), "runs": 8})
        light.append({"kind": "grouped", "p": 2, "cfg": _cfg(img="jpeg"), "runs": 3})
        for c in ALL_CFGS:
            light.append({"kind": "plain", "p": 1, "cfg": c, "runs": 8})
        for c in ALL_CFGS:
            light.append({"kind": "plain", "p": 1, "cfg": c, "runs": 8, "alphabet": "ABE"})
        light.append({"kind": "grouped", "p": 2, "cfg": _cfg(), "runs": 3, "alphabet": "AE"})
        for c in ALL_CFGS:
            heavy.append({"kind": "grouped", "p": 2, "cfg": c, "runs": 4})
        for c in MAIN_CFGS:
            heavy.append({"kind": "plain", "p": 2, "cfg": c, "runs": 3})
        heavy.append({"kind": "plain", "p": 2, "cfg": _cfg(), "runs": 4})
        heavy.append({"kind": "plain", "p": 3, "cfg": _cfg(), "runs": 3, "one_plot": True})
        heavy.append({"kind": "grouped", "p": 3, "cfg": _cfg(), "runs": 3})
    return light, heavy


def describe(tier):
    if tier == "quick":
        return ("plain pipeline, 1 plot: all 36 existing_unchanged/overwrite settings, histories to closure "
                "(at most 6 runs); the same with data in {A, E = no rows} for 9 settings; grouped pipeline "
                "(2 members): 9 settings, <= 3 runs; grouped pipeline (3 members): default settings, 2 runs; "
                "plain 2 plots: default "
                "settings, <= 2 runs; every subset of files deleted between runs; MakeFilename sequences of "
                "length <= 2 over 62 elements x 11 contexts and length 3 over 14 elements; Write alone: 4 texts "
                "x 5 earlier contents x 3 settings x 3 flags; MapGroup over all 258 flag patterns of 1..3 members")
    return ("plain 1 plot: 36 settings to closure (<= 8 runs), also with data in {A, B, E = no rows}; grouped 2 "
            "members with data in {A, E}: default settings, <= 3 runs; grouped 2 members: 36 settings, <= 4 runs; "
            "plain 2 plots: 9 settings <= 3 runs and default settings <= 4 runs; plain 3 plots, deletions "
            "restricted to one plot, <= 3 runs; grouped 3 members <= 3 runs; MakeFilename sequences of "
            "length <= 3 over 62 elements x 11 contexts; Write alone and MapGroup flag patterns as in the quick tier")


# ------------------------------------------------------------------------------------------------
# states
# ------------------------------------------------------------------------------------------------
def _stem(path):
    return os.path.splitext(path)[0]


def canon(state):
    """state: dict path -> (content, rank). Canonical hashable form."""
    return tuple(sorted((p, c, r) for p, (c, r) in state.items()))


def state_to_json(state):
    return [[p, c, r] for p, (c, r) in sorted(state.items())]


def state_from_json(lst):
    return {p: (c, r) for p, c, r in lst}


def _densify(items):
    """items: list of (path, sortkey) of one stem -> dict path -> dense rank."""
    out = {}
    for rank, (p, _) in enumerate(sorted(items, key=lambda t: t[1])):
        out[p] = rank
    return out


def symbolic(state, table):
    return {p: "%s@%d" % (table.get(c, repr(c)[:60]), r) for p, (c, r) in sorted(state.items())}


# ------------------------------------------------------------------------------------------------
# executing one run of the real pipeline
# ------------------------------------------------------------------------------------------------
class _CollectGroup(object):
    """All plots of the flow become one group (what GroupBy + group_plots do in an analysis)."""

    def run(self, flow):
        vals = list(flow)
        yield _group_plots(vals)


def _flag(context):
    out = context.get("output") if isinstance(context, dict) else None
    if not isinstance(out, dict) or "changed" not in out:
        return "absent"
    v = out["changed"]
    return v if isinstance(v, bool) else repr(v)


def _tap(stage, kind, taps):
    def tap(val):
        rec = {"stage": stage, "doc": None, "data": None, "flag": "absent", "members": None}
        if isinstance(val, tuple) and len(val) == 2 and isinstance(val[1], dict):
            data, ctx = val
            rec["data"] = list(data) if isinstance(data, (list, tuple)) else data
            rec["flag"] = _flag(ctx)
            if kind == "grouped":
                rec["doc"] = "g"
                if isinstance(ctx.get("group"), list):
                    rec["members"] = [_flag(c) for c in ctx["group"]]
            else:
                rec["doc"] = ctx.get("name")
        taps.append(rec)
        return val
    tap.__name__ = "tap_" + stage
    return tap


def build(kind, p, cfg, taps):
    """A freshly built pipeline, as a new process would build it."""
    w1 = lena.output.Write(M.OUT, verbose=False, **WKW[cfg["w1"]])
    w2 = lena.output.Write(M.OUT, verbose=False, **WKW[cfg["w2"]])
    render = lena.output.RenderLaTeX(M.TPL_NAME, template_dir=M.TPL_DIR)
    tail = [w2, _tap("w2", kind, taps),
            lena.output.LaTeXToPDF(overwrite=cfg["pdf_ov"], verbose=0), _tap("pdf", kind, taps),
            lena.output.PDFToPNG(overwrite=cfg["png_ov"], verbose=False,
                                 **({"format": cfg["img"]} if cfg.get("img") else {})),
            _tap("png", kind, taps)]
    mk = lena.output.MakeFilename("{{name}}", dirname="{{dir}}")
    if kind == "plain":
        els = [lena.output.ToCSV(), mk, w1, _tap("w1", kind, taps), render] + tail
    else:
        els = [_CollectGroup(), lena.flow.MapGroup(lena.output.ToCSV(), mk, w1), _tap("w1", kind, taps),
               lena.output.MakeFilename("combined"), render] + tail
    return lena.core.Sequence(*els)


def values(p, data):
    out = []
    for i in range(p):
        ctx = {"name": M.NAMES[i]}
        if M.DIRS[i]:
            ctx["dir"] = M.DIRS[i]
        bins = M.DATA[data[i]]
        if bins is None:
            plot = lena.structures.graph([[], []])      # no point passed the selection: no rows
        else:
            plot = lena.structures.histogram(list(M.EDGES), list(bins))
        out.append((plot, ctx))
    return out


class Sandbox(object):
    """A private scratch directory in which transitions are executed one after another."""

    def __init__(self):
        self._cm = None

    def __enter__(self):
        # scratch_dir() honours VERIF_TMPDIR; a memory file system makes a transition ~7 times cheaper
        # than the journalled disk behind /tmp, so it is preferred when nothing else was asked for
        fast = None
        if not os.environ.get("VERIF_TMPDIR") and os.path.isdir("/dev/shm") and os.access("/dev/shm", os.W_OK):
            fast = "/dev/shm"
        if fast:
            os.environ["VERIF_TMPDIR"] = fast
        try:
            self._cm = scratch_dir(prefix="lena-verif-c19-")
            self._cm.__enter__()
        finally:
            if fast:
                del os.environ["VERIF_TMPDIR"]
        os.makedirs(M.TPL_DIR)
        return self

    def __exit__(self, *exc):
        return self._cm.__exit__(*exc)

    def execute(self, job, pre, inputs, answers, keep=None):
        """Materialise *pre* (dict path -> (content, rank)), run the real pipeline once, observe.
        *keep*: a dictionary that carries one pipeline object from run to run (a long-lived process
        that runs its pipeline again) instead of building a new one for every run."""
        kind, p, cfg = job["kind"], job["p"], job["cfg"]
        if not pre:
            # the very first run (or everything deleted): no output directory at all
            shutil.rmtree(M.OUT, ignore_errors=True)
        else:
            # files are deleted between runs, directories stay
            for dp, dns, fns in os.walk(M.OUT):
                for fn in fns:
                    os.remove(os.path.join(dp, fn))
        sentinel = {}
        order = sorted(pre, key=lambda q: (pre[q][1], _stem(q), M.KIND_ORDER.get(os.path.splitext(q)[1], 9)))
        for k, path in enumerate(order):
            d = os.path.dirname(path)
            if d and not os.path.isdir(d):
                os.makedirs(d)
            with open(path, "w") as f:
                f.write(pre[path][0])
            # ages of the files of a history differ by a millisecond: "newer" is newer whatever the
            # distance (on a file system that keeps whole seconds only, by 1000 seconds)
            ns = T0 * 10 ** 9 + 10 ** 6 * k
            os.utime(path, ns=(ns, ns))
            if os.stat(path).st_mtime_ns != ns:
                ns = (T0 + 1000 * k) * 10 ** 9
                os.utime(path, ns=(ns, ns))
            sentinel[path] = os.stat(path).st_mtime_ns
        with open(os.path.join(M.TPL_DIR, M.TPL_NAME), "w") as f:
            f.write(M.template_source(kind, inputs["tpl"]))

        env = M.ConverterEnv(answers)
        fake = M.FakeSubprocess(env)
        taps = []
        old = (_l2p.subprocess, _p2p.subprocess)
        _l2p.subprocess = fake
        _p2p.subprocess = fake
        exc = None
        results = None
        try:
            if keep is None:
                seq = build(kind, p, cfg, taps)
            else:
                if "seq" not in keep:
                    keep["taps"] = []
                    keep["seq"] = build(kind, p, cfg, keep["taps"])
                taps = keep["taps"]
                del taps[:]
                seq = keep["seq"]
            results = list(seq.run(values(p, inputs["data"])))
        except Exception as e:  # judged, never propagated
            exc = type(e).__name__
        finally:
            _l2p.subprocess, _p2p.subprocess = old

        post = {}
        mtimes = {}
        for dp, dns, fns in os.walk(M.OUT):
            dns.sort()
            for fn in sorted(fns):
                path = os.path.join(dp, fn)
                with open(path) as f:
                    post[path] = f.read()
                mtimes[path] = os.stat(path).st_mtime_ns
        written = set(q for q in post if q not in sentinel or mtimes[q] != sentinel[q])
        # next state: unwritten files keep their relative age, written ones are newer, in write order
        by_stem = {}
        for q in post:
            ko = M.KIND_ORDER.get(os.path.splitext(q)[1], 9)
            key = (1, mtimes[q], ko) if q in written else (0, pre[q][1], ko)
            by_stem.setdefault(_stem(q), []).append((q, key))
        state = {}
        for stem in by_stem:
            ranks = _densify(by_stem[stem])
            # lena reads file ages in one place only (LaTeXToPDF: is the tex newer than its pdf?), so
            # the age part of a state is that one relation; every other file has rank 0
            tex, pdf = stem + ".tex", stem + ".pdf"
            newer = None
            if tex in ranks and pdf in ranks:
                newer = tex if ranks[tex] > ranks[pdf] else pdf
            for q in ranks:
                state[q] = (post[q], 1 if q == newer else 0)
        finals = []
        if results is not None:
            for r in results:
                if isinstance(r, tuple) and len(r) == 2 and isinstance(r[1], dict):
                    finals.append(r[0] if not isinstance(r[0], list) else list(r[0]))
                else:
                    finals.append(repr(r)[:80])
        return {"exc": exc, "post": post, "written": written, "state": state, "taps": taps,
                "launches": list(env.launches), "npolls": env.npolls, "finals": finals}


def poll_schedules(run):
    """Every answer sequence the environment can give to the poll() calls the run actually makes.
    *run(answers)* executes the transition; answers beyond the list are "finished"."""
    stack = [[]]
    while stack:
        ans = stack.pop()
        obs = run(ans)
        yield ans, obs
        for j in range(obs["npolls"] - 1, len(ans) - 1, -1):
            stack.append(ans + ["finished"] * (j - len(ans)) + ["pending"])


# ------------------------------------------------------------------------------------------------
# the oracle (property statement; see module docstring)
# ------------------------------------------------------------------------------------------------
def _kind_of(path, pre, post):
    if path not in pre:
        return "created-missing-file"
    if pre[path] != post.get(path):
        return "rewrote-changed-content"
    return "rewrote-same-content"


def _flagname(v):
    return "true" if v is True else ("false" if v is False else str(v))


def judge(job, pre, inputs, obs):
    """pre: dict path -> content (after the deletions). Returns a list of
    (cause, observed, expected, note); counts obligations into obs['oblig']."""
    kind, p, cfg = job["kind"], job["p"], job["cfg"]
    oblig = obs.setdefault("oblig", {})

    def ob(name):
        oblig[name] = oblig.get(name, 0) + 1

    if obs["exc"]:
        return [({"law": "run-raised", "exc": obs["exc"], "pipeline": kind}, "raised " + obs["exc"],
                 "the run completes", "")]
    out = []
    post, written = obs["post"], obs["written"]
    docs = M.layout(kind, p, cfg.get("img") or "png")
    taps = {}
    for rec in obs["taps"]:
        taps.setdefault((rec["doc"], rec["stage"]), []).append(rec)
    launched_tools = sorted(set(t for t, _ in obs["launches"]))
    all_fresh = True
    defaults = cfg["w1"] != "ov" and cfg["w2"] != "ov" and not cfg["pdf_ov"] and not cfg["png_ov"]

    for doc in docs:
        csv_paths = [q for _, q in doc.members]
        exp_csv = {q: M.csv_text(inputs["data"][m]) for m, q in doc.members}
        exp_tex = M.tex_text(inputs["tpl"], csv_paths)

        # ---- the directory before the run: complete and fully fresh for the current inputs? -------
        fresh = all(pre.get(q) == exp_csv[q] for q in csv_paths) and pre.get(doc.tex) == exp_tex
        if fresh:
            epdf = M.pdf_text(exp_tex, [exp_csv[q] for q in csv_paths])
            fresh = pre.get(doc.pdf) == epdf and pre.get(doc.png) == M.png_text(epdf)
        if not fresh:
            all_fresh = False
        elif defaults and len(docs) > 1:
            redone = [q for q in doc.files() if q in written]
            if redone or any(t in doc.files() for _, t in obs["launches"]):
                ob("per_plot_redo_observed")

        # ---- O1: every yielded value names an existing file at outdir/dirname/filename.fileext ----
        stage_paths = {"w1": csv_paths if kind == "grouped" else csv_paths[0],
                       "w2": doc.tex, "pdf": doc.pdf, "png": doc.png}
        for stage in STAGES:
            for rec in taps.get((doc.id, stage), []):
                ob("yielded_paths")
                want = stage_paths[stage]
                names = rec["data"] if isinstance(rec["data"], list) else [rec["data"]]
                if rec["data"] != want:
                    out.append(({"law": "yielded-path", "stage": stage, "problem": "wrong-path",
                                 "pipeline": kind}, rec["data"], want, ""))
                elif any(q not in post for q in names):
                    out.append(({"law": "yielded-path", "stage": stage, "problem": "file-missing",
                                 "pipeline": kind}, [q for q in names if q not in post], "files exist", ""))

        # ---- O3: source files hold the current data / template ------------------------------------
        sources_ok = True
        for q, want, mode, what in [(q, exp_csv[q], cfg["w1"], "csv") for q in csv_paths] + \
                                   [(doc.tex, exp_tex, cfg["w2"], "tex")]:
            ob("source_files")
            allowed = [want]
            if mode == "eu" and q in pre:
                allowed.append(pre[q])
            if post.get(q) not in allowed:
                sources_ok = False
                out.append(({"law": "source-content", "file": what, "mode": mode, "pipeline": kind,
                             "before": "missing" if q not in pre else
                                       ("current" if pre[q] == want else "outdated"),
                             "after": "missing" if q not in post else "not-current"},
                            post.get(q, M.MISSING), want, ""))

        def flags(stage):
            return [r["flag"] for r in taps.get((doc.id, stage), [])]

        def all_true(stage):
            fl = flags(stage)
            return bool(fl) and all(f is True for f in fl)

        def member_flags(m):
            if kind == "grouped":
                return [(r["members"][m] if r["members"] and m < len(r["members"]) else "absent")
                        for r in taps.get((doc.id, "w1"), [])]
            return flags("w1")

        # ---- O4: derived artefacts ----------------------------------------------------------------
        if sources_ok and all(q in post for q in csv_paths) and doc.tex in post:
            trig = []
            for m, q in doc.members:
                if q in written:
                    trig.append(("w1", _kind_of(q, pre, post), m, q))
            if doc.tex in written:
                trig.append(("w2", _kind_of(doc.tex, pre, post), None, doc.tex))
            missing = doc.pdf not in pre
            want_pdf = M.pdf_text(post[doc.tex], [post[q] for q in csv_paths])
            if trig or missing:
                ob("pdf_obligations")
                if post.get(doc.pdf) != want_pdf:
                    out.append(_pdf_fault(kind, cfg, doc, trig, missing, flags, all_true, member_flags,
                                              post, want_pdf))
            if doc.pdf in post:
                want_png = M.png_text(post[doc.pdf])
                if doc.png not in pre or doc.pdf in written:
                    ob("png_obligations")
                    if post.get(doc.png) != want_png:
                        if doc.png not in pre and doc.png not in post:
                            el, ev = "PDFToPNG", "missing-artefact-not-created"
                        elif doc.png not in pre or all_true("pdf"):
                            el, ev = "PDFToPNG", ("missing-artefact-not-created" if doc.png not in pre
                                                  else "changed-true-not-regenerated")
                        else:
                            el, ev = "LaTeXToPDF", "regenerated-flag-not-set"
                        out.append(({"law": "derived-artefact-fresh", "stale": "png", "element": el,
                                     "event": ev, "pipeline": kind},
                                    {"png": post.get(doc.png, M.MISSING), "changed_after_LaTeXToPDF": flags("pdf")},
                                    {"png": want_png}, ""))

        # ---- O2: output.changed is true whenever content changed, and stays true downstream --------
        def changed_content(q):
            return q in pre and q in post and pre[q] != post[q]

        for m, q in doc.members:
            if changed_content(q):
                ob("flag_obligations")
                mf = member_flags(m)
                if not (mf and all(f is True for f in mf)):
                    out.append(({"law": "changed-flag", "element": "Write", "writer": "csv",
                                 "event": "rewrote-changed-content", "mode": cfg["w1"], "pipeline": kind},
                                {"changed": mf}, {"changed": True}, ""))
        if kind == "grouped":
            for rec in taps.get((doc.id, "w1"), []):
                if rec["members"] and any(f is True for f in rec["members"]):
                    ob("flag_obligations")
                    if rec["flag"] is not True:
                        out.append(({"law": "changed-stays-true", "lost_at": "MapGroup", "pipeline": kind},
                                    {"members": rec["members"], "group": rec["flag"]}, {"group": True}, ""))
        for q, stage, el in ((doc.tex, "w2", "Write"), (doc.pdf, "pdf", "LaTeXToPDF"), (doc.png, "png", "PDFToPNG")):
            if changed_content(q) and flags(stage):
                ob("flag_obligations")
                if not all_true(stage):
                    out.append(({"law": "changed-flag", "element": el, "writer": os.path.splitext(q)[1][1:],
                                 "event": "rewrote-changed-content", "pipeline": kind,
                                 "mode": cfg["w2"] if stage == "w2" else "-"},
                                {"changed": flags(stage)}, {"changed": True}, ""))
        for k, stage in enumerate(STAGES[:-1]):
            if flags(stage) and all_true(stage):
                for later in STAGES[k + 1:]:
                    if flags(later):
                        ob("flag_obligations")
                        if not all_true(later):
                            out.append(({"law": "changed-stays-true", "pipeline": kind,
                                         "lost_at": {"w2": "Write", "pdf": "LaTeXToPDF", "png": "PDFToPNG"}[later]},
                                        {stage: flags(stage), later: flags(later)}, {later: True}, ""))
                            break
                break

    # ---- O5: a fully unchanged run rewrites nothing and launches nothing ---------------------------
    complete = all(q in pre for q in M.all_files(kind, p))
    if defaults and complete and all_fresh:
        ob("noredo_obligations")
        if written or obs["launches"]:
            out.append(({"law": "no-redo", "rewritten": sorted(set(os.path.splitext(q)[1][1:] for q in written)),
                         "launched": launched_tools, "pipeline": kind},
                        {"rewritten": sorted(written), "launched": obs["launches"]},
                        {"rewritten": [], "launched": []}, ""))
    return out


def _pdf_fault(kind, cfg, doc, trig, missing, flags, all_true, member_flags, post, want_pdf):
    """A pdf that had to be regenerated is not what the stub produces from the files on disk:
    name the element that lost the information (this is the `cause` known findings are matched on)."""
    cause = {"law": "derived-artefact-fresh", "stale": "pdf", "pipeline": kind}
    if missing:
        cause.update(element="LaTeXToPDF", event="missing-artefact-not-created")
    elif all_true("w2"):
        cause.update(element="LaTeXToPDF", event="changed-true-not-regenerated")
    else:
        faults = []
        for which, ev, m, q in trig:
            if which == "w1":
                mf = member_flags(m)
                if not (mf and all(f is True for f in mf)):
                    faults.append(dict(element="Write", writer="csv", event=ev, changed_flag="unset",
                                       mode=cfg["w1"]))
                elif kind == "grouped" and not all_true("w1"):
                    faults.append(dict(element="MapGroup", event="member-true-lost"))
                else:
                    faults.append(dict(element="Write", writer="tex", event="upstream-true-lost",
                                       mode=cfg["w2"]))
            else:
                faults.append(dict(element="Write", writer="tex", event=ev, changed_flag="unset",
                                   mode=cfg["w2"]))
        other = [f for f in faults if f["event"] != "created-missing-file"]
        cause.update((other or faults)[0])
    observed = {"pdf": post.get(doc.pdf, M.MISSING), "written_sources": [(w, e, q) for w, e, _, q in trig],
                "changed_after_Write1": flags("w1"), "changed_after_Write2": flags("w2"),
                "changed_after_LaTeXToPDF": flags("pdf")}
    return (cause, observed, {"pdf": want_pdf}, "")


# ------------------------------------------------------------------------------------------------
# exploring
# ------------------------------------------------------------------------------------------------
def all_inputs(p, letters=None):
    return [{"data": "".join(d), "tpl": t} for t in M.LABELS
            for d in itertools.product(sorted(letters or M.DEFAULT_LETTERS), repeat=p)]


def deletion_sets(job, files):
    """All subsets of the existing files, fewest deletions first (or, for one_plot jobs, all subsets of
    the files of a single plot)."""
    n = len(files)
    masks = sorted(range(2 ** n), key=lambda mk: (bin(mk).count("1"), mk))
    sets = [[files[k] for k in range(n) if mk >> k & 1] for mk in masks]
    if job.get("one_plot"):
        sets = [s for s in sets if len(set(_stem(q) for q in s)) <= 1]
    return sets


def expand(job, state, hist, sb, res=None, chunk=None, table=None):
    """Execute every transition out of *state* (dict path -> (content, rank)).
    Returns {canonical successor: (successor state, step)}; judges and counts when *res* is given."""
    succ = {}
    files = sorted(state)
    p = job["p"]
    n = 0
    inputs_here = all_inputs(p, job.get("alphabet"))
    if job.get("first") and not hist:
        # a job split by the inputs of its first run
        inputs_here = [i for k, i in enumerate(inputs_here) if k % job["first"][1] == job["first"][0]]
    for deleted in deletion_sets(job, files):
        n += 1
        if chunk is not None and n % chunk[1] != chunk[0]:
            continue
        gone = set(deleted)
        pre = {q: state[q] for q in files if q not in gone}
        pre_content = {q: c for q, (c, _) in pre.items()}
        for inputs in inputs_here:
            for answers, obs in poll_schedules(lambda a: sb.execute(job, pre, inputs, a)):
                step = {"delete": deleted, "data": inputs["data"], "tpl": inputs["tpl"], "polls": answers}
                c = canon(obs["state"])
                if c not in succ:
                    succ[c] = (obs["state"], step)
                if res is None:
                    continue
                case = {"law": "history", "kind": job["kind"], "p": p, "cfg": job["cfg"],
                        "steps": hist + [step]}
                viols = judge(job, pre_content, inputs, obs)
                res.transitions += 1
                res.traces += 1
                flags = tuple((r["doc"], r["stage"], _flagname(r["flag"])) for r in obs["taps"])
                res.case(nontrivial=bool(pre), outcome=(c, flags, tuple(obs["launches"]), obs["exc"]))
                for name, k in obs.get("oblig", {}).items():
                    res.count(name, k)
                if obs["launches"]:
                    res.count("runs_launching_converters")
                if answers:
                    res.count("runs_with_pending_converter")
                res.maximum("history_length", len(hist) + 1)
                if table is not None:
                    res.sample({"pipeline": job["kind"], "plots": p, "cfg": job["cfg"],
                                "before": symbolic(pre, table), "step": step,
                                "after": symbolic(obs["state"], table)}, 3)
                for cause, observed, expected, note in viols:
                    res.violation(case, observed, expected, cause,
                                  note or ("state after the run: %s" % symbolic(obs["state"], table or {})))
    return succ


def explore_job(job, res):
    """Breadth-first search inside one shard, to closure or to the job's run bound."""
    table = M.symbols(job["kind"], job["p"])
    seen = {canon({}): None}
    frontier = [({}, [])]
    with Sandbox() as sb:
        for depth in range(job["runs"]):
            nxt = []
            for state, hist in frontier:
                if hist or not job.get("first") or job["first"][0] == 0:
                    res.states += 1     # the empty directory is one state, whatever the number of parts
                succ = expand(job, state, hist, sb, res, table=table)
                for c in sorted(succ):
                    if c not in seen:
                        seen[c] = None
                        nxt.append((succ[c][0], hist + [succ[c][1]]))
            frontier = nxt
            if not frontier:
                res.count("jobs_explored_to_closure")
                break
        else:
            if frontier:
                res.count("states_left_unexpanded_at_run_bound", len(frontier))
    return res


REUSE_KEYS = ("exc", "post", "written", "launches", "finals")


def check_reuse(res, sb, job, steps):
    """One pipeline object used for all runs of a history (deletions and input changes between the
    runs as usual) must do in every run what a freshly built pipeline does in the same situation
    (differential; what a run has to do is judged on the fresh pipelines by law "history")."""
    case = {"law": "reuse", "kind": job["kind"], "p": job["p"], "cfg": job["cfg"], "steps": steps}
    state = {}
    keep = {}
    for n, step in enumerate(steps):
        gone = set(step["delete"])
        pre = {q: v for q, v in state.items() if q not in gone}
        inputs = {"data": step["data"], "tpl": step["tpl"]}
        fresh = sb.execute(job, pre, inputs, [])
        flags_f = [(r["doc"], r["stage"], _flagname(r["flag"])) for r in fresh["taps"]]
        again = sb.execute(job, pre, inputs, [], keep=keep)
        flags_a = [(r["doc"], r["stage"], _flagname(r["flag"])) for r in again["taps"]]
        res.transitions += 2
        if n == len(steps) - 1:
            res.traces += 1
            res.case(nontrivial=n >= 1, outcome=(canon(again["state"]), tuple(flags_a)))
        diff = [k for k in REUSE_KEYS if fresh[k] != again[k]]
        if flags_f != flags_a:
            diff.append("changed-flags")
        if diff:
            if n == len(steps) - 1:      # shorter prefixes are histories of their own
                stale = sorted(os.path.splitext(q)[1][1:] for q in set(fresh["post"]) | set(again["post"])
                               if fresh["post"].get(q) != again["post"].get(q))
                res.violation(case, {k: (sorted(again[k]) if isinstance(again[k], set) else again[k])
                                     for k in diff if k in again},
                              {k: (sorted(fresh[k]) if isinstance(fresh[k], set) else fresh[k])
                               for k in diff if k in fresh},
                              {"law": "pipeline-object-reuse", "differs": sorted(diff), "files": stale,
                               "run": min(n, 2), "pipeline": job["kind"]},
                              note="run %d of one pipeline object differs from a freshly built pipeline" % (n + 1))
            return case
        state = fresh["state"]
    return case


def reuse_histories(job, sb, maxlen, res):
    """All histories of 2..maxlen runs (first run in an empty directory); between runs every subset of
    the files is deleted for the step before the last one judged... for length 3 deletions are
    restricted to nothing or a single file (stated in describe())."""
    inputs0 = all_inputs(job["p"], job.get("alphabet"))
    first = [{"delete": [], "data": i["data"], "tpl": i["tpl"]} for i in inputs0]

    def successors(state, full):
        files = sorted(state)
        dels = deletion_sets(job, files) if full else [[]] + [[q] for q in files]
        return [{"delete": d, "data": i["data"], "tpl": i["tpl"]} for d in dels for i in inputs0]

    for s1 in first:
        st1 = sb.execute(job, {}, {"data": s1["data"], "tpl": s1["tpl"]}, [])["state"]
        for s2 in successors(st1, True):
            last = check_reuse(res, sb, job, [s1, s2])
            if maxlen >= 3 and not s2["delete"] or (maxlen >= 3 and len(s2["delete"]) == 1):
                pre2 = {q: v for q, v in st1.items() if q not in set(s2["delete"])}
                st2 = sb.execute(job, pre2, {"data": s2["data"], "tpl": s2["tpl"]}, [])["state"]
                for s3 in successors(st2, False):
                    last = check_reuse(res, sb, job, [s1, s2, s3])
        res.sample(last, 1)


def _discover_task(args):
    job, state_json, hist = args
    with Sandbox() as sb:
        succ = expand(job, state_from_json(state_json), hist, sb)
    return [(state_to_json(s), step) for c, (s, step) in sorted(succ.items())]


def discover(jobs):
    """Level-synchronous reachability (no judging): all states reachable in fewer than job['runs'] runs.
    Returns a list of (job index, depth, state json, history)."""
    nproc = int(os.environ.get("VERIF_JOBS", "0") or 0) or min(16, os.cpu_count() or 1)
    found = []
    seen = [set([canon({})]) for _ in jobs]
    frontier = [(k, [], []) for k in range(len(jobs))]
    pool = multiprocessing.get_context("fork").Pool(nproc) if nproc > 1 else None
    try:
        depth = 0
        while frontier:
            found.extend((k, depth, sj, hist) for k, sj, hist in frontier)
            todo = [(k, sj, hist) for k, sj, hist in frontier if depth < jobs[k]["runs"] - 1]
            if not todo:
                break
            args = [(jobs[k], sj, hist) for k, sj, hist in todo]
            if pool is not None:
                results = pool.map(_discover_task, args, chunksize=1)
            else:
                results = [_discover_task(a) for a in args]
            nxt = []
            for (k, sj, hist), succ in zip(todo, results):
                for s_json, step in succ:
                    c = canon(state_from_json(s_json))
                    if c not in seen[k]:
                        seen[k].add(c)
                        nxt.append((k, s_json, hist + [step]))
            frontier = nxt
            depth += 1
    finally:
        if pool is not None:
            pool.terminate()
            pool.join()
    return found


# ------------------------------------------------------------------------------------------------
# naming rules, Write's path rule, group_plots
# ------------------------------------------------------------------------------------------------
def naming_elements(reduced):
    """Element specs without position-dependent strings: (letters, spec builder)."""
    specs = []
    fn_opts = (None, "f", "{{name}}f")
    pre_opts = (None, "p_", "{{name}}p_")
    suf_opts = (None, "_s")
    de_opts = ((None, None),) if reduced else ((None, None), ("d", None), (None, "e"), ("d", "e"))
    for fn in fn_opts[1:]:
        for d, e in de_opts:
            specs.append(dict(filename=fn, dirname=d, fileext=e))
    for pr in pre_opts:
        for su in suf_opts:
            for d, e in de_opts:
                if pr is None and su is None and d is None and e is None:
                    continue
                specs.append(dict(prefix=pr, suffix=su, dirname=d, fileext=e))
    out = []
    for s in specs:
        for ov in (False, True):
            t = dict((k, v) for k, v in s.items() if v is not None)
            t["overwrite"] = ov
            out.append(t)
    return out


def _positioned(spec, k):
    """Make the strings of the k-th element of a sequence distinguishable."""
    out = {}
    for key, v in spec.items():
        if key == "overwrite":
            out[key] = v
        elif key == "prefix":
            out[key] = v.replace("p_", "p%d_" % k)
        elif key == "suffix":
            out[key] = v.replace("_s", "_s%d" % k)
        else:
            out[key] = v + str(k)
    return out


NAMING_CONTEXTS = [
    None,
    {},
    {"name": "n"},
    {"output": {"filename": "old"}},
    {"name": "n", "output": {"prefix": "P_"}},
    {"output": {"suffix": "_S"}},
    {"name": "n", "output": {"prefix": "P_", "suffix": "_S", "filename": "old"}},
    {"output": {"dirname": "od", "fileext": "oe"}},
    {"name": "n", "output": {"prefix": "P_", "suffix": "_S"}},
    # names that exist and are empty (an extension-less file in the output directory itself)
    {"output": {"dirname": "", "fileext": ""}},
    {"name": "n", "output": {"filename": "", "prefix": "", "suffix": ""}},
]


def check_naming(res, specs, ctx_index):
    ctx0 = NAMING_CONTEXTS[ctx_index]
    seqspecs = [_positioned(s, k) for k, s in enumerate(specs)]
    case = {"law": "naming", "elements": seqspecs, "context": ctx_index}
    data = 7
    value = data if ctx0 is None else (data, copy.deepcopy(ctx0))
    shape, want_ctx = M.naming_fold(ctx0 is not None, copy.deepcopy(ctx0), seqspecs)
    want = data if shape == "bare" else (data, want_ctx)
    try:
        for s in seqspecs:
            kw = dict(s)
            value = lena.output.MakeFilename(**kw)(value)
        got = value
        ok = got == want and type(got) is type(want)
    except Exception as e:
        got = "raised " + type(e).__name__
        ok = False
    has_names = bool(ctx0 and ctx0.get("output"))
    res.case(nontrivial=has_names or len(specs) > 1, outcome=repr(want))
    if not ok:
        broken = "other"
        go = got[1].get("output", {}) if isinstance(got, tuple) and isinstance(got[1], dict) else {}
        wo = want[1].get("output", {}) if isinstance(want, tuple) else {}
        if isinstance(got, str):
            broken = got
        else:
            for key in ("filename", "dirname", "fileext"):
                init = (ctx0 or {}).get("output", {}).get(key)
                if init is not None and go.get(key) != init and wo.get(key) == init:
                    broken = "existing-name-replaced-without-overwrite"
                    break
            else:
                diff = sorted(k for k in set(go) | set(wo) if go.get(k) != wo.get(k))
                if set(diff) & {"filename", "prefix", "suffix"}:
                    broken = "prefix-suffix-not-applied-exactly-once:" + ",".join(diff)
                elif diff:
                    broken = "keys-differ:" + ",".join(diff)
        res.violation(case, got, want,
                      {"law": "naming", "broken": broken,
                       "overwrite_used": any(s.get("overwrite") for s in seqspecs),
                       "had_output": has_names})
    return case


def check_write_paths(res):
    """Write: full path is output_directory/dirname/filename.fileext (fileext, else filetype, else txt)."""
    with scratch_dir(prefix="lena-verif-c19w-"):
        for fn in (None, "f", "a/f"):
            for dn in (None, "d", "d/e"):
                for fe in (None, "e", ""):
                    for ft in (None, "csv"):
                        for outdir in ("", "o", "o/q"):
                            outc = {}
                            for k, v in (("filename", fn), ("dirname", dn), ("fileext", fe), ("filetype", ft)):
                                if v is not None:
                                    outc[k] = v
                            case = {"law": "write-path", "output": dict(outc), "outdir": outdir}
                            want, wfn, wext = M.write_path(outdir, outc)
                            shutil.rmtree("o", ignore_errors=True)
                            for leftover in ("output", "output.e", "output.txt", "output.csv", "f", "f.e",
                                             "f.txt", "f.csv", "a", "d"):
                                if os.path.isdir(leftover):
                                    shutil.rmtree(leftover)
                                elif os.path.exists(leftover):
                                    os.remove(leftover)
                            try:
                                r = list(lena.output.Write(outdir, verbose=False).run(
                                    [("text", {"output": copy.deepcopy(outc)})]))
                                got = r[0][0] if len(r) == 1 and isinstance(r[0], tuple) else repr(r)
                                gc = r[0][1].get("output", {}) if len(r) == 1 and isinstance(r[0], tuple) else {}
                                ok = (got == want and os.path.isfile(want) and open(want).read() == "text"
                                      and gc.get("filepath") == want and gc.get("filename") == wfn
                                      and gc.get("fileext") == wext)
                            except Exception as e:
                                got, ok = "raised " + type(e).__name__, False
                            res.case(nontrivial=bool(outc), outcome=want)
                            res.sample(case, 1)
                            if not ok:
                                res.violation(case, got, want,
                                              {"law": "write-path", "dirname": dn is not None,
                                               "ext": "fileext" if fe is not None else
                                                      ("filetype" if ft is not None else "default")})


def check_table_pipeline(res):
    """RenderLaTeX with the documented select_data / from_data options on values that carry no output
    sub-context yet, then MakeFilename and Write: every history of up to 3 runs over 2 tables (each run
    keeps or changes the data of each table; one pipeline object for all runs, or a new one per run).
    After every run each yielded path exists with exactly its own table's current text, changed is true
    exactly for the rewritten files, and an unchanged run rewrites nothing."""
    names = ["alpha", "beta"]
    with scratch_dir(prefix="lena-verif-c19t-"):
        os.makedirs("tpl")
        with open(os.path.join("tpl", "tbl.tex"), "w") as f:
            f.write("T \\VAR{x}")

        def build():
            return lena.core.Sequence(
                lena.output.RenderLaTeX("tbl.tex", template_dir="tpl", from_data=True,
                                        select_data=lambda v: isinstance(lena.flow.get_data(v), dict)),
                lena.output.MakeFilename("{{name}}"),
                lena.output.Write("tout", verbose=False))

        datas = list(itertools.product((1, 2), repeat=len(names)))
        for reuse in (False, True):
            for hist in itertools.chain.from_iterable(itertools.product(datas, repeat=n) for n in (1, 2, 3)):
                shutil.rmtree("tout", ignore_errors=True)
                case = {"law": "table-pipeline", "history": [list(h) for h in hist], "one_pipeline_object": reuse}
                pipe = build()
                on_disk = {}
                problem = None
                for r, data in enumerate(hist):
                    if not reuse:
                        pipe = build()
                    vals = [({"x": x}, {"name": nm}) for nm, x in zip(names, data)]
                    before = {q: os.stat(q).st_mtime_ns for q in on_disk}
                    for q in before:
                        os.utime(q, ns=(10 ** 9 * (1 + r), 10 ** 9 * (1 + r)))
                    stamp = {q: os.stat(q).st_mtime_ns for q in on_disk}
                    try:
                        outs = list(pipe.run(iter(vals)))
                    except Exception as e:  # noqa
                        problem = ("raised", type(e).__name__)
                        break
                    want_paths = [os.path.join("tout", nm + ".tex") for nm in names]
                    got_paths = [o[0] if isinstance(o, tuple) else o for o in outs]
                    if got_paths != want_paths:
                        problem = ("paths", got_paths)
                        break
                    if len(set(id(o[1].get("output")) for o in outs)) != len(outs):
                        problem = ("values share one output sub-context", got_paths)
                        break
                    for q, x, o in zip(want_paths, data, outs):
                        text = "T %d" % x
                        if not os.path.isfile(q) or open(q).read() != text:
                            problem = ("content", {q: open(q).read() if os.path.isfile(q) else None, "want": text})
                            break
                        rewritten = q not in stamp or os.stat(q).st_mtime_ns != stamp[q]
                        must = on_disk.get(q) != text
                        if rewritten != must:
                            problem = ("rewritten" if rewritten else "not-rewritten", q)
                            break
                        flag = o[1].get("output", {}).get("changed")
                        if q in on_disk and bool(flag) != must:
                            problem = ("changed-flag", {q: flag, "content_changed": must})
                            break
                        on_disk[q] = text
                    if problem:
                        break
                res.case(nontrivial=len(hist) >= 2, outcome=("table", reuse, repr(problem)))
                if problem:
                    res.violation(case, list(problem), "every table in its own file, rewritten iff its text changed",
                                  {"law": "table-pipeline", "what": problem[0], "one_pipeline_object": reuse})
        res.sample(case, 1)


PDF_AGES = [("missing", None), ("older-2s", -2 * 10 ** 9), ("older-1ms", -10 ** 6), ("same", 0),
            ("newer-1ms", 10 ** 6), ("newer-2s", 2 * 10 ** 9)]


def check_pdf_ages(res):
    """LaTeXToPDF on tex values fed to it directly (documented: without output.changed the modification
    times decide): one or two tex files, every age of the pdf relative to its tex (missing; older or
    newer by a millisecond or by two seconds; the same time), output.changed absent / True / False, both
    overwrite settings. The converter is launched exactly for the files the docstring names, every value
    comes out as its pdf path with output.changed telling whether it was redone."""
    base = T0 * 10 ** 9 + 5 * 10 ** 8         # in the middle of a second: +-1 ms stays inside it
    with scratch_dir(prefix="lena-verif-c19a-"):
        os.makedirs("o")
        for overwrite in (False, True):
            for k in (1, 2):
                for combo in itertools.product(itertools.product(range(len(PDF_AGES)), ("absent", True, False)),
                                               repeat=k):
                    case = {"law": "pdf-ages", "overwrite": overwrite,
                            "files": [[PDF_AGES[a][0], str(ch)] for a, ch in combo]}
                    vals, want_launch = [], []
                    for i, (a, ch) in enumerate(combo):
                        tex, pdf = os.path.join("o", "t%d.tex" % i), os.path.join("o", "t%d.pdf" % i)
                        with open(tex, "w") as f:
                            f.write("tex %d" % i)
                        os.utime(tex, ns=(base, base))
                        if os.path.exists(pdf):
                            os.remove(pdf)
                        delta = PDF_AGES[a][1]
                        if delta is not None:
                            with open(pdf, "w") as f:
                                f.write("old pdf")
                            os.utime(pdf, ns=(base + delta, base + delta))
                        out = {"filetype": "tex"}
                        if ch != "absent":
                            out["changed"] = ch
                        vals.append((tex, {"output": out, "name": "t%d" % i}))
                        if overwrite or delta is None:
                            redo = True
                        elif ch == "absent":
                            redo = delta < 0          # the tex is newer than the pdf
                        else:
                            redo = ch
                        want_launch.append(redo)
                    fine = all(os.stat(v[0]).st_mtime_ns == base for v in vals)
                    env = M.ConverterEnv([])
                    old = _l2p.subprocess
                    _l2p.subprocess = M.FakeSubprocess(env)
                    try:
                        outs = list(lena.output.LaTeXToPDF(overwrite=overwrite, verbose=0).run(iter(vals)))
                        got = ("ok", sorted(t for _, t in env.launches),
                               sorted((o[0], _flag(o[1])) for o in outs))
                    except Exception as e:  # noqa
                        got = ("raised " + type(e).__name__,)
                    finally:
                        _l2p.subprocess = old
                    pdfs = [os.path.join("o", "t%d.pdf" % i) for i in range(k)]
                    want = ("ok", sorted(q for q, r in zip(pdfs, want_launch) if r),
                            sorted((q, r) for q, r in zip(pdfs, want_launch)))
                    if not fine:
                        # a file system that keeps whole seconds only: the millisecond cases say nothing
                        res.count("pdf_ages_skipped_coarse_timestamps")
                        continue
                    res.case(nontrivial=any(PDF_AGES[a][1] is not None and ch == "absent" for a, ch in combo),
                             outcome=("pdf-ages", overwrite, repr(got)))
                    if got != want:
                        sub = [PDF_AGES[a][0] for a, ch in combo if ch == "absent"]
                        res.violation(case, list(got), list(want),
                                      {"law": "pdf-ages", "overwrite": overwrite,
                                       "raised": got[0] if got[0] != "ok" else None,
                                       "sub_second": any("1ms" in x for x in sub) and not any("2s" in x for x in sub)})
        res.sample(case, 1)


FLAG_ORDER = ("absent", False, True)


def check_mapgroup_flags(res):
    """MapGroup: the group's output.changed after the mapped sequence is true if any member's is (and
    not true if none is). Groups of 1..3 members made by group_plots; every member comes with
    output.changed absent / False / True and the mapped sequence leaves it alone or raises it (absent
    to False or True, False to True - what a Write does), in every combination."""
    steps = [(b, a) for kb, b in enumerate(FLAG_ORDER) for a in FLAG_ORDER[kb:]]
    for k in (1, 2, 3):
        for combo in itertools.product(steps, repeat=k):
            before = [b for b, _ in combo]
            after = [a for _, a in combo]
            case = {"law": "mapgroup-flags", "before": [str(f) for f in before], "after": [str(f) for f in after]}
            table = dict(("m%d" % i, a) for i, a in enumerate(after))

            def set_flag(val):
                data, ctx = val
                f = table[ctx["name"]]
                if f != "absent":
                    ctx.setdefault("output", {})["changed"] = f
                return (data, ctx)

            members = []
            for i, b in enumerate(before):
                out = {"filetype": "csv", "filename": "m%d" % i}
                if b != "absent":
                    out["changed"] = b
                members.append(("d%d" % i, {"output": out, "name": "m%d" % i}))
            got_members = None
            try:
                outs = list(lena.flow.MapGroup(set_flag).run([_group_plots(members)]))
                if len(outs) == 1 and isinstance(outs[0], tuple) and len(outs[0]) == 2:
                    got = _flag(outs[0][1])
                    grp = outs[0][1].get("group")
                    got_members = [_flag(c) for c in grp] if isinstance(grp, list) else None
                else:
                    got = "results: %d" % len(outs)
            except Exception as e:
                got = "raised " + type(e).__name__
            want_true = any(a is True for a in after)
            if isinstance(got, str) and got != "absent":
                ok = False
            elif got_members is None or len(got_members) != k or \
                    any(g is not True for g, a in zip(got_members, after) if a is True):
                ok = False      # a member's own true flag stays true in context.group
            else:
                ok = (got is True) if want_true else (got is not True)
            pos = [i for i, a in enumerate(after) if a is True]
            res.case(nontrivial=k > 1, outcome=("mapgroup", tuple(case["after"]), _flagname(got)))
            if not ok:
                res.violation(case, {"group": got, "members": got_members},
                              {"group": True if want_true else "not True", "members": after},
                              {"law": "mapgroup-flags", "element": "MapGroup", "any_member_true": want_true,
                               "members": k,
                               "true_members": "none" if not pos else
                                               ("inner-only" if all(0 < i < k - 1 for i in pos) else "outer")})
    res.sample(case, 1)


WRITE_TEXTS = ("", "x", "x\n", "old")
WRITE_TEXT_NAMES = {"": "empty", "x": "x", "x\n": "x+newline", "old": "old"}


def check_write_content(res):
    """Write alone, one value: every text of WRITE_TEXTS (the empty string is a text) over a file that is
    missing or holds any of these texts, for every existing_unchanged / overwrite setting and
    output.changed absent / False / True on arrival. Afterwards the yielded path exists and holds the
    text (with existing_unchanged an existing file may keep its content); output.changed is true if the
    content changed or if it was true on arrival; with default settings an existing file that already
    holds the text is not rewritten and does not turn output.changed true."""
    with scratch_dir(prefix="lena-verif-c19c-"):
        path = os.path.join("o", "f.txt")
        for mode in WMODES:
            for existing in (None,) + WRITE_TEXTS:
                for text in WRITE_TEXTS:
                    for arriving in FLAG_ORDER:
                        case = {"law": "write-content", "mode": mode, "text": text,
                                "existing": existing, "changed_on_arrival": str(arriving)}
                        shutil.rmtree("o", ignore_errors=True)
                        stamp = None
                        if existing is not None:
                            os.makedirs("o")
                            with open(path, "w") as f:
                                f.write(existing)
                            os.utime(path, ns=(T0 * 10 ** 9, T0 * 10 ** 9))
                            stamp = os.stat(path).st_mtime_ns
                        out = {"filename": "f"}
                        if arriving != "absent":
                            out["changed"] = arriving
                        problem = None
                        flag = None
                        try:
                            r = list(lena.output.Write("o", verbose=False, **WKW[mode]).run([(text, {"output": out})]))
                        except Exception as e:  # noqa
                            problem = "raised " + type(e).__name__
                        if problem is None:
                            if not (len(r) == 1 and isinstance(r[0], tuple) and len(r[0]) == 2 and r[0][0] == path):
                                problem = "yielded-value"
                            else:
                                flag = _flag(r[0][1])
                        if problem is None:
                            if not os.path.isfile(path):
                                problem = "file-missing"
                            else:
                                with open(path) as f:
                                    now = f.read()
                                rewritten = stamp is None or os.stat(path).st_mtime_ns != stamp
                                allowed = [text] + ([existing] if mode == "eu" and existing is not None else [])
                                if now not in allowed:
                                    problem = "content-not-current"
                                elif existing is not None and now != existing and flag is not True:
                                    problem = "content-changed-flag-not-true"
                                elif arriving is True and flag is not True:
                                    problem = "true-on-arrival-lost"
                                elif mode == "default" and existing == text and rewritten:
                                    problem = "unchanged-file-rewritten"
                                elif mode == "default" and existing == text and arriving is not True and flag is True:
                                    problem = "unchanged-file-flag-true"
                        before = "missing" if existing is None else ("same" if existing == text else "different")
                        res.case(nontrivial=existing is not None,
                                 outcome=("write-content", mode, before, str(arriving), _flagname(flag), problem))
                        if problem:
                            res.violation(case, {"problem": problem, "changed": flag,
                                                 "file": _read_or_missing(path)},
                                          {"file": text, "changed": "true iff content changed or true on arrival"},
                                          {"law": "write-content", "mode": mode, "problem": problem,
                                           "before": before, "text": "empty" if text == "" else "non-empty"})
        res.sample(case, 1)


def _read_or_missing(path):
    if not os.path.isfile(path):
        return M.MISSING
    with open(path) as f:
        return f.read()


def check_group_flags(res):
    """group_plots: output.changed of the group is true if any member's is (and not true if none is)."""
    for k in (1, 2, 3):
        for fl in itertools.product(("absent", False, True), repeat=k):
            group = []
            for i, f in enumerate(fl):
                out = {"filetype": "csv"}
                if f != "absent":
                    out["changed"] = f
                group.append(("d%d" % i, {"output": out, "name": "p%d" % i}))
            case = {"law": "group-flags", "flags": list(fl)}
            try:
                data, ctx = _group_plots(copy.deepcopy(group))
                got = _flag(ctx)
            except Exception as e:
                got = "raised " + type(e).__name__
            want_true = any(f is True for f in fl)
            ok = (got is True) if want_true else (got is not True and not str(got).startswith("raised"))
            res.case(nontrivial=k > 1, outcome=(fl, _flagname(got)))
            res.sample(case, 1)
            if not ok:
                res.violation(case, got, True if want_true else "not True",
                              {"law": "group-flags", "element": "group_plots", "any_member_true": want_true})


# ------------------------------------------------------------------------------------------------
# shards
# ------------------------------------------------------------------------------------------------
def shards(tier):
    light, heavy = _plan(tier)
    out = []
    out.append({"kind": "group-flags", "bound": "laws"})
    out.append({"kind": "write-path", "bound": "laws"})
    out.append({"kind": "write-content", "bound": "laws"})
    elems = naming_elements(False)
    if tier == "quick":
        nsh = 8
        for s in range(nsh):
            out.append({"kind": "naming", "maxlen": 2, "reduced": False, "part": [s, nsh], "bound": "laws"})
        for s in range(nsh):
            out.append({"kind": "naming", "maxlen": 3, "minlen": 3, "reduced": True, "part": [s, nsh],
                        "bound": "laws"})
    else:
        for s in range(len(elems)):
            out.append({"kind": "naming", "maxlen": 3, "reduced": False, "part": [s, len(elems)],
                        "bound": "laws"})
    # jobs over the wider alphabets (a plot without rows, three members) go last: a run that is stopped
    # by its time budget has then completed the older bounds first
    wider = [job for job in light if job.get("alphabet") or job.get("first")]
    for job in light:
        if job not in wider:
            out.append({"kind": "explore", "job": job, "bound": "histories"})
    for kind_, p_ in (("plain", 1), ("grouped", 2)):
        out.append({"kind": "reuse", "job": {"kind": kind_, "p": p_, "cfg": _cfg()},
                    "maxlen": 3 if (tier == "thorough" or kind_ == "plain") else 2,
                    "bound": "one pipeline object for all runs"})
    for job in wider:
        out.append({"kind": "explore", "job": job, "bound": "histories: a plot without rows; three members"})
    if heavy:
        found = discover(heavy)
        for k, depth, sj, hist in sorted(found, key=lambda t: (t[1], t[0])):
            nfiles = len(sj)
            nchunks = 4 if (heavy[k]["p"] >= 2 and heavy[k]["kind"] == "plain" and nfiles >= 8) else 1
            for ch in range(nchunks):
                out.append({"kind": "expand", "job": heavy[k], "state": sj, "hist": hist,
                            "chunk": [ch, nchunks], "bound": "histories of <= %d runs" % (depth + 1)})
    return out


def run_shard(p, tier):
    res = Result()
    kind = p["kind"]
    if kind == "group-flags":
        check_group_flags(res)
        check_mapgroup_flags(res)
    elif kind == "write-content":
        check_write_content(res)
    elif kind == "write-path":
        check_write_paths(res)
        check_table_pipeline(res)
        check_pdf_ages(res)
    elif kind == "naming":
        elems = naming_elements(p["reduced"])
        part, nparts = p["part"]
        for n in range(p.get("minlen", 1), p["maxlen"] + 1):
            for idx, combo in enumerate(itertools.product(range(len(elems)), repeat=n)):
                if combo[0] % nparts != part:
                    continue
                for ci in range(len(NAMING_CONTEXTS)):
                    case = check_naming(res, [elems[i] for i in combo], ci)
                if idx % 997 == 0:
                    res.sample(case, 2)
    elif kind == "explore":
        explore_job(p["job"], res)
    elif kind == "reuse":
        with Sandbox() as sb:
            reuse_histories(p["job"], sb, p["maxlen"], res)
    elif kind == "expand":
        job = p["job"]
        table = M.symbols(job["kind"], job["p"])
        with Sandbox() as sb:
            if p["chunk"][0] == 0:
                res.states += 1
            expand(job, state_from_json(p["state"]), p["hist"], sb, res, chunk=tuple(p["chunk"]), table=table)
    else:
        raise ValueError(kind)
    return res


def replay(case):
    res = Result()
    law = case.get("law")
    if law == "history":
        job = {"kind": case["kind"], "p": case["p"], "cfg": case["cfg"]}
        table = M.symbols(job["kind"], job["p"])
        state = {}
        with Sandbox() as sb:
            steps = case["steps"]
            for n, step in enumerate(steps):
                gone = set(step["delete"])
                pre = {q: v for q, v in state.items() if q not in gone}
                inputs = {"data": step["data"], "tpl": step["tpl"]}
                obs = sb.execute(job, pre, inputs, step.get("polls", []))
                if n == len(steps) - 1:
                    for cause, observed, expected, note in judge(
                            job, {q: c for q, (c, _) in pre.items()}, inputs, obs):
                        res.violation(case, observed, expected, cause,
                                      note or ("state after the run: %s" % symbolic(obs["state"], table)))
                state = obs["state"]
    elif law == "reuse":
        job = {"kind": case["kind"], "p": case["p"], "cfg": case["cfg"]}
        with Sandbox() as sb:
            check_reuse(res, sb, job, case["steps"])
    elif law == "naming":
        # elements are stored with their positioned strings: undo the positioning by direct use
        seqspecs = case["elements"]
        _replay_naming(res, seqspecs, case["context"])
    elif law == "table-pipeline":
        check_table_pipeline(res)
        return [v for v in result_violations(res) if v["case"].get("history") == case.get("history")
                and v["case"].get("one_pipeline_object") == case.get("one_pipeline_object")]
    elif law == "write-path":
        check_write_paths(res)
        return [v for v in result_violations(res) if v["case"] == case] or \
               [v for v in result_violations(res) if v["case"].get("output") == case.get("output")]
    elif law == "group-flags":
        check_group_flags(res)
        return [v for v in result_violations(res) if v["case"].get("flags") == case.get("flags")]
    elif law == "mapgroup-flags":
        check_mapgroup_flags(res)
        return [v for v in result_violations(res) if v["case"] == case]
    elif law == "write-content":
        check_write_content(res)
        return [v for v in result_violations(res) if v["case"] == case]
    elif law == "pdf-ages":
        check_pdf_ages(res)
        return [v for v in result_violations(res) if v["case"] == case]
    return result_violations(res)


def _replay_naming(res, seqspecs, ctx_index):
    # rebuild the un-positioned specs so that check_naming re-applies the same positioning
    specs = []
    for k, s in enumerate(seqspecs):
        t = {}
        for key, v in s.items():
            if key == "overwrite":
                t[key] = v
            elif key == "prefix":
                t[key] = v.replace("p%d_" % k, "p_")
            elif key == "suffix":
                t[key] = v.replace("_s%d" % k, "_s")
            else:
                t[key] = v[:-len(str(k))]
        specs.append(t)
    check_naming(res, specs, ctx_index)


LEVEL_TEXT = ("explicit-state model checking of the output directory: breadth-first search with de-duplication "
              "over directory states (path, content, age rank); every transition (subset of files deleted x data "
              "per plot x template x stub-converter poll answers) out of every state reached within the run bound "
              "is executed on a freshly built real pipeline and judged against a model of the property statement; "
              "1-plot pipelines are explored to closure for all 36 existing_unchanged/overwrite settings")
LEVEL_NOTE = ("pdflatex/pdftoppm are stubs (digest-like contents, exit status 0); data and templates are two-valued "
              "(three data values, one of them without rows, in the 1-plot jobs of the thorough tier); "
              "2- and 3-plot and grouped pipelines are bounded by the number of runs, not explored to closure; "
              "MakeFilename rules, Write's content rule and MapGroup's flag rule are exhaustive enumerations "
              "(sequences of <= 3 elements; texts x earlier contents x settings; flag patterns of <= 3 members), "
              "not a state search")
TECHNIQUE = ("history explorer over a directory (E5): explicit-state BFS with canonical directory snapshots, stub "
             "subprocess owning converter completion, sentinel mtimes owning file ages")
