"""C13 - Static context seen by an element depends only on what encloses and precedes it.

Bounded exhaustive enumeration (driver E1) of Sequence / Source / Split trees; every tree is built from
fresh real lena objects and judged by

  fold        what every consumer (StoreContext, UpdateContextFromStatic, MakeFilename, Write, Cache)
              derived equals what the reference fold of mc/ref/c13_model.py (the property statement read
              literally; set-valued where the statement is silent) allows at that position, and the
              context every Sequence / Source / Split exports equals the fold's result;
  causal      differential, no expected value: the consumer at position p observes exactly the same in
              the tree reduced to what encloses and precedes p (later elements dropped, sibling branches
              dropped) - so no later or sibling element changed what it saw or the name it derived;
  key-error   a tree whose fold meets an unresolvable formatting key raises LenaKeyError naming that key
              from _get_context() of the sequence in which it is unresolvable (and of the enclosing ones
              whose own input was resolvable); _get_context() hands out a private copy;
  no-leak     one value is run through the whole tree: the part of every run-time context (at every
              data element and at the output) that lies under a static key is what the run-time model
              predicts from the UpdateContextFromStatic elements alone.

Three families of trees (see describe()):
  A "placeholder": leaves over the full alphabet, an observer placeholder O among them, every structural
     form (nested Sequence / Split, Source roots and branches, tuple / bare / accumulator branches, empty
     nodes); O is replaced uniformly by each consumer kind, and for trees with two placeholders by every
     ordered pair of kinds;
  B "saturated": leaves are SetContext elements only; a consumer of one kind is inserted at *every*
     position of every element list (before, between and after the items), for every consumer kind, and
     once with no consumers at all;
  W "wide Split": one Split of exactly k branches (k = 3 quick, 3 and 4 thorough), every branch any member
     of a pool of branch forms (empty, one key, another key, both keys, the first key with another value,
     a nested key, a bare SetContext, a bare accumulator) - all pool**k branch lists, so that every
     pattern of agreement between a first, middle and last branch occurs; the Split is the root or stands
     after a prefix in a Sequence / Source; consumers are inserted as in family B.

The consumers that work on values are observed over a small flow of values through the ONE element object
(c13_model.M_PROBES, U_PROBES): values without a context, with a key that only the run-time context holds,
with keys the static context holds too (top level and nested), and without a context again. Every
MakeFilename has two fields: the file name (keys of the static context) and a directory name whose template
takes one key from the static context and one that only a value brings. Each field must be its template
resolved against the static context the element was given (the fold) together with the value's context,
the latter taking precedence, and nothing but *output* may arrive in the value's context.
"""
import copy
import itertools
import json

import lena.core

from mc.core import Result, result_violations
from mc.instrument import scratch_dir
from mc.ref import c13_model as M
from mc.ref import c13_build as B

SIBLING_LABELS_DOC = ("A:d2:n1", "A:d2:n2", "B:d2:n1", "B:d2:n2", "B:d3:n1")
ID = "C13"
LEVEL = "exploration"
DESIGN_REF = "DESIGN.md section 5, C13"
RULE = ("every tree of the bounded grammar is built once from fresh lena objects per consumer assignment; "
        "a tree is non-trivial when a consumer sees a non-empty static context and a SetContext exists "
        "that lies after it or in a sibling branch (something that could interfere), or when the tree "
        "contains an unresolvable formatting key; trees are distinct by construction of the enumeration "
        "(family W: every list of k branches over the pool once per root form)")
ASSUMPTIONS = [
    "static keys are Ka, Kb, Kn.a, Kn.b; values are constants (1, '', 3, None) or one-field templates '{{k}}_x'",
    "observations: StoreContext.context, the run-time contexts after UpdateContextFromStatic (flow of 3 "
    "values: no context, a run-time-only key rt, no context), the file and directory names MakeFilename "
    "produces and what else it leaves in the value's context (4 values through one element: no context, "
    "rt, Ka and Kn.a, no context), Write.output_directory, Cache._filename, node._get_context()",
    "MakeFilename: 'the run-time context has higher precedence' - whether a run-time sub-dictionary replaces "
    "the static one or is merged into it is not stated: both accepted; file name templates have one or two "
    "keys of the static context, the directory name template 'd_{{k}}-{{rt}}' one static key and one (rt) "
    "that only the value holds",
    "family W: one Split of 3 (thorough: also 4) branches from a pool of 8 branch forms, prefixes none / "
    "SetContext(Ka) / SetContext(Kn.b); it stands alone, in a Sequence or in a Source",
    "whether the intersection exported by a Split keeps an empty sub-dictionary, and whether a branch "
    "without any static-context method takes part in the intersection, is not stated: both accepted",
    "what a consumer placed after an unresolvable key inside the same sequence holds is not stated: "
    "there only the causal (differential) law is judged",
    "law 'siblings' (families " + ", ".join(SIBLING_LABELS_DOC) + "): deep copies of one element that was never put "
    "into a sequence are independent elements (tests/core/test_static_context.py copies sequences the same "
    "way); history: copies form the tree, then copies of the same templates form, per SetContext leaf, the "
    "variant in which that leaf sets the unrelated key Kz; judged differentially against fresh builds only",
    "data elements pass every value on after writing its data under context.Kn (in place) if a dictionary is there; the run-time law uses two input values",
]
NONTRIVIAL_FLOOR = {"quick": 20000, "thorough": 200000}
BUDGET_S = {"quick": 300, "thorough": 3300}

S_CORE = [["S", "Ka", 1], ["S", "Kb", ""], ["S", "Ka", "{{Kb}}_x"]]
S_MORE = [["S", "Kn.a", 3], ["S", "Kb", None], ["S", "Kb", "{{Ka}}_x"], ["S", "Kn.b", "{{Kn.a}}_x"]]
CONSUMER_VARIANTS = [["St"], ["U"], ["M", "Ka"], ["M", "Kb+Ka"], ["W", "Ka"], ["W", "Ka+Kb"], ["C", "Ka"],
                     ["C", "Kb+Ka"], ["M", "Kn.b+Kn.a"], ["W0", "Kb"]]

# law 'siblings' (deep copies of one template element are independent) is judged in these families
SIBLING_LABELS = SIBLING_LABELS_DOC

# family W: branches a wide Split is made of, and what may stand before it
W_POOL = [["t", []], ["t", [["S", "Ka", 1]]], ["t", [["S", "Kb", ""]]], ["t", [["S", "Ka", 1], ["S", "Kb", ""]]],
          ["t", [["S", "Ka", 3]]], ["t", [["S", "Kn.a", 3]]], ["bare", ["S", "Ka", 1]], ["acc"]]
W_PREFIXES = [[], [["S", "Ka", 1]], [["S", "Kn.b", 3]]]


# ------------------------------------------------------------------------------------------------
# enumeration
# ------------------------------------------------------------------------------------------------
class Grammar(object):
    def __init__(self, alpha, br=("t", "bare", "acc"), empties=False):
        self.alpha, self.br, self.empties = alpha, br, empties

    def items(self, depth, n):
        if n == 1:
            for l in self.alpha:
                yield l
            if depth > 0 and self.empties:
                yield ["seq", []]
                yield ["split", []]
        if depth > 0 and n >= 1:
            for lst in self.item_lists(depth - 1, n):
                yield ["seq", lst]
            for brs in self.branch_lists(depth - 1, n):
                yield ["split", brs]

    def item_lists(self, depth, n):
        if n == 0:
            yield []
            return
        for k in range(1, n + 1):
            for first in self.items(depth, k):
                for rest in self.item_lists(depth, n - k):
                    yield [first] + rest

    def branch(self, depth, n):
        if n == 1:
            if "bare" in self.br:
                for l in self.alpha:
                    yield ["bare", l]
            if "acc" in self.br:
                yield ["acc"]
            if self.empties:
                yield ["t", []]
                if "src" in self.br:
                    yield ["src", []]
        for lst in self.item_lists(depth, n):
            yield ["t", lst]
            if "src" in self.br:
                yield ["src", lst]

    def branch_lists(self, depth, n):
        if n == 0:
            yield []
            return
        for k in range(1, n + 1):
            for first in self.branch(depth, k):
                for rest in self.branch_lists(depth, n - k):
                    yield [first] + rest

    def roots(self, depth, n):
        for lst in self.item_lists(depth - 1, n):
            yield ["seq", lst]
            yield ["src", lst]
        for brs in self.branch_lists(depth - 1, n):
            yield ["split", brs]


class WideGrammar(object):
    """One Split of exactly k branches, every branch any member of the pool (all pool**k lists): as the
    root, after each prefix in a Sequence, and after the second prefix in a Source."""

    def __init__(self, pool, prefixes):
        self.pool, self.prefixes = pool, prefixes

    def roots(self, depth, k):
        for brs in itertools.product(self.pool, repeat=k):
            split = ["split", [copy.deepcopy(br) for br in brs]]
            yield split
            for pre in self.prefixes:
                yield ["seq", copy.deepcopy(pre) + [copy.deepcopy(split)]]
            yield ["src", copy.deepcopy(self.prefixes[1]) + [copy.deepcopy(split)]]


def _families(tier):
    """(label, family, grammar, depth, n) simplest first (family W: n = number of branches)."""
    wide = WideGrammar(W_POOL, W_PREFIXES)
    fa_quick = Grammar(S_CORE + S_MORE[:2] + [["O"], ["D"]], br=("t", "bare", "acc", "src"), empties=True)
    fa_thor = Grammar(S_CORE + S_MORE + [["O"], ["D"]], br=("t", "bare", "acc", "src"), empties=True)
    fb_quick = Grammar(S_CORE + S_MORE[:2] + S_MORE[3:4])
    fb_thor = Grammar(S_CORE + S_MORE[:2] + S_MORE[3:4])
    fb_small = Grammar(S_CORE)
    out = []
    if tier == "quick":
        for n in (0, 1, 2):
            out.append(("A:d2:n%d" % n, "A", fa_quick, 2, n))
        for n in (1, 2, 3):
            out.append(("B:d2:n%d" % n, "B", fb_quick if n < 3 else fb_small, 2, n))
        for n in (1, 2):
            out.append(("B:d3:n%d" % n, "B", fb_quick if n < 2 else fb_small, 3, n))
        out.append(("W:d2:k3", "W", wide, 2, 3))
    else:
        for n in (0, 1, 2):
            out.append(("A:d2:n%d" % n, "A", fa_thor, 2, n))
        for n in (1, 2, 3):
            out.append(("B:d2:n%d" % n, "B", fb_thor, 2, n))
        for n in (1, 2):
            out.append(("B:d3:n%d" % n, "B", fb_thor, 3, n))
        out.append(("W:d2:k3", "W", wide, 2, 3))
        out.append(("W:d2:k4", "W", wide, 2, 4))
        out.append(("A:d2:n3", "A", fa_quick, 2, 3))
        out.append(("B:d2:n4", "B", fb_small, 2, 4))
        out.append(("B:d3:n3", "B", fb_small, 3, 3))
    return out


def describe(tier):
    fams = _families(tier)
    return ("families (label = family:depth:number of leaves): %s; family A: leaves over SetContext x%d, "
            "placeholder O, data element D, all node / branch forms incl. empty ones and Source branches, O "
            "replaced uniformly by each of the %d consumer variants and pairwise for two placeholders; "
            "family B: SetContext leaves only, a consumer of one variant (or none) inserted at every "
            "position of every element list; family W (label W:depth:number of branches): one Split of "
            "exactly k branches, all %d**k branch lists over a pool of branch forms, as root / after each of "
            "%d prefixes in a Sequence / in a Source, consumers inserted as in family B; MakeFilename and "
            "UpdateContextFromStatic are observed over %d / %d values with different run-time contexts"
            % (", ".join(f[0] for f in fams), len(fams[0][2].alpha) - 2, len(CONSUMER_VARIANTS),
               len(W_POOL), len(W_PREFIXES), len(M.M_PROBES), len(M.U_PROBES)))


NSHARD = {"A:d2:n2": 8, "A:d2:n3": 128, "B:d2:n3": 16, "B:d2:n4": 128, "B:d3:n2": 8, "B:d3:n3": 128,
          "W:d2:k3": 4, "W:d2:k4": 32}


def shards(tier):
    out = []
    for label, fam, g, depth, n in _families(tier):
        k = NSHARD.get(label, 1)
        if tier == "quick":
            k = min(k, 16)
        for m in range(k):
            out.append({"bound": label, "mod": m, "of": k})
    return out


# ------------------------------------------------------------------------------------------------
# consumer assignment
# ------------------------------------------------------------------------------------------------
def _o_paths(tree):
    return [p for p, s in M.walk(tree) if s[0] == "O"]


def _subst(tree, mapping, counter=None):
    """Replace the i-th placeholder (document order) by mapping[i]."""
    if counter is None:
        counter = [0]
    kind = tree[0]
    if kind == "O":
        v = mapping[counter[0]]
        counter[0] += 1
        return list(v)
    if kind in ("seq", "src", "split", "t"):
        return [kind, [_subst(ch, mapping, counter) for ch in tree[1]]]
    if kind == "bare":
        return ["bare", _subst(tree[1], mapping, counter)]
    return tree


def _saturate(tree, cons):
    """*cons*: one consumer leaf, or ["+", leaf, leaf ...] for several leaves per position."""
    kind = tree[0]
    ins = [list(x) for x in cons[1:]] if cons[0] == "+" else [list(cons)]
    if kind in ("seq", "src", "t"):
        out = [list(x) for x in ins]
        for ch in tree[1]:
            out.append(_saturate(ch, cons))
            out.extend(list(x) for x in ins)
        return [kind, out]
    if kind == "split":
        return ["split", [_saturate(br, cons) for br in tree[1]]]
    return tree


def assignments(fam, tree):
    """The concrete trees judged for one enumerated tree."""
    if fam in ("B", "W"):
        yield tree
        for cv in CONSUMER_VARIANTS:
            yield _saturate(tree, cv)
        # UpdateContextFromStatic followed by a data element that writes in place, everywhere
        yield _saturate(tree, ["+", ["U"], ["D"]])
        return
    k = len(_o_paths(tree))
    if k == 0:
        yield tree
        return
    for cv in CONSUMER_VARIANTS:
        yield _subst(tree, [cv] * k)
    if k == 2:
        for a, b in itertools.permutations(CONSUMER_VARIANTS, 2):
            yield _subst(tree, [a, b])


# ------------------------------------------------------------------------------------------------
# judging one concrete tree
# ------------------------------------------------------------------------------------------------
def _position(tree, path):
    """Coarse structural description of a position: inside a Split branch / after a Split / plain."""
    cur, inside, after = tree, False, False
    for i in path:
        kind = cur[0]
        if kind == "split":
            inside = True
        if kind in ("seq", "src", "t"):
            if any(x[0] == "split" for x in cur[1][:i]):
                after = True
        cur = cur[1] if kind == "bare" else cur[1][i]
    return "in-branch" if inside else ("after-split" if after else "plain")


def _norm(obs):
    if isinstance(obs, dict):
        return M.prune_empty(obs)
    if isinstance(obs, (list, tuple)):
        return [_norm(x) for x in obs]
    return obs


def _has_err(outs):
    return any(o[0] == "err" for o in outs)


class Judge(object):
    def __init__(self):
        self.memo = {}
        self.allowed_memo = {}

    def allowed(self, spec, seen):
        """(no outcome in *seen* is an error, some context in it is non-empty, the observations the model
        allows for the consumer *spec*, the same normalised) - a pure function of its arguments."""
        key = (json.dumps(spec), tuple(sorted(seen)))
        if key not in self.allowed_memo:
            if len(self.allowed_memo) > 100000:
                self.allowed_memo.clear()
            ctxs = M.definite(seen)
            if ctxs is None:
                self.allowed_memo[key] = (False, False, None, None)
            else:
                allowed = [a for c in ctxs for a in M.expected_observations(spec, c)]
                self.allowed_memo[key] = (True, any(c for c in ctxs), allowed, [_norm(a) for a in allowed])
        return self.allowed_memo[key]

    def pruned_observation(self, tree, path, spec):
        pr = M.prune(tree, path)
        pp = M.prune_path(tree, path)
        key = json.dumps([pr, list(pp)])
        if key not in self.memo:
            if len(self.memo) > 200000:
                self.memo.clear()
            try:
                b2 = B.build(pr)
                self.memo[key] = ("ok", B.observe_leaf(spec, pp, b2))
            except Exception as e:
                self.memo[key] = ("exc", type(e).__name__)
        return self.memo[key]

    def siblings(self, tree, main_obs, bad, res):
        """Law 'siblings': elements that are deep copies of one never-threaded template element are
        independent.  History: the templates are made; copies of them form *tree*; then, for every
        SetContext leaf, copies of the same templates form the variant of *tree* in which that
        SetContext sets the unrelated key Kz instead.  Every consumer of a variant must show what
        it shows when the variant is built from fresh objects, and the consumers of the first copy,
        looked at after all that, what they show in a fresh build of *tree* (*main_obs*)."""
        cons = [(p, s) for p, s in M.leaves(tree) if s[0] in M.CONSUMERS]
        sets = [p for p, s in M.leaves(tree) if s[0] == "S"]
        if not cons or not sets:
            return
        try:
            tmpl = B.templates(tree)
            first = B.build(tree, tmpl)
        except Exception as e:
            bad("siblings", "raised " + type(e).__name__, "copies of fresh elements form the tree",
                stage="first copy")
            return

        def look(b, p, s):
            try:
                return ("ok", B.observe_leaf(s, p, b))
            except Exception as e:
                return ("exc", type(e).__name__)

        for sp in sets:
            variant = copy.deepcopy(tree)
            leaf = variant
            for i in sp:
                leaf = leaf[1] if leaf[0] == "bare" else leaf[1][i]
            leaf[1] = "Kz"
            res.count("sibling variants")
            try:
                fresh = B.build(variant)
            except Exception:
                continue
            try:
                sib = B.build(variant, tmpl)
            except Exception as e:
                bad("siblings", "raised " + type(e).__name__, "built as from fresh elements",
                    stage="variant", variant=variant)
                continue
            for p, s in cons:
                a, f = look(sib, p, s), look(fresh, p, s)
                if a != f:
                    bad("siblings", {"path": list(p), "copy_of_template": a, "fresh": f,
                                     "variant": variant},
                        "the same observation in both", consumer=s[0], stage="variant")
        for (p, s), want in zip(cons, main_obs):
            a = look(first, p, s)
            if a != want:
                bad("siblings", {"path": list(p), "first_copy_afterwards": a, "fresh": want},
                    "the same observation in both", consumer=s[0], stage="first copy afterwards")

    def judge(self, res, tree, directory, siblings=False):
        case = {"tree": tree}
        if siblings:
            case["siblings"] = True
        viol = []

        def bad(law, observed, expected, **cause):
            c = {"law": law}
            c.update(cause)
            viol.append((c, observed, expected))

        fold = M.Fold(tree)
        try:
            b = B.build(tree)
        except lena.core.LenaTypeError:
            # an ill-typed program (e.g. a tuple branch that lena reads as a FillComputeSeq whose
            # earlier elements cannot be filled into): outside the property's quantifier
            res.count("ill-typed trees skipped")
            return case
        except Exception as e:
            bad("construction", "raised " + type(e).__name__, "the tree is constructed",
                exc=type(e).__name__)
            b = None
        nontrivial = _has_err(fold.root_out)
        outcome = []
        if b is not None:
            # ---- consumers ----------------------------------------------------------------------
            for path, spec in M.leaves(tree):
                if spec[0] not in M.CONSUMERS:
                    continue
                pos = _position(tree, path)
                try:
                    obs = ("ok", B.observe_leaf(spec, path, b))
                except Exception as e:
                    obs = ("exc", type(e).__name__)
                outcome.append(obs)
                definite, nonempty, allowed, allowed_norm = self.allowed(spec, fold.seen[path])
                if definite:
                    if nonempty and any(s[0] == "S" for _, s in M.outside_prefix(tree, path)):
                        nontrivial = True
                    if obs[0] != "ok" or _norm(obs[1]) not in allowed_norm:
                        bad("fold", {"path": list(path), "observed": obs}, allowed,
                            consumer=spec[0], position=pos)
                twin = self.pruned_observation(tree, path, spec)
                if twin != obs:
                    bad("causal", {"path": list(path), "in_tree": obs, "in_prefix_only": twin,
                                   "prefix": M.prune(tree, path)},
                        "the same observation in both", consumer=spec[0], position=pos,
                        upstream_error=not definite)
            if siblings:
                self.siblings(tree, list(outcome), bad, res)
            # ---- nodes --------------------------------------------------------------------------
            for path, spec in M.nodes(tree):
                if _has_err(fold.seen[path]):
                    continue
                after = fold.after[path]
                got = B.observe_node(path, b)
                outcome.append(got[:2] if got[0] != "ok" else got)
                okc = [_norm(M.dec(o[1])) for o in sorted(after) if o[0] == "ok"]
                errk = [o[1] for o in sorted(after) if o[0] == "err"]
                if got[0] == "ok":
                    if _norm(got[1]) not in okc:
                        bad("node-context", {"path": list(path), "observed": got[1]},
                            {"ok": okc, "LenaKeyError naming": errk}, node=spec[0],
                            expected_error=bool(errk and not okc))
                elif got[0] == "exc":
                    if not (got[1] == "LenaKeyError" and any(k in got[2] for k in errk)):
                        bad("key-error", {"path": list(path), "observed": list(got)},
                            {"ok": okc, "LenaKeyError naming": errk}, node=spec[0], exc=got[1])
                else:
                    bad("get-context-private", {"path": list(path), "observed": list(got)},
                        "_get_context() returns the same context after the caller changed the first result",
                        node=spec[0])
            # ---- run time -----------------------------------------------------------------------
            ucfs = {}
            for path, spec in M.leaves(tree):
                if spec[0] == "U":
                    ucfs[path] = copy.deepcopy(b.objs[path]._context)
            model = M.RunModel(tree, ucfs, b.src_data)
            try:
                outs = ("ok", M.multiset(B.run_whole(tree, b)))
            except Exception as e:
                outs = ("exc", type(e).__name__)
            B.cleanup_files(directory)
            outcome.append(outs)
            want = ("ok", M.multiset(model.outputs))
            if outs != want:
                bad("no-leak", {"outputs": outs}, {"outputs": want}, where="output",
                    has_ucfs=bool(ucfs), exc=outs[1] if outs[0] == "exc" else None)
            else:
                for path, spec in M.leaves(tree):
                    if spec[0] != "D":
                        continue
                    got = M.multiset(b.objs[path].log)
                    exp = M.multiset(model.probe_logs.get(path, []))
                    if got != exp:
                        bad("no-leak", {"path": list(path), "at_data_element": got}, exp, where="element",
                            has_ucfs=bool(ucfs), exc=None)
        res.case(nontrivial=nontrivial, outcome=outcome)
        for cause, observed, expected in viol:
            res.violation(case, observed, expected, cause)
        return case


def run_shard(p, tier):
    res = Result()
    fam = [f for f in _families(tier) if f[0] == p["bound"]][0]
    label, family, g, depth, n = fam
    j = Judge()
    with scratch_dir() as d:
        for idx, tree in enumerate(g.roots(depth, n)):
            if idx % p["of"] != p["mod"]:
                continue
            res.count("trees:" + label)
            last = None
            for concrete in assignments(family, tree):
                last = j.judge(res, concrete, d, siblings=label in SIBLING_LABELS)
            if idx % 97 == p["mod"] % 97:
                res.sample(last, 2)
    return res


def replay(case):
    res = Result()
    with scratch_dir() as d:
        Judge().judge(res, case["tree"], d, siblings=bool(case.get("siblings")))
    return result_violations(res)


LEVEL_TEXT = ("bounded exhaustive exploration of programs: every Sequence/Source/Split tree of the bounded "
              "grammar (depth <= 2 with <= 3 leaves in the quick tier, depth <= 3 / <= 4 leaves thorough; "
              "SetContext with constant and formatting values, StoreContext, UpdateContextFromStatic, "
              "MakeFilename, Write, Cache, data elements at every position; in addition every Split of 3 "
              "(thorough: 4) branches over a pool of 8 branch forms) is built from real lena objects "
              "and judged against a reference fold, against its own prefix-only reduction (causality), for "
              "the LenaKeyError contract and for run-time leaks; MakeFilename and UpdateContextFromStatic "
              "are observed over a flow of values with and without run-time keys of their own; in the families "
              "of at most 2 leaves the consumers are also built as deep copies of common template elements "
              "(siblings made from one template) in two different contexts one after the other and compared "
              "with fresh builds")
LEVEL_NOTE = ("holds for the enumerated grammar only; the reference fold is set-valued where the statement is "
              "silent (context-less branches in a Split, empty sub-dictionaries of an intersection); what a "
              "consumer holds after an unresolvable key is judged by the differential law only; for "
              "MakeFilename both readings of 'the run-time context has higher precedence' (a run-time "
              "sub-dictionary replaces / is merged into the static one) are accepted")
TECHNIQUE = ("exhaustive enumeration of bounded program trees executed on the real code, judged by a "
             "reference fold (for MakeFilename: static fold joined with each value's run-time context) and by "
             "a prefix-reduction differential; a copy-of-template versus fresh-element differential over a "
             "two-step history")
