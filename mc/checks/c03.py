"""C03 - Split.run follows its documented block/branch schedule for every branch mix.

Exhaustive enumeration (driver E1). Laws, each judged on the real lena code:

  run                  Split(branches, bufsize, copy_buf).run(flow) equals the output of the reference
                       interpreter of the documented schedule (mc/ref/c03_model.py), which drives
                       fresh real branch objects; every branch list over 13 tagged factories (Source,
                       fill/compute, fill/request, plain Sequence; tuple, bare and explicit forms;
                       LenaStopFill at every fill index), every bufsize in {1..n+1, 1000, None}, both
                       copy_buf, flows 1..n.
  run (further forms)  the same law for branch lists in which one branch has a further FORM of its
                       kind: an instance of a user subclass of Source / FillComputeSeq / FillRequestSeq
                       / Sequence, or a Split given as a branch (every inner list of length 0..2 over
                       one branch per kind; its kind follows from the Split docstring: common
                       fill/compute or fill/request type, else an element with run).
  bufsize-independence the per-branch (per-tag) results of fill/compute and per-value (map / filter)
                       branches are the same for every bufsize (relation between real runs only).
  empty-identity       Split([]).run(flow) yields the values it receives.
  common-fc/-fr/-source Split of one branch type: fill+compute, fill+request, __call__ equal the
                       concatenation of the branches' own methods, over every event history; the
                       branches include subclass instances and nested Splits of that type.
  zip-fc/-fr           Zip of such branches yields the tuples of the i-th results, stops at the
                       shortest, every branch context recoverable from context and context.zip[i].
"""
import copy
import itertools
import json

import lena.core
import lena.flow

from mc.core import Result, result_violations
from mc.ref import c03_model as M

ID = "C03"
LEVEL = "exploration"
DESIGN_REF = "DESIGN.md section 5, C03"
RULE = ("every (branch list, stop indices, flow length, bufsize, copy_buf) of the bounds is built fresh "
        "and executed once on the real Split and compared with the reference schedule driven on fresh "
        "real branches; a run case is non-trivial when at least two branches meet at least two blocks, "
        "or a LenaStopFill actually fired, or at least two branches meet an empty flow; a common-type / "
        "Zip history is non-trivial when at least two branches are filled before results are taken; "
        "cases are distinct by construction of the enumeration")
ASSUMPTIONS = [
    "flows are lists of the distinct integers 1..n (the schedule does not depend on the values; contexts "
    "in the flow and branches that mutate values belong to C04)",
    "branches never share state and never mutate their input, so copy_buf may not change the output",
    "every branch output is a (tag, payload) pair; 13 factories: src; fc_sum, fc_acc, fc_stop(j); "
    "fr1_tuple, fr2_seq, fr_req, fr_stop(j), fr_stop_tuple(j); seq_map, seq_filter, seq_marker, seq_sum",
    "further forms of a branch, each next to the 13 factories in lists of length 1..2 (thorough 1..3): "
    "instances of plain user subclasses (no overridden method) of Source, FillComputeSeq, FillRequestSeq "
    "and Sequence; a Split as a branch, for every inner branch list of length 0..2 over {map, Sum, "
    "fill/request element, Source} except lists of Sources only (the statement does not say whether a "
    "callable Split is a Source branch): per the Split docstring it is a fill/compute (fill/request) "
    "branch when its branches share that type and a plain run element otherwise; the reference drives "
    "the real inner Split through these documented methods only; inner Splits have the default bufsize",
    "two points the statement leaves open are accepted in both readings: compute() results of a "
    "fill/compute branch that signalled LenaStopFill may come where it stopped or with the final "
    "computes; on an empty flow the single invocations may come in branch order or computes last",
    "common-type methods and Zip are driven with branches that never signal LenaStopFill (the "
    "statement does not say what a common fill does then); FillRequest adapters use buffer_input=True "
    "and are driven identically in the reference, so FillRequest's own defects (C16) are not visible",
    "empty Split: the same objects are demanded for copy_buf=False, equal values for copy_buf=True",
    "exceptions are compared by type only",
]
NONTRIVIAL_FLOOR = {"quick": 50000, "thorough": 1000000}
BUDGET_S = {"quick": 240, "thorough": 3000}

Split = lena.core.Split


def _dom(tier):
    if tier == "thorough":
        return dict(L=4, FL=3, N=5, H=6, CL=4, ZL=4, ZN=5, ZH=5)
    return dict(L=3, FL=2, N=4, H=5, CL=3, ZL=3, ZN=4, ZH=4)


def describe(tier):
    d = _dom(tier)
    return ("run: branch lists of length 1..%(L)d over 13 factories, every stop index 0..n-1 for every "
            "stopping branch, flows of length 0..%(N)d, bufsize in {1..n+1, 1000, None}, copy_buf in "
            "{True, False}; the same for lists of length 1..%(FL)d with one of 23 further forms "
            "(4 subclass instances, 19 nested Splits) next to the 13 factories; "
            "empty Split on flows 0..%(N)d; common-type lists of length 1..%(CL)d (also with subclass "
            "instances and nested Splits) with "
            "every fill/compute (fill/request) history of up to %(H)d events; Zip lists of length "
            "1..%(ZL)d, flows 0..%(ZN)d, request histories up to %(ZH)d events" % d)


def _flow(n):
    return list(range(1, n + 1))


def _bufsizes(n):
    return list(range(1, n + 2)) + [1000, None]


def _bs(b):
    return "None" if b is None else "int"


def _exc(e):
    return "raised " + type(e).__name__


def _kf(name):
    return "%s/%s" % (M.kind_of(name), M.form_of(name))


# --------------------------------------------------------------------------------------------------
# construction

def _split_kwargs(b, cb):
    kw = {}
    if b != "default":
        kw["bufsize"] = b
    if cb is not None:
        kw["copy_buf"] = cb
    return kw


def _construct_split(res, case, names, js, b, cb):
    """Real Split or None (after recording a construction violation)."""
    try:
        return Split(M.build(names, js), **_split_kwargs(b, cb))
    except Exception as e:  # noqa: every branch list of the alphabet is a legal argument
        offenders = []
        for nm, j in zip(names, js):
            try:
                Split(M.build([nm], [j]), **_split_kwargs(b, cb))
            except Exception:  # noqa
                if _kf(nm) not in offenders:
                    offenders.append(_kf(nm))
        res.violation(case, _exc(e), "a Split object",
                      {"law": "construct", "where": "Split", "exc": type(e).__name__,
                       "bufsize": b if b == "default" else _bs(b),
                       "offenders": sorted(offenders) or ["combination"]},
                      note="a branch list of the documented kinds could not be turned into a Split")
        return None


# --------------------------------------------------------------------------------------------------
# law: run schedule

def _tag_kind(item, names):
    """Kind of the branch that emitted *item* (by its tag)."""
    try:
        t = item[0]
        i = int(t[1:])
        if t == M.tag(i) and i < len(names):
            nm = names[i]
            return M.kind_of(nm) + ("+stop" if M.is_stopper(nm) else "")
    except Exception:  # noqa
        pass
    return "untagged"


def _schedule_cause(names, n, got, exp, info):
    if isinstance(got, str):
        return {"law": "run-schedule", "phase": "empty-flow" if n == 0 else "run",
                "observed": got, "kinds": sorted(set(M.kind_of(nm) for nm in names))}
    if isinstance(exp, str):
        return {"law": "run-schedule", "phase": "empty-flow" if n == 0 else "run",
                "observed": "returned", "expected": exp}
    idx = 0
    while idx < len(got) and idx < len(exp) and got[idx] == exp[idx]:
        idx += 1
    if n == 0:
        phase = "empty-flow"
    elif info.get("final_from") is not None and idx >= info["final_from"]:
        phase = "final-computes"
    else:
        phase = "blocks"
    return {"law": "run-schedule", "phase": phase,
            "expected_next": _tag_kind(exp[idx], names) if idx < len(exp) else "end",
            "observed_next": _tag_kind(got[idx], names) if idx < len(got) else "end",
            "after_stop": bool(info.get("stops"))}


def _expected(names, js, n, b):
    """(list of allowed outputs, info); an exception of the reference is an allowed 'output'."""
    try:
        return M.expected_outputs(names, js, _flow(n), b)
    except Exception as e:  # noqa
        return [_exc(e)], {"stops": 0, "blocks": 0, "final_from": None}


def judge_run(res, names, js, n, b, cb, exp=None, record=True, rerun=True):
    """Execute one Split.run case and judge it. Returns the observed output (or None)."""
    case = {"law": "run", "branches": list(names), "js": list(js), "n": n, "bufsize": b,
            "copy_buf": cb}
    if exp is None:
        exp = _expected(names, js, n, b)
    outs, info = exp
    s = _construct_split(res, case, names, js, b, cb)
    if s is None:
        if record:
            res.case(nontrivial=False, outcome="construct-failed")
        return None
    try:
        got = list(s.run(iter(_flow(n))))
    except Exception as e:  # noqa
        got = _exc(e)
    if record:
        nontrivial = ((len(names) >= 2 and info["blocks"] >= 2) or info["stops"] > 0
                      or (n == 0 and len(names) >= 2))
        res.case(nontrivial=nontrivial, outcome=repr(got))
        if info["stops"]:
            res.count("run_cases_with_LenaStopFill")
        if n == 0:
            res.count("run_cases_empty_flow")
        if len(outs) > 1:
            res.count("run_cases_with_two_accepted_readings")
    if got not in outs:
        res.violation(case, got, outs[0] if len(outs) == 1 else {"any_of": outs},
                      _schedule_cause(names, n, got, outs[0], info))
    elif isinstance(got, list) and rerun:
        # a second run of the same Split object over an equal flow: one more run of the documented
        # schedule over the same (now used) branch objects, every branch active again
        try:
            got2 = list(s.run(iter(_flow(n))))
        except Exception as e:  # noqa
            got2 = _exc(e)
        pairs = M.expected_two_runs(names, js, lambda: _flow(n), b, _exc)
        if record:
            res.count("second_runs_checked")
        if (got, got2) not in pairs and not any(p[0] == got and len(p) == 1 for p in pairs):
            seconds = [p[1] for p in pairs if len(p) == 2 and p[0] == got]
            exp2 = seconds[0] if seconds else "?"
            cause = _schedule_cause(names, n, got2, exp2, {"stops": info["stops"], "final_from": None}) \
                if isinstance(exp2, list) else {"law": "run-schedule", "observed": "?"}
            cause["law"] = "second-run-schedule"
            res.violation(dict(case, law="rerun"), {"first": got, "second": got2},
                          {"second": exp2 if len(seconds) <= 1 else {"any_of": seconds}}, cause,
                          note="second run of the same Split object over an equal flow")
    if isinstance(got, list) and got in outs and rerun and n >= 2 and all(nm in M.PER_VALUE for nm in names):
        # branches without state: a run whose consumer stopped after one result (its generator left
        # alive), then a complete run of the same Split object - as if nothing had happened before
        s3 = _construct_split(res, case, names, js, b, cb)
        if s3 is not None:
            try:
                g = s3.run(iter(_flow(n)))
                next(g, None)
                got3 = list(s3.run(iter(_flow(n))))
                del g
            except Exception as e:  # noqa
                got3 = _exc(e)
            if record:
                res.count("runs_after_an_interrupted_run_checked")
            if got3 not in outs:
                cause = _schedule_cause(names, n, got3, outs[0], info) if isinstance(got3, list) \
                    else {"law": "run-schedule", "observed": got3}
                cause["law"] = "run-after-interrupted-run"
                res.violation(dict(case, law="rerun-after-stop"), got3, outs[0], cause,
                              note="the same Split object run again after a consumer stopped early")
    return got


def _projection(got, i):
    t = M.tag(i)
    return [item for item in got if isinstance(item, tuple) and len(item) == 2 and item[0] == t]


def judge_independence(res, names, js, n, cb, runs, record=True):
    """runs: list of (bufsize, output list) of real executions. Per-tag results of fill/compute and
    per-value branches must not depend on bufsize."""
    idxs = [i for i, nm in enumerate(names) if M.kind_of(nm) == M.FC or nm in M.PER_VALUE]
    runs = [(b, got) for b, got in runs if isinstance(got, list)]
    if not idxs or len(runs) < 2:
        return
    b0, got0 = runs[0]
    differing_partitions = len(set(len(M.blocks_of(_flow(n), b)) for b, _ in runs)) > 1
    if record:
        res.case(nontrivial=differing_partitions and len(names) >= 2,
                 outcome=("indep", repr([_projection(got0, i) for i in idxs])))
        res.count("bufsize_independence_groups")
    for i in idxs:
        p0 = _projection(got0, i)
        for b, got in runs[1:]:
            p = _projection(got, i)
            if p != p0:
                res.violation({"law": "bufsize-independence", "branches": list(names), "js": list(js),
                               "n": n, "copy_buf": cb, "bufsizes": [b0, b]},
                              {"bufsize": b, "branch": i, "results": p},
                              {"bufsize": b0, "branch": i, "results": p0},
                              {"law": "bufsize-independence",
                               "branch": "per-value" if names[i] in M.PER_VALUE else
                               M.kind_of(names[i]) + ("+stop" if M.is_stopper(names[i]) else "")})
                break


def _js_vectors(names, n):
    stoppers = [i for i, nm in enumerate(names) if M.is_stopper(nm)]
    for jv in itertools.product(range(max(n, 1)), repeat=len(stoppers)):
        js = [0] * len(names)
        for i, j in zip(stoppers, jv):
            js[i] = j
        yield js


def _cause_key(v):
    return json.dumps(v["cause"], sort_keys=True)


def _shrink_run(case, ckey):
    """Greedy shrink of a failing run case that keeps the same cause."""
    def fails(c):
        r = Result()
        judge_run(r, c["branches"], c["js"], c["n"], c["bufsize"], c["copy_buf"], record=False)
        return any(_cause_key(v) == ckey for v in result_violations(r))

    def candidates(c):
        names, js, n, b = c["branches"], c["js"], c["n"], c["bufsize"]
        for i in range(len(names)):
            if len(names) > 1:
                yield dict(c, branches=names[:i] + names[i + 1:], js=js[:i] + js[i + 1:])
        if n > 0:
            yield dict(c, n=n - 1, js=[min(j, max(n - 2, 0)) for j in js])
        for i, j in enumerate(js):
            if j > 0:
                yield dict(c, js=js[:i] + [j - 1] + js[i + 1:])
        if b is not None and b > 1:
            yield dict(c, bufsize=1 if b == 1000 else b - 1)
        if not c["copy_buf"]:
            yield dict(c, copy_buf=True)

    changed = True
    while changed:
        changed = False
        for cand in candidates(case):
            if fails(cand):
                case, changed = cand, True
                break
    return case


def run_lists(res, lists, tier):
    d = _dom(tier)
    seen = set(res.viol)
    for names in lists:
        names = list(names)
        for n in range(d["N"] + 1):
            for js in _js_vectors(names, n):
                # the reference does not depend on copy_buf: one reference run per bufsize
                exps = [(b, _expected(names, js, n, b)) for b in _bufsizes(n)]
                for cb in (True, False):
                    runs = []
                    for b, exp in exps:
                        got = judge_run(res, names, js, n, b, cb, exp)
                        runs.append((b, got))
                    judge_independence(res, names, js, n, cb, runs)
                    if len(res.viol) != len(seen):
                        _shrink_new(res, seen)
        res.sample({"law": "run", "branches": names, "js": js, "n": n, "bufsize": 2,
                    "copy_buf": True}, 3)


def _shrink_new(res, seen):
    """Replace the first case of every newly seen run-law cause by its greedy shrink."""
    for ckey in list(res.viol):
        if ckey in seen:
            continue
        seen.add(ckey)
        cnt, v = res.viol[ckey]
        if v["case"].get("law") != "run":
            continue
        small = _shrink_run(v["case"], ckey)
        if small != v["case"]:
            r = Result()
            judge_run(r, small["branches"], small["js"], small["n"], small["bufsize"],
                      small["copy_buf"], record=False)
            for v2 in result_violations(r):
                if _cause_key(v2) == ckey:
                    res.viol[ckey] = [cnt, v2]
                    break


# --------------------------------------------------------------------------------------------------
# law: empty Split is the identity

def _mixed_flow(n):
    pool = [0, (1, {"i": 1}), [2], "three", (4, {"d": {"e": 4}}), {"five": 5}]
    return pool[:n]


def judge_empty(res, n, b, cb):
    case = {"law": "empty-identity", "n": n, "bufsize": b, "copy_buf": cb}
    flow = _mixed_flow(n)
    try:
        s = Split([], bufsize=b, copy_buf=cb)
    except Exception as e:  # noqa
        res.case(nontrivial=False, outcome="construct-failed")
        res.violation(case, _exc(e), "a Split object",
                      {"law": "construct", "where": "Split", "exc": type(e).__name__,
                       "bufsize": _bs(b), "offenders": ["empty list"]})
        return
    try:
        got = list(s.run(iter(flow)))
    except Exception as e:  # noqa
        got = _exc(e)
    ok = isinstance(got, list) and got == flow
    same = ok and all(x is y for x, y in zip(got, flow))
    if ok and not cb and not same:
        ok = False
    res.case(nontrivial=n >= 1, outcome=("empty", n, repr(got), same))
    if not ok:
        res.violation(case, repr(got), repr(flow),
                      {"law": "empty-identity", "copy_buf": cb,
                       "observed": got if isinstance(got, str) else
                       ("equal-not-same" if got == flow else "different")})


# --------------------------------------------------------------------------------------------------
# law: common-type methods

COMMON = {
    "fc": (["fc_sum", "fc_acc", "fc_stop", "fc_sub", M.nested_name(["fc_sum", "fc_sum"])],
           "c", "compute"),
    "fr": (["fr_req", "fr2_seq", "fr1_tuple", "fr_stop", "fr_sub", M.nested_name(["fr_req", "fr_req"])],
           "r", "request"),
}
NEVER = 10 ** 6     # stop index that is never reached


def _histories(letters, maxlen):
    for k in range(maxlen + 1):
        for h in itertools.product(letters, repeat=k):
            yield "".join(h)


def judge_common(res, typ, names, hist, cb, b="default"):
    """Split of one branch type driven through fill / compute|request by the event history."""
    _, letter, meth = COMMON[typ]
    js = [NEVER] * len(names)
    case = {"law": "common-" + typ, "branches": list(names), "history": hist, "copy_buf": cb,
            "bufsize": b}
    # reference: every branch's own methods, concatenated in branch order
    try:
        branches = M.build_driveable(names, js)
        exp, v = [], 0
        for ev in hist:
            if ev == "f":
                v += 1
                for br in branches:
                    br.fill(copy.deepcopy(v))
            else:
                exp.append([r for br in branches for r in getattr(br, meth)()])
    except Exception as e:  # noqa
        exp = _exc(e)
    s = _construct_split(res, case, names, js, b, cb)
    if s is None:
        res.case(nontrivial=False, outcome="construct-failed")
        return
    try:
        got, v = [], 0
        for ev in hist:
            if ev == "f":
                v += 1
                s.fill(v)
            else:
                got.append(list(getattr(s, meth)()))
    except Exception as e:  # noqa
        got = _exc(e)
    first_take = hist.find(letter)
    res.case(nontrivial=len(names) >= 2 and first_take > 0, outcome=repr(got))
    if got != exp:
        if isinstance(got, str) or isinstance(exp, str):
            what = got if isinstance(got, str) else "returned"
        else:
            k = 0
            while k < len(got) and k < len(exp) and got[k] == exp[k]:
                k += 1
            what = "first-take" if k == 0 else "later-take"
        res.violation(case, got, exp, {"law": "common-" + typ, "observed": what,
                                       "copy_buf": cb})


SRC3 = ["x", "y", "z"]


def _build_sources(names):
    out = []
    for i, nm in enumerate(names):
        if nm == "src":
            out.append(lena.core.Source(M.Gen(), M.Tagger(M.tag(i))))
        elif nm == "src_sub":
            out.append(M.SubSource(M.Gen(), M.Tagger(M.tag(i))))
        else:
            out.append(lena.core.Source(list(SRC3), M.Tagger(M.tag(i))))
    return out


def judge_common_source(res, names, ncalls, b="default"):
    case = {"law": "common-source", "branches": list(names), "calls": ncalls, "bufsize": b}
    try:
        branches = _build_sources(names)
        exp = [[r for br in branches for r in br()] for _ in range(ncalls)]
    except Exception as e:  # noqa
        exp = _exc(e)
    try:
        s = Split(_build_sources(names), **_split_kwargs(b, None))
    except Exception as e:  # noqa
        res.case(nontrivial=False, outcome="construct-failed")
        res.violation(case, _exc(e), "a Split object",
                      {"law": "construct", "where": "Split", "exc": type(e).__name__,
                       "bufsize": b if b == "default" else _bs(b), "offenders": ["source/explicit"]})
        return
    try:
        got = [list(s()) for _ in range(ncalls)]
    except Exception as e:  # noqa
        got = _exc(e)
    res.case(nontrivial=len(names) >= 2, outcome=repr(got))
    if got != exp:
        res.violation(case, got, exp, {"law": "common-source",
                                       "observed": got if isinstance(got, str) else "different"})


# --------------------------------------------------------------------------------------------------
# law: Zip

def _zip_factories(typ):
    acc = M.CtxAcc if typ == "fc" else M.CtxReq
    fs = [
        ("z_bare", "bare", lambda t: acc(t, "bare")),
        ("z_own", "bare", lambda t: acc(t, "own")),
        ("z_even", "bare", lambda t: acc(t, "bare", keep=0)),
        ("z_same", "bare", lambda t: acc(t, "same")),
        ("z_raw", "bare", lambda t: acc(t, "raw")),
        ("z_map_tuple", "tuple", lambda t: (M._add100, acc(t, "own"))),
    ]
    if typ == "fc":
        fs.append(("z_sub", "subclass", lambda t: M.SubFillComputeSeq(M._add100, acc(t, "bare"))))
        fs.append(("z_sum", "tuple", lambda t: (lena.math.Sum(), M.Tagger(t))))
    else:
        # explicit sequence form; its request() has no side effects inside a lazy generator (Zip
        # stops at the shortest branch and never advances the generators of the later ones)
        fs.append(("z_req_seq", "explicit",
                   lambda t: lena.core.FillRequestSeq(acc(t, "bare"), reset=False, buffer_input=True)))
        fs.append(("z_sub", "subclass",
                   lambda t: M.SubFillRequestSeq(acc(t, "own"), reset=False, buffer_input=True)))
    return fs


def _zip_build(typ, names):
    table = dict((nm, (form, f)) for nm, form, f in _zip_factories(typ))
    return [table[nm][1](M.tag(i)) for i, nm in enumerate(names)]


def _dc(value):
    if isinstance(value, tuple) and len(value) == 2 and isinstance(value[1], dict):
        return value[0], value[1]
    return value, {}


def _zip_item_ok(item, results):
    """item is the Zip output for the i-th results *results* of the branches."""
    data, context = _dc(item)
    datas = tuple(_dc(r)[0] for r in results)
    try:
        if tuple(data) != datas:
            return "data"
    except TypeError:
        return "data"
    ctxs = [_dc(r)[1] for r in results]
    common = dict((k, v) for k, v in context.items() if k != "zip")
    if "zip" in context:
        own = context["zip"]
        try:
            if len(own) != len(ctxs):
                return "context"
            for o, c in zip(own, ctxs):
                merged = dict(common)
                merged.update(o)
                if merged != c:
                    return "context"
        except Exception:  # noqa
            return "context"
    elif any(c != common for c in ctxs):
        return "context"
    return None


def _zip_value(v, with_none):
    """The v-th filled value; with_none: every third one is None (a value like any other, also as the
    i-th result of a branch - it does not end that branch's results)."""
    return None if (with_none and v % 3 == 2) else v


def judge_zip(res, typ, names, hist, fields, with_none=False):
    """Zip of branches of one type driven by the event history ('f' fill, 't' take results)."""
    meth = "compute" if typ == "fc" else "request"
    case = {"law": "zip-" + typ, "branches": list(names), "history": hist, "fields": fields}
    if with_none:
        case["none_values"] = True
    table = dict((nm, form) for nm, form, f in _zip_factories(typ))
    kind = M.FC if typ == "fc" else M.FR
    try:
        branches = [M.driveable(o, kind) for o in _zip_build(typ, names)]
        exp, v = [], 0
        for ev in hist:
            if ev == "f":
                v += 1
                for br in branches:
                    br.fill(copy.deepcopy(_zip_value(v, with_none)))
            else:
                rs = [list(getattr(br, meth)()) for br in branches]
                m = min(len(r) for r in rs)
                exp.append([[r[k] for r in rs] for k in range(m)])
    except Exception as e:  # noqa
        exp = _exc(e)
    kw = {}
    if fields:
        kw = {"name": "zipped", "fields": ["f%d" % i for i in range(len(names))]}
    try:
        z = lena.flow.Zip(_zip_build(typ, names), **kw)
    except Exception as e:  # noqa
        offenders = []
        for nm in names:
            try:
                lena.flow.Zip(_zip_build(typ, [nm]))
            except Exception:  # noqa
                form = "%s/%s" % (kind, table[nm])
                if form not in offenders:
                    offenders.append(form)
        res.case(nontrivial=False, outcome="construct-failed")
        res.violation(case, _exc(e), "a Zip object",
                      {"law": "construct", "where": "Zip", "exc": type(e).__name__,
                       "bufsize": "default", "offenders": sorted(offenders) or ["combination"]})
        return
    try:
        got, v = [], 0
        for ev in hist:
            if ev == "f":
                v += 1
                z.fill(_zip_value(v, with_none))
            else:
                got.append(list(getattr(z, meth)()))
    except Exception as e:  # noqa
        got = _exc(e)
    nontrivial = (len(names) >= 2 and not isinstance(exp, str)
                  and any(len(t) >= 1 for t in exp))
    res.case(nontrivial=nontrivial, outcome=repr(got))
    problem = None
    if isinstance(got, str) or isinstance(exp, str):
        if got != exp:
            problem = got if isinstance(got, str) else "returned"
    else:
        for g, e in zip(got, exp):
            if len(g) != len(e):
                problem = "length"
                break
            for item, results in zip(g, e):
                problem = _zip_item_ok(item, results)
                if problem:
                    break
            if problem:
                break
        if problem is None and len(got) != len(exp):
            problem = "length"
    if problem:
        res.violation(case, got, {"tuples_of": exp},
                      {"law": "zip-" + typ, "observed": problem, "fields": bool(fields),
                       "none_among_the_values": with_none})


# --------------------------------------------------------------------------------------------------
# shards

def shards(tier):
    d = _dom(tier)
    out = [{"kind": "run-short", "bound": "run lists of length 1..2"}]
    out += [{"kind": k, "bound": "derived laws"} for k in ("empty", "common-source")]
    for k in ("common-fc", "common-fr", "zip-fc", "zip-fr"):
        # one shard per first branch of the list
        out += [{"kind": k, "first": nm, "bound": "derived laws"} for nm in _derived_pool(k)]
    for f in M.FORMS:
        out.append({"kind": "run-forms", "form": f, "L": 2,
                    "bound": "run lists of length 1..2 with a subclass / nested-Split branch"})
    for L in range(3, d["L"] + 1):
        for f0 in M.ORDER:
            for f1 in M.ORDER:
                out.append({"kind": "run", "L": L, "prefix": [f0, f1],
                            "bound": "run lists of length %d" % L})
    for L in range(3, d["FL"] + 1):
        for f in M.FORMS:
            for pos in range(L):
                out.append({"kind": "run-forms", "form": f, "L": L, "pos": pos,
                            "bound": "run lists of length %d with a subclass / nested-Split branch" % L})
    return out


def _form_lists(p):
    """Branch lists of one run-forms shard: the form *f* next to the 13 basic factories."""
    f = p["form"]
    if p["L"] == 2:
        yield [f]
        for g in M.ORDER:
            yield [f, g]
            yield [g, f]
        # two branches of the further forms: subclass with subclass, nested Split with itself
        for g in (M.SUBCLASS_FORMS if f in M.SUBCLASS_FORMS else [f]):
            yield [f, g]
    else:
        pos = p["pos"]
        for rest in itertools.product(M.ORDER, repeat=p["L"] - 1):
            rest = list(rest)
            yield rest[:pos] + [f] + rest[pos:]


def _derived_pool(kind):
    typ = kind[-2:]
    if kind.startswith("common-"):
        return list(COMMON[typ][0])
    return [nm for nm, form, f in _zip_factories(typ)]


def _lists(pool, lo, hi, first=None):
    """Lists over *pool* of length lo..hi, shortest first (first: only those that begin with it)."""
    for k in range(lo, hi + 1):
        for names in itertools.product(pool, repeat=k):
            if first is None or names[0] == first:
                yield list(names)


def run_shard(p, tier):
    d = _dom(tier)
    res = Result()
    kind = p["kind"]
    if kind == "run-short":
        run_lists(res, _lists(M.ORDER, 1, 2), tier)
    elif kind == "run-forms":
        run_lists(res, _form_lists(p), tier)
    elif kind == "run":
        rest = p["L"] - len(p["prefix"])
        run_lists(res, (p["prefix"] + list(t) for t in itertools.product(M.ORDER, repeat=rest)), tier)
    elif kind == "empty":
        for n in range(0, 7):
            for b in _bufsizes(n):
                for cb in (True, False):
                    judge_empty(res, n, b, cb)
        res.sample({"law": "empty-identity", "n": 3, "bufsize": 2, "copy_buf": False}, 1)
    elif kind == "common-source":
        for names in _lists(["src", "src_list", "src_sub"], 1, d["CL"] + 1):
            for ncalls in (1, 2):
                for b in ("default", 1, None):
                    judge_common_source(res, names, ncalls, b)
        res.sample({"law": "common-source", "branches": ["src", "src_list"], "calls": 2,
                    "bufsize": "default"}, 1)
    elif kind in ("common-fc", "common-fr"):
        typ = kind[-2:]
        pool, letter, _ = COMMON[typ]
        for names in _lists(pool, 1, d["CL"], p["first"]):
            for hist in _histories("f" + letter, d["H"]):
                for cb in (True, False):
                    judge_common(res, typ, names, hist, cb)
            # the Split's own bufsize must not matter for fill / compute / request
            for b in (1, None):
                judge_common(res, typ, names, "ff" + letter + "f" + letter, True, b)
        res.sample({"law": kind, "branches": [p["first"], pool[0]],
                    "history": "ff" + letter + "f" + letter, "copy_buf": True, "bufsize": "default"}, 1)
    elif kind in ("zip-fc", "zip-fr"):
        typ = kind[-2:]
        pool = [nm for nm, form, f in _zip_factories(typ)]
        if typ == "fc":
            hists = ["f" * n + "t" for n in range(d["ZN"] + 1)] + ["fftft", "tfft"]
        else:
            hists = list(_histories("ft", d["ZH"]))
        for names in _lists(pool, 1, d["ZL"], p["first"]):
            for hist in hists:
                for fields in (False, True):
                    judge_zip(res, typ, names, hist, fields)
                    if hist.count("f") >= 2:
                        judge_zip(res, typ, names, hist, fields, with_none=True)
        res.sample({"law": kind, "branches": [p["first"], pool[0]], "history": "fft",
                    "fields": False}, 1)
    else:
        raise ValueError(kind)
    return res


def replay(case):
    res = Result()
    law = case.get("law")
    if law in ("run", "rerun", "rerun-after-stop"):
        judge_run(res, case["branches"], case["js"], case["n"], case["bufsize"], case["copy_buf"])
    elif law == "bufsize-independence":
        names, js, n, cb = case["branches"], case["js"], case["n"], case["copy_buf"]
        runs = []
        scratch = Result()
        for b in case["bufsizes"]:
            runs.append((b, judge_run(scratch, names, js, n, b, cb, record=False)))
        judge_independence(res, names, js, n, cb, runs)
    elif law == "empty-identity":
        judge_empty(res, case["n"], case["bufsize"], case["copy_buf"])
    elif law in ("common-fc", "common-fr"):
        judge_common(res, law[-2:], case["branches"], case["history"], case["copy_buf"],
                     case.get("bufsize", "default"))
    elif law == "common-source":
        judge_common_source(res, case["branches"], case["calls"], case.get("bufsize", "default"))
    elif law in ("zip-fc", "zip-fr"):
        judge_zip(res, law[-2:], case["branches"], case["history"], case["fields"],
                  with_none=bool(case.get("none_values")))
    else:
        raise ValueError("unknown law %r" % (law,))
    return result_violations(res)


LEVEL_TEXT = ("bounded exhaustive exploration: every branch list of length 1..3 (thorough: 1..4) over 13 "
              "tagged branch factories of the four kinds (and lists of length 1..2 (1..3) in which one "
              "branch is an instance of a user subclass of its sequence class or a nested Split), "
              "with LenaStopFill at every fill index, every "
              "bufsize in {1..n+1, 1000, None}, both copy_buf and every flow length 0..4 (0..5) is run "
              "on the real Split and compared with an independent interpreter of the documented "
              "block/branch schedule that drives fresh real branch objects; bufsize-independence, the "
              "empty Split, the common-type methods and Zip are checked as relations between real "
              "executions over every short event history")
LEVEL_NOTE = ("holds for the enumerated alphabet only; flows are distinct integers; branches that mutate "
              "shared values (C04), laziness of block reading (C02) and FillRequest's own buffering "
              "(C16) are outside this check; two readings are accepted where the statement is open")
TECHNIQUE = ("exhaustive enumeration of branch lists (kinds x forms) x stop indices x bufsize x copy_buf x "
             "flow length on "
             "the real code against a reference interpreter of the documented schedule and differential "
             "relations")
