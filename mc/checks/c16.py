"""C16 - FillRequest processes the flow in consecutive blocks, however it is driven.

Four drivers, all exhaustive over their bounds, all executing the real lena code:

  run    FillRequest(el, bufsize=n, buffer mode, reset, yield_on_remainder).run(iter(flow)) for every
         element kind, every n, every flow length 0..k*n+1, compared with the block reference of
         mc/ref/c16_model.py (exact equality, also for yield_on_remainder).
  word   explicit-state exploration of the fill/request machine: every word over {F, R} up to a
         length bound (F = fill the next value, R = consume request() completely) is executed on a
         freshly built object (bare FillRequest, FillRequestSeq(pre, FillRequest, post),
         Split([FillRequest]) used through its fill/request methods, or Zip([FillRequest,
         FillRequest]) of two equally configured adapters, which leaves the request() generator of
         its second sequence suspended at its last result: both items of every zipped result are
         judged like the results of a bare adapter); after every event the real
         object is compared with the model: every call returns within the step budget and raises
         nothing; after every R the concatenated request() results equal run on the values filled so
         far (yield_on_remainder off), fewer than bufsize values remain in the input buffer and the
         output buffer is empty. A history is not extended beyond its first violation, so every
         reported occurrence is a minimal failing history.
         With yield_on_remainder on (whose fill/request meaning the statement leaves open) only the
         reading-independent part is demanded: calls return, and for value-revealing elements every
         value filled so far has been shown in some result after each R and no single result shows a
         value twice or out of order.
  split  Split([branch], bufsize=B).run(iter(flow)) around a FillRequest branch (bare element, or a
         tuple (pre, FillRequest, post) that Split wraps into a FillRequestSeq) for every B in
         1..2n+1, 1000 and None: equals run on the whole flow.
  frs    FillRequestSeq(pre, FillRequest(el, n), post, bufsize=m, reset=False, buffer_input=True).run:
         the outer adapter requests after every m fills, i.e. it drives the inner one by the word
         (F^m R)*; equals post(reference on pre(values of the complete outer blocks)).

The options of a FillRequestSeq are an axis of the word, split and frs drivers ("kwargs can contain
bufsize or reset. See FillRequest", plus the buffer flag FillRequest demands). They configure the adapter
the sequence wraps around itself for run(); its fill() and request() are documented as pre-processing +
fill of / post-processing of the request of its FillRequest element, so
  word   form frs is explored for every (bufsize in {1, n, n+1}, reset, buffer mode) of the sequence,
         with the same model (shorter words for the combinations Split does not use);
  split  form seq: the branch is a FillRequestSeq made by the user with every (bufsize in {1, n+1},
         reset, buffer mode): equals run on the whole flow, like the tuple form;
  frs    every (reset, buffer mode, yield_on_remainder) of the sequence: the reference gets the final
         partial outer block with yield_on_remainder; with reset the element is reset after each outer
         block - judged by the model when an outer block is a whole number of inner blocks, and always
         by a differential: run() equals a twin sequence filled, requested and reset block by block by
         the harness (the statement's first sentence with the sequence as the wrapped element).

Method names are an axis of the run and word drivers: every element kind that has a method FillRequest
takes the name of is also wrapped as mc.ref.c16_model.Renamed and handed over with fill="put",
request="take", reset_name="clear" - once with nothing under the default names, once with unrelated
decoy methods under them; the reference drives a plain twin, so the expected results are the same.

Building the driven object and replaying an agreed prefix are judged regions too: an exception of the
code under test there is a reported violation (no-object-with-fill-and-request,
history-not-reproducible), never an internal error of the harness.
"""
import lena.core
import lena.flow
import lena.math

from mc.core import Result, result_violations
from mc.instrument import step_budget, StepBudgetExceeded, freeze
from mc.ref import c16_model as M

ID = "C16"
LEVEL = "model_checking"
DESIGN_REF = "DESIGN.md section 5, C16"
RULE = ("configurations = element kind x bufsize x buffer mode x reset x yield_on_remainder (x method "
        "names default / renamed / renamed with decoys under the default names, in the run driver and in "
        "shorter bare words; x bufsize, reset, buffer mode [, yield_on_remainder] of the FillRequestSeq "
        "around it in the frs words, the seq form of split and the frs driver); for each, "
        "every F/R word up to the length bound is executed on a freshly built real object (a history "
        "is not extended past its first violation) and every flow length / Split bufsize / outer "
        "bufsize of the run, split and frs drivers is executed once; cases are distinct by "
        "construction. A word case is non-trivial when at least one complete block has been filled "
        "and the history contains a request() off a block boundary or a fill() that arrives while a "
        "complete block is still unrequested (what the repository's tests never do); a run case when "
        "the flow is longer than one block; a split/frs case when the flow is longer than one block "
        "and the driving bufsize differs from the block size. states = distinct canonical "
        "(configuration, fills, _n_count, buffers, element content, model position) tuples observed "
        "after an event; transitions = judged fill()/request() calls (each trie edge once; replayed "
        "prefixes are counted separately in counters.calls_replayed); traces = histories ending in R "
        "whose every step agreed with the model")
ASSUMPTIONS = [
    "flows given to run() are iterators (what Sequence.run and Split.run hand to an element), finite, "
    "of distinct ints (powers of two for Sum, so that a sum identifies the values in it)",
    "wrapped elements: Sum, StoreFilled (group and one-by-one), two user fill/request elements (one of "
    "them also with run), Run(StoreFilled()), Run(callable), and three user run elements (lazy "
    "stateful with reset; yields only the first value without exhausting its block; yields nothing); "
    "no element raises and none raises LenaStopFill",
    "method names: the six kinds that have fill, request or reset are also given under the names put / "
    "take / clear (keywords fill, request, reset_name), without and with unrelated methods under the "
    "default names (decoy fill drops the value, decoy request/compute yield a tagged result, decoy "
    "reset leaves the data alone); run has no keyword and keeps its name; renamed elements: run "
    "driver at full bounds, bare F/R words up to the shorter length of describe(), not in Split/frs/zip",
    "request() is consumed completely by the driver, except for the second adapter of the zip form, "
    "whose generator lena.flow.Zip leaves suspended after its last result (zip semantics); a request() "
    "generator abandoned before all its results were taken is outside; reset() is never called by the "
    "driver; run() and fill()/request() are not mixed on one object",
    "zip form: two adapters of the same configuration around two elements of the same kind (store, "
    "sum), so both items of a zipped result must equal the result of a bare adapter",
    "for yield_on_remainder=True the fill/request drivers demand only termination and that every value "
    "is shown (exact results are demanded by the statement 'for yield_on_remainder off' only); the "
    "reading of 'at most one block of buffered values or results' is DESIGN.md R2: after each "
    "request() fewer than bufsize values are held in _buffer_in and _buffer_out is empty (checked "
    "through these attribute names when they exist)",
    "Split: one branch, copy_buf default, Split bufsize in 1..2n+1, 1000, None; run-only elements are "
    "not put into Split (Split runs such a branch once per buffer by documented design)",
    "FillRequestSeq options: words through a FillRequestSeq with bufsize in {1, n, n+1} x reset x "
    "buffer_input|buffer_output (full word length for bufsize=1, reset=False, buffer_input=True - what "
    "Split passes -, the shorter length of describe() for the others); Split around a user-made "
    "FillRequestSeq with bufsize in {1, n+1} x reset x buffer mode for the kinds store, sum, freq "
    "(shorter flows, see describe()); FillRequestSeq.run with bufsize 1..2n+1 x reset x buffer mode x "
    "yield_on_remainder. The sequence's fill()/request() are taken to be independent of these options "
    "(their docstrings name only pre-/post-processing around the FillRequest element). With the "
    "sequence's reset=True and an outer block that is not a whole number of inner blocks, run() is "
    "judged only against a twin sequence driven block by block (what a reset inside an inner block "
    "means for that block is not stated); FillRequestSeq.reset() is called by that twin driver only",
    "construction errors (both / neither buffer mode, reset=None, missing methods) are outside: only "
    "valid configurations are enumerated",
]
NONTRIVIAL_FLOOR = {"quick": 100000, "thorough": 1000000}
BUDGET_S = {"quick": 240, "thorough": 1500}



def call_limit(fills):
    """Line events inside lena allowed to one fill()/request() call after *fills* fills (measured
    maximum on a correct tree: < 30 + 25 per fill; see coverage.maxima)."""
    return 1000 + 250 * fills


def run_limit(length):
    """... to one whole run() / Split.run() over a flow of *length* values (measured: < 150 + 60
    per value)."""
    return 4000 + 800 * length


def _dom(tier):
    if tier == "thorough":
        return dict(N=6, L=14, Lform=11, Lnames=10, Louter=9, run_blocks=4, split_len=4, seq_len=3)
    return dict(N=5, L=12, Lform=9, Lnames=8, Louter=7, run_blocks=3, split_len=3, seq_len=2)


def describe(tier):
    d = _dom(tier)
    return ("bufsize 1..%(N)d; F/R words of length <= %(L)d on a bare FillRequest (<= %(Lform)d through "
            "FillRequestSeq, Split fill/request and Zip of two adapters; <= %(Lnames)d for elements with "
            "renamed methods, without and with decoys); run: flows of length 0..%(run_blocks)d*n+1, all "
            "three method namings; split: "
            "B in 1..2n+1, 1000, None, flows of length 0..%(split_len)d*max(n,B')+1; frs: outer bufsize "
            "1..2n+1 x reset x buffer mode x yield_on_remainder of the sequence; sequence options: F/R "
            "words of length <= %(Louter)d through a FillRequestSeq with bufsize in {1, n, n+1} x reset x "
            "buffer mode, Split around a user-made FillRequestSeq with bufsize in {1, n+1} x reset x "
            "buffer mode on flows of length 0..%(seq_len)d*max(n,B')+1" % d)


# --------------------------------------------------------------------------------------------------
# configurations

def _modes(yor):
    # with yield_on_remainder the buffer flags are optional ("buffers are not used")
    return ("input", "output", "none") if yor else ("input", "output")


def configs(kind, n, names="default"):
    out = []
    for yor in (False, True):
        for mode in _modes(yor):
            for reset in M.resets_of(kind):
                cfg = {"kind": kind, "n": n, "buffer": mode, "reset": reset, "yor": yor}
                if names != "default":
                    cfg["names"] = names
                out.append(cfg)
    return out


def _names(cfg):
    return cfg.get("names", "default")


# The options of the FillRequestSeq a FillRequest stands in: "kwargs can contain bufsize or reset. See
# FillRequest for more information on them" - and one of the buffer flags, which FillRequest demands.
# They configure the adapter the sequence wraps around ITSELF for run(); the sequence's own fill()
# ("preprocesses the value before filling FillRequest") and request() ("postprocesses the results
# yielded from the FillRequest element") are documented without any reference to them.
OUTER_DEFAULT = (1, False, "input")     # (bufsize, reset, buffer mode): what Split passes


def _outer(cfg):
    return tuple(cfg.get("outer", OUTER_DEFAULT))


def _outer_kw(outer, yor=False):
    m, oreset, obuffer = outer
    kw = dict(bufsize=m, reset=oreset)
    kw["buffer_input" if obuffer == "input" else "buffer_output"] = True
    if yor:
        kw["yield_on_remainder"] = True
    return kw


def outer_options(n, sizes):
    """Every (bufsize, reset, buffer mode) of the sequence, simplest first; sizes: "all" - bufsize 1,
    the block size of the inner adapter and one more than it; "ends" - 1 and one more."""
    ms = sorted(set((1, n, n + 1) if sizes == "all" else (1, n + 1)))
    return [(m, oreset, obuffer) for oreset in (False, True) for obuffer in ("input", "output")
            for m in ms]


def with_outer(cfg, outer):
    if tuple(outer) == OUTER_DEFAULT:
        return cfg
    out = dict(cfg)
    out["outer"] = list(outer)
    return out


def _cfg_of_case(case):
    cfg = {k: case[k] for k in ("kind", "n", "buffer", "reset", "yor")}
    if case.get("names", "default") != "default":
        cfg["names"] = case["names"]
    if "outer" in case:
        cfg["outer"] = list(case["outer"])
    return cfg


def shards(tier):
    d = _dom(tier)
    out = []
    for n in range(1, d["N"] + 1):
        for kind in M.FILL_KINDS + M.RUN_KINDS:
            out.append({"drv": "run", "kind": kind, "n": n})
    for n in range(1, d["N"] + 1):
        for kind in M.FILL_KINDS:
            out.append({"drv": "split", "kind": kind, "n": n})
    out.append({"drv": "stopfill"})
    for n in range(1, d["N"] + 1):
        out.append({"drv": "frs", "n": n})
    for n in range(1, d["N"] + 1):
        for oreset in (False, True):
            for oyor in (False, True):
                for obuffer in ("input", "output"):
                    if (oreset, obuffer, oyor) != (False, "input", False):
                        out.append({"drv": "frs", "n": n, "outer": [oreset, obuffer, oyor]})
    for n in range(1, d["N"] + 1):
        for kind in SEQ_KINDS:
            for oreset in (False, True):
                for obuffer in ("input", "output"):
                    out.append({"drv": "split", "form": "seq", "kind": kind, "n": n,
                                "outer": [oreset, obuffer]})
    for n in range(1, d["N"] + 1):
        for kind in ("store", "sum"):
            for oreset in (False, True):
                for obuffer in ("input", "output"):
                    out.append({"drv": "word", "form": "frs", "kind": kind, "n": n,
                                "outer": [oreset, obuffer]})
    for n in range(1, d["N"] + 1):
        for kind in ("store", "sum"):
            for form in ("frs", "split"):
                out.append({"drv": "word", "form": form, "kind": kind, "n": n})
            for reset in (True, False):
                out.append({"drv": "word", "form": "zip", "kind": kind, "n": n, "reset": reset})
    for n in range(1, d["N"] + 1):
        for kind in M.FILL_KINDS:
            out.append({"drv": "word", "form": "bare", "kind": kind, "n": n, "names": True})
    for n in range(1, d["N"] + 1):
        for kind in M.FILL_KINDS:
            for cfg in configs(kind, n):
                p = {"drv": "word", "form": "bare", "cfgs": [cfg]}
                out.append(p)
    return out


SEQ_KINDS = ("store", "sum", "freq")     # the kinds that are put into an explicit FillRequestSeq


def _kw(cfg):
    kw = dict(bufsize=cfg["n"], reset=cfg["reset"], yield_on_remainder=cfg["yor"])
    if cfg["buffer"] == "input":
        kw["buffer_input"] = True
    elif cfg["buffer"] == "output":
        kw["buffer_output"] = True
    if _names(cfg) != "default":
        kw.update(M.RENAMED_KW)
    return kw


def build_fr(cfg):
    el, _ = M.make_named_element(cfg["kind"], _names(cfg))
    return lena.core.FillRequest(el, **_kw(cfg)), el


def _pre(x):
    return 3 * x


def _post(x):
    return ("post", x)


class _Target(object):
    """What a word is driven on: .fill, .request, plus the inner FillRequest for state inspection,
    and the value/result mappings of the form."""

    def __init__(self, cfg, form):
        self.fr, self.el = build_fr(cfg)
        self.frs, self.els = [self.fr], [self.el]
        self.pre = self.post = None
        if form == "bare":
            drv = self.fr
        elif form == "frs":
            drv = lena.core.FillRequestSeq(_pre, self.fr, _post, **_outer_kw(_outer(cfg)))
            self.pre, self.post = _pre, _post
        elif form == "split":
            drv = lena.core.Split([self.fr])
        elif form == "zip":
            # two equally configured adapters side by side: Zip is "like Split", it advances the
            # request() generators of its sequences in turn and stops at the first exhausted one
            fr2, el2 = build_fr(cfg)
            self.frs.append(fr2)
            self.els.append(el2)
            drv = lena.flow.Zip([self.fr, fr2])
        else:
            raise ValueError(form)
        self.fill = drv.fill
        self.request = drv.request


BRANCH_NAMES = ("first", "second")


class _Shape(Exception):
    pass


def _per_branch(form, got):
    """The results of one request() per wrapped adapter: Zip yields tuples, one item per sequence."""
    if form != "zip":
        return [got]
    parts = [[], []]
    for r in got:
        if not (isinstance(r, tuple) and len(r) == 2):
            raise _Shape()
        parts[0].append(r[0])
        parts[1].append(r[1])
    return parts


def _el_content(el):
    if isinstance(el, M.Renamed):
        return (_el_content(el.wrapped), tuple(el.decoy_calls))
    inner = getattr(el, "_el", None)
    if inner is not None and not callable(inner):
        el = inner
    try:
        d = vars(el)
    except TypeError:
        return repr(el)
    return freeze({k: v for k, v in d.items() if not callable(v)})


def _state(t, k, cum_len):
    out = (k, cum_len)
    for fr, el in zip(t.frs, t.els):
        bi = getattr(fr, "_buffer_in", None)
        bo = getattr(fr, "_buffer_out", None)
        out += (getattr(fr, "_n_count", None),
                None if bi is None else repr(list(bi)), None if bo is None else repr(list(bo)),
                _el_content(el))
    return out


def _buffer_kind(cfg):
    return cfg["buffer"]


# --------------------------------------------------------------------------------------------------
# word driver

class _WordModel(object):
    """Expected cumulative results after k fills, from the block reference."""

    def __init__(self, cfg, form, L):
        pre = _pre if form == "frs" else None
        values = M.flow_values(cfg["kind"], L)
        self.values = values
        fed = [pre(v) for v in values] if pre else values
        self.fed = fed
        blocks = M.ref_blocks(cfg["kind"], fed, cfg["n"], cfg["reset"], False, "fill")
        if form == "frs":
            blocks = [[_post(r) for r in b] for b in blocks]
        self.blocks = blocks
        self.n = cfg["n"]

    def expected_after(self, k):
        return M.concat(self.blocks[:k // self.n])


def _word_features(word, n):
    """(a request happened off a block boundary, a fill arrived while a complete block was pending,
    which of the two irregularities came first)"""
    fills = 0
    served = 0  # complete blocks handed out by the model so far
    off = over = False
    first = "none"
    for ev in word:
        if ev == "F":
            if fills // n > served:
                over = True
                if first == "none":
                    first = "fill-past-full-block"
            fills += 1
        else:
            if fills % n:
                off = True
                if first == "none":
                    first = "request-off-boundary"
            served = fills // n
    return off, over, first


def judge_word(res, cfg, form, word, model, states, samples_limit=2):
    """Rebuild, replay word[:-1] (known to agree with the model), execute and judge the last event.
    Returns True when the history may be extended."""
    n = cfg["n"]
    case = {"law": "word", "form": form, "kind": cfg["kind"], "n": n, "buffer": cfg["buffer"],
            "reset": cfg["reset"], "yor": cfg["yor"], "word": word}
    if _names(cfg) != "default":
        case["names"] = _names(cfg)
    if "outer" in cfg:
        case["outer"] = list(cfg["outer"])
    off, over, first = _word_features(word, n)
    # everything that touches the code under test is inside a judged region: a failure to build the
    # object, or one in the replayed prefix, is an observation, not an accident of the harness
    try:
        t = _Target(cfg, form)
    except Exception as e:  # noqa
        res.case(nontrivial=False, outcome=(form, cfg["kind"], "no-object", type(e).__name__))
        cause = {"law": "fill-request-word", "form": form, "defect": "no-object-with-fill-and-request",
                 "exception": type(e).__name__, "kind_class": M.kind_class(cfg["kind"]),
                 "names": _names(cfg)}
        res.violation(case, "building the object and taking its fill and request raised %s"
                      % type(e).__name__, "an object with fill() and request()", cause)
        return False
    nb = len(t.frs)
    k = 0
    cum = [[] for _ in range(nb)]
    per_request = [[] for _ in range(nb)]
    try:
        for ev in word[:-1]:
            if ev == "F":
                t.fill(model.values[k])
                k += 1
            else:
                for b, part in enumerate(_per_branch(form, list(t.request()))):
                    per_request[b].append(part)
                    cum[b].extend(part)
    except Exception as e:  # noqa
        res.case(nontrivial=False, outcome=(form, cfg["kind"], "prefix", type(e).__name__))
        cause = {"law": "fill-request-word", "form": form, "defect": "history-not-reproducible",
                 "exception": type(e).__name__, "kind_class": M.kind_class(cfg["kind"]),
                 "names": _names(cfg)}
        res.violation(case, "a prefix that agreed with the model on a fresh object raised %s when "
                      "repeated on another fresh object" % type(e).__name__,
                      "fresh objects behave alike", cause)
        return False
    res.count("calls_replayed", len(word) - 1)
    ev = word[-1]
    problem = None  # (defect, observed, expected)
    branch = None
    call = "fill" if ev == "F" else "request"
    got = None
    try:
        with step_budget(call_limit(k) * nb) as st:
            if ev == "F":
                t.fill(model.values[k])
            else:
                got = list(t.request())
        res.maximum("lena_lines_in_one_fill_or_request", st["n"] // nb)
        res.maximum("lena_lines_per_fill_x100", (100 * st["n"]) // (nb * (k + 1)))
    except StepBudgetExceeded:
        problem = ("call-does-not-return", "%s() exceeded the step budget of %d lena lines"
                   % (call, call_limit(k) * nb), "%s() returns" % call)
    except Exception as e:  # noqa
        problem = ("exception", "%s() raised %s" % (call, type(e).__name__), "%s() returns" % call)
    if ev == "F":
        k += 1
    res.transitions += 1
    expected = model.expected_after(k)
    if problem is None and ev == "R":
        try:
            parts = _per_branch(form, got)
        except _Shape:
            problem = ("result-of-another-shape", {"request": repr(got)},
                       "one tuple per result, one item per zipped adapter")
            parts = []
        for b, part in enumerate(parts):
            per_request[b].append(part)
            cum[b].extend(part)
        for b in range(nb if problem is None else 0):
            if not cfg["yor"]:
                if cum[b] != expected:
                    problem = ("results-differ", {"per_request": per_request[b]},
                               {"concatenated": expected})
            else:
                shown = per_request[b]
                if form == "frs":
                    shown = [[r[1] for r in g] for g in shown]
                problem = _accounting_problem(cfg, model, k, shown)
            if problem is None:
                bi = getattr(t.frs[b], "_buffer_in", None)
                bo = getattr(t.frs[b], "_buffer_out", None)
                if isinstance(bo, list) and bo:
                    problem = ("output-buffer-not-empty-after-request", {"_buffer_out": repr(bo)},
                               "_buffer_out empty after request()")
                elif isinstance(bi, list) and len(bi) >= n:
                    problem = ("input-buffer-holds-a-block-after-request", {"_buffer_in": repr(bi)},
                               "fewer than bufsize values held after request()")
            if problem is not None:
                branch = b
                break
    nontrivial = (off or over) and k >= n
    shown_cum = repr(cum[0]) if nb == 1 else repr(cum)
    res.case(nontrivial=nontrivial,
             outcome=(cfg["kind"], cfg["reset"], n, shown_cum, problem[0] if problem else None))
    if problem is None:
        states.add((form, cfg["kind"], n, cfg["buffer"], cfg["reset"], cfg["yor"], _names(cfg))
                   + (_outer(cfg) if "outer" in cfg else ()) + _state(t, k, len(cum[0])))
        if ev == "R":
            res.traces += 1
            if nontrivial:
                res.sample(case, samples_limit)
        res.maximum("word_length", len(word))
        return True
    cause = {"law": "fill-request-word", "form": form, "defect": problem[0], "call": call,
             "kind_class": M.kind_class(cfg["kind"]), "buffer": cfg["buffer"], "reset": cfg["reset"],
             "yield_on_remainder": cfg["yor"], "first_irregularity": first}
    if _names(cfg) != "default":
        cause["names"] = _names(cfg)
    if "outer" in cfg:
        cause["sequence_reset"], cause["sequence_buffer"] = _outer(cfg)[1], _outer(cfg)[2]
    if nb > 1 and branch is not None:
        # which of the zipped adapters: the first one is consumed to its end, the others are left
        # suspended at their last result
        cause["zipped_adapter"] = BRANCH_NAMES[branch]
    res.violation(case, problem[1], problem[2], cause)
    return False


def _accounting_problem(cfg, model, k, per_request):
    """yield_on_remainder on: every value filled so far is shown, no result shows a value twice."""
    kind = cfg["kind"]
    shown = set()
    for got in per_request:
        for r in got:
            try:
                vs = M.values_in_result(kind, r)
            except TypeError:       # not a result of this element at all (e.g. a bare flow value)
                return ("result-of-another-shape", {"per_request": per_request},
                        "results of the wrapped element")
            if vs is None:
                return None
            try:
                regular = len(set(vs)) == len(vs) and vs == sorted(vs)
            except TypeError:       # values of another kind than the ones fed (a result shown as a value)
                regular = False
            if not regular:
                return ("value-twice-or-out-of-order-in-one-result", {"per_request": per_request},
                        "each result shows distinct values in flow order")
            shown.update(vs)
    fed = model.fed[:k]
    missing = [v for v in fed if v not in shown]
    foreign = sorted((v for v in shown if v not in fed), key=repr)
    if missing or foreign:
        return ("value-never-shown", {"per_request": per_request, "missing": missing, "foreign": foreign},
                {"all of": fed})
    return None


def explore_words(res, cfg, form, L):
    model = _WordModel(cfg, form, L)
    states = set()
    frontier = [""]
    for depth in range(1, L + 1):
        new = []
        for p in frontier:
            for ev in "FR":
                if judge_word(res, cfg, form, p + ev, model, states):
                    new.append(p + ev)
        frontier = new
    res.states += len(states)


# --------------------------------------------------------------------------------------------------
# run driver

def judge_run(res, cfg, length, with_none=False):
    kind, n = cfg["kind"], cfg["n"]
    case = dict(cfg)
    case.update({"law": "run", "len": length})
    values = M.flow_values(kind, length)
    if with_none:
        case["none_values"] = True
        values = M.flow_values_with_none(kind, length)
    via = "run" if kind in M.USES_EL_RUN else "fill"
    expected = M.concat(M.ref_blocks(kind, values, n, cfg["reset"], cfg["yor"], via))
    problem = None
    got = None
    try:
        fr, _ = build_fr(cfg)
        with step_budget(run_limit(length)) as st:
            got = list(fr.run(iter(values)))
        res.maximum("lena_lines_in_one_run", st["n"])
        res.maximum("lena_lines_per_flow_value_x100", (100 * st["n"]) // (length + 1))
    except StepBudgetExceeded:
        problem = ("call-does-not-return", "run() exceeded the step budget")
    except Exception as e:  # noqa
        problem = ("exception", "run() raised %s" % type(e).__name__)
    if problem is None and got != expected:
        problem = ("results-differ", got)
    if problem is None:
        # a second flow through the same adapter object: run() cuts *that* flow into blocks, so the
        # adapter itself carries nothing from one finished run to the next (what the wrapped element
        # keeps is its own business): a new adapter around an equally used element must give the same
        try:
            fr_a, _ = build_fr(cfg)
            fr_b, el_b = build_fr(cfg)
            list(fr_a.run(iter(M.flow_values(kind, length))))
            list(fr_b.run(iter(M.flow_values(kind, length))))
            second = M.flow_values(kind, 2 * n + 1)
            with step_budget(run_limit(2 * n + 1)):
                got_a = list(fr_a.run(iter(second)))
            fresh_adapter = lena.core.FillRequest(el_b, **_kw(cfg))
            got_b = list(fresh_adapter.run(iter(M.flow_values(kind, 2 * n + 1))))
            res.count("second_runs_compared")
            if got_a != got_b:
                problem = ("second-run-differs-from-new-adapter", {"second_run": got_a, "new_adapter": got_b})
                expected = got_b
        except StepBudgetExceeded:
            problem = ("call-does-not-return", "second run() exceeded the step budget")
        except Exception as e:  # noqa
            problem = ("exception", "second run() raised %s" % type(e).__name__)
    res.case(nontrivial=length > n, outcome=(kind, n, cfg["reset"], repr(got)))
    if length > n and _names(cfg) == "default":
        res.sample(case, 2)
    if problem is not None:
        cause = {"law": "run", "defect": problem[0], "kind": kind, "reset": cfg["reset"],
                 "buffering": "unused-yield_on_remainder" if cfg["yor"] else cfg["buffer"]}
        if with_none:
            cause["none_among_the_values"] = True
        if _names(cfg) != "default":
            cause["names"] = _names(cfg)
        res.violation(case, problem[1], expected, cause)


# --------------------------------------------------------------------------------------------------
# an element that refuses a value (LenaStopFill): the refused value is not part of any block

class _StopStore(object):
    """fill/compute element: stores values, raises LenaStopFill instead of storing the (j+1)-th."""

    def __init__(self, j):
        self.j, self.vals = j, []

    def fill(self, value):
        if len(self.vals) >= self.j:
            raise lena.core.LenaStopFill()
        self.vals.append(value)

    def compute(self):
        yield list(self.vals)

    def reset(self):
        self.j -= len(self.vals)
        self.vals = []


def judge_stopfill(res, n, j, reset, buffer):
    """Fill until the element signals LenaStopFill, then request once (what Split does with such a
    branch): the results are those of run() over the accepted values - complete blocks only."""
    case = {"law": "stopfill", "n": n, "accepted": j, "reset": reset, "buffer": buffer}
    kw = dict(bufsize=n, reset=reset)
    kw["buffer_input" if buffer == "input" else "buffer_output"] = True
    values = list(range(1, j + 3))
    try:
        fr = lena.core.FillRequest(_StopStore(j), **kw)
        got = []
        stopped = False
        with step_budget(call_limit(len(values) + 2)):
            for v in values:
                try:
                    fr.fill(v)
                except lena.core.LenaStopFill:
                    stopped = True
                    break
            got = list(fr.request())
        want = list(lena.core.FillRequest(_StopStore(10 ** 6), **kw).run(iter(values[:j])))
        problem = None if (stopped and got == want) else ("not-stopped" if not stopped else "results-differ")
    except StepBudgetExceeded:
        problem, got, want = "call-does-not-return", None, None
    except Exception as e:  # noqa
        problem, got, want = "exception " + type(e).__name__, None, None
    res.case(nontrivial=j >= n, outcome=("stopfill", n, j, reset, buffer, repr(got)))
    if problem:
        res.violation(case, got, want, {"law": "stopfill", "defect": problem.split()[0], "reset": reset,
                                        "buffering": buffer, "refused_value_would_complete_a_block":
                                        (j + 1) % n == 0})


# --------------------------------------------------------------------------------------------------
# Split driver

def _split_bufsizes(n):
    return list(range(1, 2 * n + 2)) + [1000, None]


def _relation(B, n):
    if B is None:
        return "none"
    if B == n:
        return "equal"
    if B % n == 0:
        return "multiple-of-block"
    if n % B == 0:
        return "divisor-of-block"
    return "misaligned"


def judge_split(res, cfg, form, B, length):
    kind, n = cfg["kind"], cfg["n"]
    case = dict(cfg)
    case.update({"law": "split", "form": form, "B": B, "len": length})
    values = M.flow_values(kind, length)
    wrapped = form in ("tuple", "seq")      # pre and post around the adapter
    fed = [_pre(v) for v in values] if wrapped else values
    blocks = M.ref_blocks(kind, fed, n, cfg["reset"], False, "fill")
    expected = M.concat(blocks)
    if wrapped:
        expected = [_post(r) for r in expected]
    rel = _relation(B, n)
    base_cause = {"law": "split-around-fillrequest", "form": form, "split_bufsize": rel,
                  "kind_class": M.kind_class(kind), "buffer": cfg["buffer"], "reset": cfg["reset"],
                  "yield_on_remainder": cfg["yor"]}
    if form == "seq":
        base_cause["sequence_reset"], base_cause["sequence_buffer"] = _outer(cfg)[1], _outer(cfg)[2]
    nontrivial = length > n and rel != "equal"
    try:
        fr, _ = build_fr(cfg)
        if form == "bare":
            branch = fr
        elif form == "tuple":
            branch = (_pre, fr, _post)
        else:
            # a FillRequestSeq made by the user, with options of its own: Split fills it with the
            # buffer contents and requests it, like the one it makes itself from a tuple
            branch = lena.core.FillRequestSeq(_pre, fr, _post, **_outer_kw(_outer(cfg)))
        split = lena.core.Split([branch], bufsize=B)
    except Exception as e:  # noqa
        res.case(nontrivial=nontrivial, outcome=("construction", type(e).__name__))
        cause = {"law": "split-around-fillrequest", "form": form, "split_bufsize": rel,
                 "defect": "construction-raises-" + type(e).__name__}
        res.violation(case, "Split(...) raised %s" % type(e).__name__, expected, cause)
        return
    problem = None
    got = None
    try:
        with step_budget(run_limit(length)) as st:
            got = list(split.run(iter(values)))
        res.maximum("lena_lines_in_one_run", st["n"])
        res.maximum("lena_lines_per_flow_value_x100", (100 * st["n"]) // (length + 1))
    except StepBudgetExceeded:
        problem = ("call-does-not-return", "Split.run exceeded the step budget", expected)
    except Exception as e:  # noqa
        problem = ("exception", "Split.run raised %s" % type(e).__name__, expected)
    if problem is None:
        if not cfg["yor"]:
            if got != expected:
                problem = ("results-differ", got, expected)
        else:
            unpost = [r[1] for r in got] if wrapped else got

            class _M(object):
                pass
            m = _M()
            m.fed = fed
            p = _accounting_problem(cfg, m, length, [unpost])
            if p is not None:
                problem = (p[0], got, p[2])
    res.case(nontrivial=nontrivial, outcome=(kind, n, cfg["reset"], repr(got)))
    res.traces += 1 if problem is None else 0
    if nontrivial:
        res.sample(case, 2)
    if problem is not None:
        cause = dict(base_cause)
        cause["defect"] = problem[0]
        res.violation(case, problem[1], problem[2], cause)


# --------------------------------------------------------------------------------------------------
# FillRequestSeq.run driver

def _element_by_blocks(el, values, m, reset, partial):
    """The first sentence of the statement, read for an element that is a real object: what *el* yields
    for each consecutive block of m values, filled and requested directly, *el* being reset between
    blocks when *reset*; the final partial block only when *partial*."""
    out = []
    for start in range(0, len(values), m):
        block = values[start:start + m]
        if len(block) < m and not partial:
            break
        for v in block:
            el.fill(v)
        out.extend(el.request())
        if reset:
            el.reset()
    return out


def judge_frs(res, cfg, m, length, oreset=False, obuffer="input", oyor=False):
    """FillRequestSeq(pre, FillRequest(el, n), post, bufsize=m, reset, buffer mode,
    yield_on_remainder).run: the adapter the sequence wraps around itself cuts the flow into blocks
    of m; the sequence is its element."""
    kind, n = cfg["kind"], cfg["n"]
    case = dict(cfg)
    case.update({"law": "frs-run", "m": m, "len": length})
    default = (oreset, obuffer, oyor) == (False, "input", False)
    if not default:
        case.update({"oreset": oreset, "obuffer": obuffer, "oyor": oyor})
    okw = _outer_kw((m, oreset, obuffer), oyor)
    values = M.flow_values(kind, length)
    # the values of the complete outer blocks (and of the final partial one with yield_on_remainder)
    # reach the inner adapter; it yields for its own complete blocks of them
    usable = [_pre(v) for v in (values if oyor else values[:(length // m) * m])]
    expected = None
    if not oreset or m % n == 0:
        # outer reset: the sequence's reset is "Reset the FillRequest element", whose reset is "Reset
        # el (ignoring the initialization setting)": when an outer block is a whole number of inner
        # blocks this is a reset of the element after every (m / n)-th block. What a reset in the
        # middle of an inner block means for that block the statement does not say: there only the
        # differential oracle below is used.
        expected = [_post(r) for r in M.concat(M.ref_blocks(
            kind, usable, n, cfg["reset"], False, "fill", reset_every=(m // n) if oreset else None))]
    rel = _relation(m, n)
    problem = None
    got = None
    try:
        fr, _ = build_fr(cfg)
        frs = lena.core.FillRequestSeq(_pre, fr, _post, **okw)
        with step_budget(run_limit(length)) as st:
            got = list(frs.run(iter(values)))
        res.maximum("lena_lines_in_one_run", st["n"])
        res.maximum("lena_lines_per_flow_value_x100", (100 * st["n"]) // (length + 1))
    except StepBudgetExceeded:
        problem = ("call-does-not-return", "FillRequestSeq.run exceeded the step budget")
    except Exception as e:  # noqa
        problem = ("exception", "FillRequestSeq.run raised %s" % type(e).__name__)
    if problem is None and expected is not None and got != expected:
        problem = ("results-differ", got)
    if problem is None and not default:
        # differential: run() against a twin sequence that is filled, requested and reset block by
        # block here (the sequence as the wrapped element of the statement's first sentence)
        try:
            fr2, _ = build_fr(cfg)
            twin = lena.core.FillRequestSeq(_pre, fr2, _post, **okw)
            with step_budget(run_limit(length)):
                expected2 = _element_by_blocks(twin, values, m, oreset, oyor)
            res.count("sequence_runs_compared_with_twin")
            if got != expected2:
                problem = ("run-differs-from-sequence-driven-block-by-block", got)
                expected = expected2
        except StepBudgetExceeded:
            problem = ("call-does-not-return", "fill/request/reset of the twin exceeded the step budget")
        except Exception as e:  # noqa
            problem = ("exception", "fill/request/reset of the twin raised %s" % type(e).__name__)
    nontrivial = length > n and rel != "equal"
    res.case(nontrivial=nontrivial, outcome=(kind, n, cfg["reset"], repr(got)))
    res.traces += 1 if problem is None else 0
    if nontrivial:
        res.sample(case, 2)
    if problem is not None:
        cause = {"law": "fillrequestseq-run", "defect": problem[0], "outer_bufsize": rel,
                 "kind_class": M.kind_class(kind), "buffer": cfg["buffer"], "reset": cfg["reset"]}
        if not default:
            cause.update({"sequence_reset": oreset, "sequence_buffer": obuffer,
                          "sequence_yield_on_remainder": oyor})
        res.violation(case, problem[1], expected, cause)


# --------------------------------------------------------------------------------------------------

def run_shard(p, tier):
    d = _dom(tier)
    res = Result()
    drv = p["drv"]
    if drv == "stopfill":
        for n in range(1, d["N"] + 1):
            for j in range(0, 3 * n + 1):
                for reset in (True, False):
                    # with buffer_input the element is filled only inside request(): what a refusal
                    # there means is not stated, so only the mode that fills the element in fill()
                    judge_stopfill(res, n, j, reset, "output")
        return res
    if drv == "run":
        n = p["n"]
        for names in (M.NAMES if p["kind"] in M.RENAMABLE_KINDS else M.NAMES[:1]):
            for cfg in configs(p["kind"], n, names):
                for length in range(0, d["run_blocks"] * n + 2):
                    judge_run(res, cfg, length)
                    if length and p["kind"] in M.NONE_OK and names == "default":
                        judge_run(res, cfg, length, with_none=True)
    elif drv == "split":
        n = p["n"]
        if p.get("form") == "seq":
            oreset, obuffer = p["outer"]
            variants = [("seq", o) for o in outer_options(n, "ends") if o[1:] == (oreset, obuffer)]
        else:
            variants = [("bare", OUTER_DEFAULT), ("tuple", OUTER_DEFAULT)]
        for cfg0 in configs(p["kind"], n):
            for form, outer in variants:
                cfg = cfg0
                if form == "seq":
                    cfg = dict(cfg0)
                    cfg["outer"] = list(outer)      # always explicit for this form
                blocks = d["seq_len"] if form == "seq" else d["split_len"]
                for B in _split_bufsizes(n):
                    width = max(n, B if B not in (None, 1000) else n)
                    for length in range(0, blocks * width + 2):
                        judge_split(res, cfg, form, B, length)
    elif drv == "frs":
        n = p["n"]
        if "outer" in p:
            options = [tuple(p["outer"])]
        else:
            options = [(False, "input", False)]
        for kind in SEQ_KINDS:
            for cfg in configs(kind, n):
                if cfg["yor"]:
                    continue
                for oreset, obuffer, oyor in options:
                    for m in range(1, 2 * n + 2):
                        for length in range(0, d["split_len"] * max(n, m) + 2):
                            judge_frs(res, cfg, m, length, oreset, obuffer, oyor)
    elif drv == "word":
        if "outer" in p:
            # the options of the sequence: every combination but the one the longer words have
            for outer in outer_options(p["n"], "all"):
                if outer == OUTER_DEFAULT or list(outer[1:]) != list(p["outer"]):
                    continue
                for cfg in configs(p["kind"], p["n"]):
                    explore_words(res, with_outer(cfg, outer), "frs", d["Louter"])
        elif p.get("names"):
            for names in M.NAMES[1:]:
                for cfg in configs(p["kind"], p["n"], names):
                    explore_words(res, cfg, "bare", d["Lnames"])
        elif p["form"] == "bare":
            for cfg in p["cfgs"]:
                explore_words(res, cfg, "bare", d["L"])
        else:
            for cfg in configs(p["kind"], p["n"]):
                if "reset" in p and cfg["reset"] != p["reset"]:
                    continue
                explore_words(res, cfg, p["form"], d["Lform"])
    return res


def replay(case):
    res = Result()
    law = case.get("law")
    if law == "stopfill":
        judge_stopfill(res, case["n"], case["accepted"], case["reset"], case["buffer"])
        return result_violations(res)
    cfg = _cfg_of_case(case)
    if law == "word":
        word = case["word"]
        model = _WordModel(cfg, case["form"], len(word))
        # judge every prefix, as the exploration does; stop at the first violation
        for i in range(1, len(word) + 1):
            if not judge_word(res, cfg, case["form"], word[:i], model, set()):
                break
    elif law == "stopfill":
        judge_stopfill(res, case["n"], case["accepted"], case["reset"], case["buffer"])
    elif law == "run":
        judge_run(res, cfg, case["len"], bool(case.get("none_values")))
    elif law == "split":
        judge_split(res, cfg, case["form"], case["B"], case["len"])
    elif law == "frs-run":
        judge_frs(res, cfg, case["m"], case["len"], bool(case.get("oreset", False)),
                  case.get("obuffer", "input"), bool(case.get("oyor", False)))
    return result_violations(res)


LEVEL_TEXT = ("explicit-state exploration of the real FillRequest fill/request machine: every F/R history "
              "up to length 12 (thorough: 14) for every (element kind, bufsize 1..5 / 1..6, buffer mode, "
              "reset, yield_on_remainder) is executed on a freshly built object and compared step by step "
              "with a block reference model that drives a twin of the wrapped element (also through "
              "FillRequestSeq, Split and lena.flow.Zip, up to length 9 / 11, and for elements whose methods "
              "are given under other names, with and without decoys under the default names, up to "
              "length 8 / 10, and through a FillRequestSeq with every combination of its own bufsize "
              "(1, n, n+1), reset and buffer mode, up to length 7 / 9); plus exhaustive "
              "enumeration of run() over all flow lengths, of Split(bufsize=B) around a FillRequest "
              "branch (bare, tuple, or a user-made FillRequestSeq with options of its own) for B in "
              "1..2n+1, 1000, None, and of FillRequestSeq.run for outer bufsizes 1..2n+1 with every reset, "
              "buffer mode and yield_on_remainder of the sequence (with reset also against a twin sequence "
              "driven block by block); a sys.settrace step watchdog turns non-termination into an observation")
LEVEL_NOTE = ("bounded: histories up to the stated length, bufsize up to 5 (thorough 6), ten element kinds, "
              "three method namings, FillRequestSeq options bufsize x reset x buffer mode; request() consumed completely except by Zip for its second sequence "
              "(suspended after the last result); for yield_on_remainder=True under fill/request only termination "
              "and value accounting are judged (the statement fixes exact results for "
              "yield_on_remainder off only)")
TECHNIQUE = ("bounded exhaustive breadth-first exploration of event histories on the real object against "
             "a reference model, with a deterministic step watchdog")
