"""C02 - Evaluation is lazy: demand-driven consumption and bounded buffering.

Consumer-schedule exploration (driver E3).  For every pipeline of 1..2 (thorough: 1..3) streaming
elements of the alphabet, in the forms Sequence(*els).run(flow) and Source(flow_factory, *els)(), for
every finite flow of n values and for an unbounded flow, for bare and (data, context) values, the
real lena pipeline is executed once per consumer schedule (and, in the same way, every Slice of the
Slice sweep - the complete product of the ways of writing its arguments, Slice(stop), Slice(start,
stop), Slice(start, stop, step), with start and stop of every sign class and several magnitudes and
every step - as a one-element pipeline)

    built (never run) | run() called, never iterated | take k results, stop and drop the iterator
    (every k from 0 to the number of results) | take all results and observe the end

(and, in the container forms Sequence(*els).run(container) and Source(container, *els)(), for every
list and tuple of 0..n ready-made values: a flow "must be iterable ... for example, a list", and the
first element of a Source "can be ... an iterable"; reading a container is not observable, so these
forms are judged on invocations and printing only)

on an instrumented source that logs every pull and the observation of its end; user callables and
sys.stdout log every invocation; the consumer logs every result.  The merged event trace is judged
against the reference model of mc/ref/c02_model.py:

 (a) no event at all before the first next();
 (b) after k results: pulls (+1 if the end of the flow was observed) <= need(k), the composition of
     the per-element semantic demands (smallest number of inputs that determine the first k outputs
     of the element, found by brute force over continuations of the input with the element used as an
     eager function; Split: whole blocks, by the documented block schedule); nothing more is pulled
     when the consumer drops the iterator; each user callable was invoked on no more distinct values
     than its element may consume;
 (c) the number of source values still alive after the consumer dropped its results is at most the sum
     over the elements of (documented retention + 1 in flight): |negative index| for Slice, bufsize
     for Split, 1 for Count;
 (d) Split block protocol, read directly off the trace where Split is surrounded by 1:1 elements: at
     the first pull of block j+1 the consumer has received every result of blocks <= j;
 (e) observing the end behind a non-negative Slice pulls at most max(start, stop) values, so Slice(n)
     after an unbounded source terminates (a watchdog in the source turns non-termination into a
     verdict).
"""
import gc
import json
import sys

import lena.core

from mc.core import Result, result_violations, digest
from mc.ref import c02_model as M
from mc.ref.c02_model import END, ANY

ID = "C02"
LEVEL = "model_checking"
DESIGN_REF = "DESIGN.md section 5, C02"
RULE = ("every consumer schedule (built; run() called; take k and stop for every k; take all and "
        "observe the end) of every pipeline x form x flow of the alphabet is executed once on fresh "
        "lena objects; a schedule is non-trivial when the consumer took k >= 1 results and stopped "
        "while the reference demand need(k) is a finite number of source values (so at least one "
        "further pull or the observation of the end of the flow would be an observable excess); "
        "the Slice sweep adds, as one-element pipelines, Slice(stop), Slice(start, stop) and "
        "Slice(start, stop, step) for every start, stop and step of its bound (Slices that are already "
        "elements of the alphabet are not run twice); "
        "the container forms (the flow is a list or a tuple of ready-made values, handed to Sequence.run or "
        "standing as the first element of a Source) run the same schedules for every pipeline that contains "
        "a logging callable or Print and are judged on invocations and printing only (laws a, b); a schedule "
        "there is non-trivial under the same condition; "
        "schedules are distinct by construction of the enumeration; states are distinct "
        "(pipeline, form, flow, lifecycle stage, event trace) tuples")
ASSUMPTIONS = [
    "pipelines are built from: logging callables (identity, increment), Variable, Filter, Slice (stop; "
    "start,stop,step; negative stop; start with negative stop; negative start; both negative; negative "
    "start with positive stop; step > 1), Count, RunIf, Print, Context, UpdateContext, MakeFilename and "
    "Split (bufsize 1..3, copy_buf True/False) whose branches are explicit Sequences of such elements",
    "Slice sweep (one-element pipelines only, forms seq and source in the quick tier): start in None, "
    "0..2 (thorough 0..3), -1..-3; stop in None, 0..3 (thorough 0..3, 5), -1..-3; step absent, 2, 3 "
    "(thorough also None, 1, 4); negative indices are at most 3 in magnitude, which the continuations "
    "of the brute-force demand (up to 4 values) discriminate",
    "flows are fresh V(i) objects or (V(i), {'s': i}) pairs, n = 0..6 (thorough 0..7) values or unbounded; "
    "predicates look at the parity of i only; a pipeline that raises in the eager reference on a flow "
    "(Context on bare values) is skipped for that flow and counted",
    "container forms: the flow is a list or a tuple (thorough: both also as the first element of a Source; "
    "quick: Source of a list only) holding 0..3 (thorough 0..4) of the same values, every length including the "
    "empty and the one-value container; reading a container cannot be observed, so only the work on the "
    "values is judged there: no invocation and no printing before the first next(), each user callable "
    "invoked on no more distinct values than its element may consume for k results, nothing after the "
    "iterator is dropped; pipelines without a logging callable or Print are not run there (counted); no "
    "liveness law (the container keeps its values alive), no Split block protocol from pulls, no earlier "
    "abandoned run; the Slice sweep has no container forms (a lone Slice shows nothing there)",
    "the demand of a pipeline is the composition of the per-element demands (each element is judged as "
    "demand-driven on its own input), not the possibly smaller semantic minimum of the composed function",
    "the pulls made while *finding the end* of the results are bounded only where the statement gives a "
    "bound: behind a Slice with non-negative arguments (itertools.islice: at most max(start, stop) "
    "values), behind a Slice with stop <= start < 0 (always empty: 0 values) and behind a Slice with a "
    "negative start and a non-negative stop (empty as soon as the flow is known to have stop - start "
    "values; one further value of look-ahead is granted); for other elements nothing is demanded of "
    "the end and non-termination there is only counted",
    "on the unbounded flow only the k results that are determined by its first `horizon` values are "
    "scheduled; Slice with a negative start never yields there and is exercised with k = 0 only",
    "liveness counts original source values only (deep copies made by Split are not input values) and "
    "allows one value in flight per element",
]
NONTRIVIAL_FLOOR = {"quick": 20000, "thorough": 500000}
BUDGET_S = {"quick": 240, "thorough": 3000}

ONE = [["call", "id"]]
BASE = [
    ["call", "id"],
    ["call", "inc"],
    ["var"],
    ["filter", "even"],
    ["count"],
    ["runif", "even", [["call", "inc"]]],
    ["print"],
    ["context"],
    ["upd", "simple"],
    ["mkfn"],
    ["slice", [2]],
    ["slice", [1, 4, 2]],
    ["slice", [None, -1]],
    ["slice", [1, -1]],
    ["slice", [-2, None]],
    ["slice", [-2, -1]],
    ["slice", [-2, 3]],
    ["slice", [-2, -3]],
    ["esplit", 1000],
    ["split", 1, True, [[["call", "id"]]]],
    ["split", 2, True, [[["filter", "even"]], [["call", "inc"]]]],
    ["split", 3, False, [[["slice", [None, -1]]], [["call", "id"]]]],
    ["split", 2, True, [[["count"]]]],
]
EXTRA = [
    ["filter", "odd"],
    ["upd", "tmpl"],
    ["runif", "odd", [["filter", "even"]]],
    ["slice", [0]],
    ["slice", [1, None]],
    ["slice", [3, 1]],
    ["slice", [None, -2]],
    ["slice", [None, -1, 2]],
    ["slice", [-3, -1]],
    ["slice", [-1, -2]],
    ["split", 3, True, [[["call", "inc"], ["slice", [1]]], [["var"]]]],
    ["split", 2, False, [[["slice", [1, None]]]]],
    ["esplit", 2],
    ["esplit", None],
]


# The Slice sweep: the argument space of Slice as a complete product (every way of writing the
# arguments x every sign class and several magnitudes of start and stop x every step), each Slice
# being a one-element pipeline.  |negative index| <= 3 = M.H - 1 (the continuations of the
# brute-force demand are up to M.H values long).
SWEEP = {
    "quick": dict(starts=(None, 0, 1, 2, -1, -2, -3), stops=(None, 0, 1, 2, 3, -1, -2, -3), steps=(2, 3),
                  forms=("seq", "source")),
    "thorough": dict(starts=(None, 0, 1, 2, 3, -1, -2, -3), stops=(None, 0, 1, 2, 3, 5, -1, -2, -3),
                     steps=(None, 1, 2, 3, 4), forms=("seq", "seq-iterable", "source", "source-iter")),
}


def sweep_slices(tier, start):
    """Argument lists of the Slice sweep whose start is *start*: Slice(start, stop) and
    Slice(start, stop, step) for every stop and step; the one-argument way of writing, Slice(stop),
    goes with start None."""
    sw = SWEEP["thorough" if tier == "thorough" else "quick"]
    out = []
    if start is None:
        out += [[stop] for stop in sw["stops"]]
    out += [[start, stop] for stop in sw["stops"]]
    out += [[start, stop, step] for stop in sw["stops"] for step in sw["steps"]]
    return out


def _dom(tier):
    if tier == "thorough":
        return dict(alphabet=BASE + EXTRA, maxlen=3, nmax=7, kinf=8, horizon=20,
                    styles=("pair", "bare"), forms=("seq", "seq-iterable", "source", "source-iter"),
                    cforms=("seq-list", "seq-tuple", "source-list", "source-tuple"), cnmax=4,
                    sweep=SWEEP["thorough"])
    return dict(alphabet=BASE, maxlen=2, nmax=6, kinf=6, horizon=16,
                styles=("pair", "bare"), forms=("seq", "seq-iterable", "source", "source-iter"),
                cforms=("seq-list", "seq-tuple", "source-list"), cnmax=3,
                sweep=SWEEP["quick"])


def describe(tier):
    d = _dom(tier)
    sw = d["sweep"]
    nsl = sum(len(sweep_slices(tier, s)) for s in sw["starts"])
    return ("%d element kinds; pipelines of 1..%d elements; forms %s; flows of 0..%d values and an "
            "unbounded flow (results determined by its first %d values, at most %d taken); values %s; "
            "schedules: built, run, take k for every k, take all and observe the end; "
            "container forms %s with 0..%d values (pipelines with a logging callable or Print; judged on "
            "invocations and printing); "
            "Slice sweep: %d Slices as one-element pipelines = Slice(stop), Slice(start, stop), "
            "Slice(start, stop, step) for start in %s, stop in %s, step in %s, forms %s, same flows, "
            "values and schedules"
            % (len(d["alphabet"]), d["maxlen"], "/".join(d["forms"]), d["nmax"], d["horizon"],
               d["kinf"], "/".join(d["styles"]), "/".join(d["cforms"]), d["cnmax"], nsl, list(sw["starts"]), list(sw["stops"]),
               list(sw["steps"]), "/".join(sw["forms"])))


def shards(tier):
    d = _dom(tier)
    na = len(d["alphabet"])
    out = [{"bound": "len1", "len": 1}]
    out += [{"bound": "slice-sweep", "sweep": "slice", "start": s} for s in d["sweep"]["starts"]]
    if d["maxlen"] >= 2:
        out += [{"bound": "len2", "len": 2, "first": i} for i in range(na)]
    if d["maxlen"] >= 3:
        out += [{"bound": "len3", "len": 3, "first": i, "second": j}
                for i in range(na) for j in range(na)]
    return out


# ------------------------------------------------------------------------------------------------

def _pipe_sig(pipeline):
    return [M.kind_sig(s) for s in pipeline]


class _Ctx(object):
    """Per-shard accumulators that are not part of Result."""

    def __init__(self):
        self.states = set()
        self.solo = {}


def _culprit(ctx, pipeline, form, n, style, dom, law):
    """Name the element to blame: the first element that breaks the same law when it is the whole
    pipeline (on the same kind of flow); otherwise the composition itself."""
    if len(pipeline) == 1:
        return M.kind_sig(pipeline[0])
    for spec in pipeline:
        key = (json.dumps(spec), form, n is None, style)
        laws = ctx.solo.get(key)
        if laws is None:
            sub = Result()
            sctx = _Ctx()
            for nn in ([None] if n is None else range(dom["nmax"] + 1)):
                judge_combo(sub, sctx, [spec], form, nn, style, dom)
            laws = set(v["cause"].get("law") for v in result_violations(sub))
            ctx.solo[key] = laws
        if law in laws:
            return M.kind_sig(spec)
    return "composition:" + "+".join(_pipe_sig(pipeline))


def _split_direct(pipeline):
    """Index of the only Split if every other element is 1:1 (then source pulls are the pulls of
    the Split and the consumer's results are its results); else None."""
    idx = [j for j, s in enumerate(pipeline) if s[0] == "split"]
    if len(idx) != 1:
        return None
    if all(M.is_one_to_one(s) for j, s in enumerate(pipeline) if j != idx[0]):
        return idx[0]
    return None


STATELESS_KINDS = ("call", "var", "filter", "runif", "print", "context", "upd", "mkfn", "esplit", "split")


def stateless(pipeline):
    def ok(spec):
        if spec[0] == "split":
            return all(ok(s) for br in spec[3] for s in br)
        if spec[0] == "runif":
            return all(ok(s) for s in spec[2])
        return spec[0] in STATELESS_KINDS
    return all(ok(s) for s in pipeline)


# Container forms: the flow is a concrete container of ready-made values (documented as legal: "flow must be
# iterable ... for example, a list"; the first element of a Source "can be ... an iterable").  Reading a
# container cannot be observed, so these forms are judged on the work done on the values only: invocations
# of the user callables and printing (laws a, b: over-invocation, work-after-consumer-stopped).
CONTAINER_FORMS = {"seq-list": list, "seq-tuple": tuple, "source-list": list, "source-tuple": tuple}

OBSERVABLE_KINDS = ("call", "var", "filter", "runif", "print")


def observable(pipeline):
    """Does the pipeline contain an element whose work on a value is logged (user callable, Print)?"""
    def ok(spec):
        if spec[0] == "split":
            return any(ok(s) for br in spec[3] for s in br)
        return spec[0] in OBSERVABLE_KINDS
    return any(ok(s) for s in pipeline)


def _container(form, n, style, limit):
    """(tracker of the values, container holding n fresh values) for a container form."""
    tracker = M.Source(n, style, [], limit)
    return tracker, CONTAINER_FORMS[form](tracker)


class _Iterable(object):
    """A flow that is an iterable, not an iterator: a container-like object that generates its values
    lazily (here: hands out the instrumented source)."""

    def __init__(self, src):
        self._src = src

    def __iter__(self):
        return self._src


def run_schedule(pipeline, form, n, style, stage, k, limit, bound_live, warmup=False):
    """Execute one consumer schedule on fresh objects. Returns a dict of observations.
    *warmup*: before the schedule, the same pipeline object is run over another flow by a consumer
    that stops after one result and closes its generator (pipelines without state only)."""
    log = []
    M.SINK.log = log
    obs = {"work_at_build": None, "work_at_run": None, "taken": 0, "status": "ok",
           "live_excess": None, "after_close": None}
    try:
        els = [M.build_element(spec, log, j + 1) for j, spec in enumerate(pipeline)]
        cont = form in CONTAINER_FORMS
        if cont:
            # nothing is logged while the container is filled; it is complete before the pipeline is built
            src, flow = _container(form, n, style, limit)
        else:
            src = M.Source(n, style, log, limit)
        holder = [src]
        if form in ("seq", "seq-iterable", "seq-list", "seq-tuple"):
            seq = lena.core.Sequence(*els)
        elif cont:
            # the first element of the Source is the container itself
            seq = lena.core.Source(flow, *els)
        elif form == "source-iter":
            # the first element of the Source is the (one-shot) iterator itself, not a callable
            seq = lena.core.Source(src, *els)
        else:
            seq = lena.core.Source(lambda: holder[0], *els)
        if log:
            obs["work_at_build"] = list(log)
        if warmup:
            # an earlier, abandoned run of the same object (its events are not part of the trace judged)
            wlog = []
            M.SINK.log = wlog
            wsrc = M.Source(n, style, wlog, limit)
            holder[0] = wsrc
            try:
                wit = (seq.run(wsrc) if form == "seq" else
                       seq.run(_Iterable(wsrc)) if form == "seq-iterable" else seq())
                next(wit, None)
            except (M.Runaway, Exception):  # noqa: no first result to take - judged without warm-up
                wit = None
            # the consumer closes its generator: nothing of that flow may be held any longer
            try:
                if wit is not None and hasattr(wit, "close"):
                    wit.close()
            except (M.Runaway, Exception):  # noqa
                pass
            wit = None
            if wsrc.alive:
                gc.collect()
            obs["warm_alive"] = (wsrc.alive, wsrc.i)
            holder[0] = src
            M.SINK.log = log
            del log[:]
            obs["warm_log_len"] = len(wlog)
        if stage != "built":
            try:
                it = (seq.run(src) if form == "seq" else
                      seq.run(_Iterable(src)) if form == "seq-iterable" else
                      seq.run(flow) if form in ("seq-list", "seq-tuple") else seq())
            except (M.Runaway, Exception) as e:  # noqa: run() itself worked on the flow and failed
                it = iter(())
                obs["status"] = "run-call-" + ("runaway" if isinstance(e, M.Runaway) else "raised " + type(e).__name__)
                if not log:
                    log.append(("run-call-failed", type(e).__name__))
            if log:
                obs["work_at_run"] = list(log)
            if stage != "run" and obs["status"] == "ok":
                try:
                    for step in range(k):
                        r = next(it)
                        log.append("Y")
                        del r
                        obs["taken"] += 1
                        if src.alive > bound_live:
                            gc.collect()
                            if src.alive > bound_live and obs["live_excess"] is None:
                                obs["live_excess"] = (step + 1, src.i, src.alive)
                    if stage == "end":
                        try:
                            r = next(it)
                            del r
                            obs["status"] = "more-results"
                        except StopIteration:
                            log.append("X")
                except StopIteration:
                    obs["status"] = "fewer-results"
                except M.Runaway:
                    obs["status"] = "runaway"
                except Exception as e:  # noqa: the eager reference did not raise
                    obs["status"] = "raised " + type(e).__name__
            obs["pulls"], obs["end"], obs["events"] = (0, False, 0) if cont else (src.i, src.ends > 0, src.events())
            mark = len(log)
            try:
                del it
            except M.Runaway:
                pass
            if len(log) != mark:
                obs["after_close"] = log[mark:]
        else:
            obs["pulls"], obs["end"], obs["events"] = (0, False, 0) if cont else (src.i, src.ends > 0, src.events())
    finally:
        M.SINK.log = None
    obs["log"] = log
    return obs


def _schedules(pipeline, tables, n, dom):
    """[(stage, k, stage_demands or None, disagreements)] for this pipeline and flow."""
    nres = len(tables[-1].out)
    closed = tables[-1].out_closed
    out = [("built", 0), ("run", 0)]
    kmax = nres if n is not None else min(nres, dom["kinf"])
    out += [("take", k) for k in range(kmax + 1)]
    if closed and (n is not None or nres <= dom["kinf"]):
        out.append(("end", nres))
    return out


def judge_combo(res, ctx, pipeline, form, n, style, dom, only=None):
    """Run and judge every schedule of one (pipeline, form, flow). *only* = (stage, k) for replay."""
    base_case = {"pipeline": pipeline, "form": form, "n": n, "style": style}
    try:
        tables = M.analyse(pipeline, n, style, dom["horizon"])
    except M.RefError:
        res.count("skipped_pipeline_not_applicable_to_flow")
        return
    except M.RefMismatch:
        res.count("skipped_split_model_differs_from_eager_split")
        return
    cont = form in CONTAINER_FORMS
    # a container keeps all its values alive by itself, and its pulls are not seen: no liveness law,
    # no block protocol, no earlier abandoned run there
    bound_live = END if cont else M.live_bound(pipeline)
    limit = dom["horizon"] + 8
    sd = None if cont else _split_direct(pipeline)
    free_of_state = stateless(pipeline) and not cont
    for stage, k in _schedules(pipeline, tables, n, dom):
        if only is not None and (stage, k) != tuple(only[:2]):
            continue
        case = dict(base_case, stage=stage, k=k)
        if stage in ("built", "run"):
            dem = ([0] * (len(pipeline) + 1), 0)
        else:
            dem = M.demand(pipeline, tables, END if stage == "end" else k)
        if dem is None:
            res.count("not_scheduled_undetermined_on_unbounded_flow")
            continue
        stages, ndis = dem
        if ndis:
            res.count("oracle_crosscheck_disagreements", ndis)
        bound = stages[0]
        for warm in ((False, True) if (stage in ("take", "end") and free_of_state and form != "source-iter")
                     else (False,)):
            if only is not None and len(only) > 2 and bool(only[2]) != warm:
                continue
            if warm:
                case = dict(case, warmup=True)
                res.count("schedules_after_an_abandoned_run_of_the_same_object")
            _judge_schedule(res, ctx, case, pipeline, form, n, style, dom, stage, k, limit, bound_live,
                            stages, bound, sd, tables, warm)


def _judge_schedule(res, ctx, case, pipeline, form, n, style, dom, stage, k, limit, bound_live,
                    stages, bound, sd, tables, warm):
    """Run and judge one schedule (the body of the loop of judge_combo)."""
    for _once in (0,):
        obs = run_schedule(pipeline, form, n, style, stage, k, limit, bound_live, warmup=warm)
        log = obs["log"]
        strict = bound < END
        cont = form in CONTAINER_FORMS
        res.case(nontrivial=(stage == "take" and k >= 1 and strict and (not cont or observable(pipeline))),
                 outcome=(obs.get("pulls"), obs.get("end"), obs["taken"], len(log), obs["status"]))
        res.transitions += sum(1 for e in log if e in ("Y", "E", "X") or (type(e) is tuple and e[0] == "p"))
        res.count("callable_invocations", sum(1 for e in log if type(e) is tuple and e[0] == "c"))
        life = "B" if stage == "built" else "R"
        ctx.states.add(digest((json.dumps(pipeline), form, n, style, life, tuple(log))))
        if stage in ("take", "end"):
            res.traces += 1
            res.count("schedules_with_finite_demand" if strict else "schedules_demanding_the_whole_flow")
            if cont:
                res.count("schedules_on_a_container_flow_judged_on_calls_and_prints_only")
        res.sample(case, 3)

        def viol(law, observed, expected, **extra):
            cause = {"law": law, "element": _culprit(ctx, pipeline, form, n, style, dom, law)}
            cause.update(extra)
            if cont:
                cause["flow"] = "container"
            res.violation(case, observed, expected, cause,
                          note="pipeline kinds: %s" % " -> ".join(_pipe_sig(pipeline)))

        # (a) no work at construction / at run()
        if obs["work_at_build"]:
            viol("work-when-built", obs["work_at_build"][:6], "no pull, call or print")
        if obs["work_at_run"] and not obs["work_at_build"]:
            viol("work-at-run-call", obs["work_at_run"][:6], "no pull, call or print")
        if stage in ("built", "run"):
            continue
        if warm and obs.get("warm_alive") and obs["warm_alive"][0] > 0:
            viol("liveness", {"values_of_the_closed_earlier_run_still_alive": obs["warm_alive"][0],
                              "pulled_in_that_run": obs["warm_alive"][1]}, {"max_alive": 0},
                 after_closed_run=True)
        status = obs["status"]
        if status.startswith("run-call-"):
            continue        # already reported as work-at-run-call
        if status in ("fewer-results", "more-results") or status.startswith("raised"):
            # the lazy run disagrees with the eager run about *what* is produced: not this property
            res.count("skipped_results_differ_from_eager_reference")
            continue
        # (b)/(e) demand
        if status == "runaway":
            if strict:
                viol("overpull", {"pulls": obs["pulls"], "watchdog": True, "results_taken": obs["taken"]},
                     {"max_pulls_plus_end": bound}, whole_flow=True, phase=stage)
            else:
                res.count("lenient_nontermination_not_judged")
            continue
        if strict and not cont:
            res.count("moments_where_excess_observable")
            if obs["events"] > bound:
                viol("overpull", {"pulls": obs["pulls"], "end_observed": obs["end"], "results_taken": k},
                     {"max_pulls_plus_end": bound}, whole_flow=bool(obs["end"]), phase=stage)
        if obs["after_close"]:
            viol("work-after-consumer-stopped", obs["after_close"][:6], "no event after the iterator is dropped")
        # callable invocations: distinct values per callable <= inputs its element may consume
        per = {}
        for e in log:
            if type(e) is tuple and e[0] == "c":
                per.setdefault(e[1], set()).add(e[2])
        for label in sorted(per, key=repr):
            j = M.top_label(label)
            allowed = stages[j - 1]
            if allowed < END and len(per[label]) > allowed:
                res.violation(case, {"callable": repr(label), "distinct_values": len(per[label])},
                              {"max": allowed},
                              dict({"law": "over-invocation", "element": M.kind_sig(pipeline[j - 1])},
                                   **({"flow": "container"} if cont else {})),
                              note="pipeline kinds: %s" % " -> ".join(_pipe_sig(pipeline)))
        # (c) liveness
        if cont:
            continue
        res.count("liveness_moments_checked", obs["taken"])
        if obs["pulls"] > bound_live:
            res.count("liveness_schedules_where_pulled_exceeds_bound")
        if obs["live_excess"] is not None:
            viol("liveness", {"after_result": obs["live_excess"][0], "pulled": obs["live_excess"][1],
                              "alive": obs["live_excess"][2]}, {"max_alive": bound_live})
        # (d) Split block protocol, directly
        if sd is not None:
            t = tables[sd]
            b = t.b
            y = 0
            res.count("split_block_traces_checked")
            for e in log:
                if e == "Y":
                    y += 1
                elif type(e) is tuple and e[0] == "p" and e[1] > 0 and e[1] % b == 0:
                    blk = e[1] // b - 1
                    if blk < len(t.cum) and y < t.cum[blk]:
                        viol("split-next-block-before-results-handed-on",
                             {"pull": e[1], "results_received": y},
                             {"results_of_blocks_up_to": blk, "at_least": t.cum[blk]})
                        break


def _pipelines(p, dom, tier):
    al = dom["alphabet"]
    if p.get("sweep") == "slice":
        # Slices that are elements of the alphabet are run by the shard len1 (in every form)
        return [[["slice", a]] for a in sweep_slices(tier, p["start"]) if ["slice", a] not in al]
    if p["len"] == 1:
        return [[a] for a in al]
    if p["len"] == 2:
        return [[al[p["first"]], b] for b in al]
    return [[al[p["first"]], al[p["second"]], c] for c in al]


def run_shard(p, tier):
    dom = _dom(tier)
    res = Result()
    ctx = _Ctx()
    old = sys.stdout
    sys.stdout = M.SINK
    try:
        forms = dom["sweep"]["forms"] if p.get("sweep") else dom["forms"]
        cforms = () if p.get("sweep") else dom["cforms"]
        for pipeline in _pipelines(p, dom, tier):
            seen = observable(pipeline)
            for style in dom["styles"]:
                for form in forms:
                    for n in list(range(dom["nmax"] + 1)) + [None]:
                        judge_combo(res, ctx, pipeline, form, n, style, dom)
                for form in cforms:
                    if not seen:
                        # no user callable, no Print: nothing but the results can be observed there
                        res.count("container_forms_skipped_nothing_observable")
                        continue
                    for n in range(dom["cnmax"] + 1):
                        judge_combo(res, ctx, pipeline, form, n, style, dom)
    finally:
        sys.stdout = old
        M.SINK.log = None
    res.states = len(ctx.states)
    return res


def replay(case):
    tier = "thorough"
    dom = _dom(tier)
    res = Result()
    ctx = _Ctx()
    old = sys.stdout
    sys.stdout = M.SINK
    try:
        judge_combo(res, ctx, case["pipeline"], case["form"], case["n"], case["style"], dom,
                    only=(case["stage"], case["k"], bool(case.get("warmup"))))
    finally:
        sys.stdout = old
        M.SINK.log = None
    return result_violations(res)


LEVEL_TEXT = ("explicit-state exploration of consumer schedules: every pipeline of 1..2 (thorough 1..3) "
              "elements over 23 (37) streaming element kinds x 4 forms x 2 value styles x flows of 0..6 (0..7) "
              "values and an unbounded flow - and, for pipelines with a logging callable or Print, x 3 (4) "
              "container forms (the flow is a list / tuple of 0..3 (0..4) values given to Sequence.run or as "
              "the first element of a Source; judged on invocations and printing) - is executed on the real lena code once per consumer schedule "
              "(built, run() called, take k and stop for every k, observe the end) and its pull/call/yield "
              "event trace is compared with the demand computed by a brute-force determinacy model; in addition the "
              "argument space of Slice (3 ways of writing x 7 (8) starts x 8 (9) stops x 3 (6) steps, all sign "
              "classes) is swept as one-element pipelines under the same flows and schedules")
LEVEL_NOTE = ("holds for the enumerated alphabet and bounds only; the demand of a pipeline is the composition "
              "of per-element semantic demands; pulls made while finding the end of the results are bounded only "
              "behind non-negative Slices; liveness counts original source objects with one in flight per element; "
              "on container flows (list, tuple) only invocations of user callables and printing are observed, not "
              "the reading of the container")
TECHNIQUE = ("exhaustive enumeration of (pipeline, flow, consumer stop point) with instrumented source (or a plain "
             "list / tuple as the flow), callables and stdout; reference = eager element functions + brute-force determinacy over continuations")
