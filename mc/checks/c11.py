"""C11 - SplitIntoBins runs the analysis per cell on exactly that cell's values; IterateBins; MapBins.

Bounded exhaustive enumeration (driver E1).  Every case builds fresh lena objects from a JSON choice
list and executes the real code:

  * law "sib": SplitIntoBins(analysis, arg_var, edges) is filled with every flow (length 0..L) over a
    pool of arguments inside every cell, on every edge, just below / above and far outside the edges,
    bare and with context, then computed.  Oracle: for every cell an independent fresh copy of the
    analysis is filled with fresh copies of exactly the values whose argument the reference bisect
    (mc.ref.c11_model) puts into that cell, in arrival order; the j-th yielded histogram must be a
    histogram over the given edges whose every cell equals (deep, type-exact) the j-th result of that
    cell's private copy; the number of histograms is the minimum number of results over the cells;
    context.variable carries every attribute of the argument variable; nothing of a value outside
    the edges or of a cell's private context may leak into the histogram's context.
    The contexts the values carry include a context.variable left by an earlier variable in every
    relation to the argument variable (another type, the SAME type, an earlier composition that holds a
    sub-context of that type, no type): context.variable must still carry every attribute of the
    argument variable.
  * law "template" (judged by the same oracle): the analysis object handed to SplitIntoBins belongs to
    its owner, who may have filled values into it before (a copy of the sequence is a copy of it as it is
    when SplitIntoBins gets it: every cell's independent analysis is pre-filled the same way) and goes on
    filling values into it afterwards - at every subset of the points before each fill of SplitIntoBins
    and before compute.  What happens to that object after construction is irrelevant to every cell
    (the copies are private), and, differentially, SplitIntoBins is irrelevant to the object: in
    the end it computes what a twin computes that got the same values and never met a SplitIntoBins.
  * law "computes" (judged by the same oracle): compute() is a step of a history, not its end - it is
    also called (and consumed) at every non-empty subset of the points before each fill and after the
    last fill; every cell's private copy is computed at the same points, and EVERY compute must yield
    the histograms of what the private copies compute then, with context.variable describing the
    argument variable (state that survives a compute - flags, caches, kept generators - shows here).
  * law "iterate": IterateBins over such a histogram yields every cell exactly once, its data the cell's
    data, its context the cell's context plus context.bin.edges = that cell's edges and context.bins =
    the histogram's context.
  * law "edges-str": the same enumeration with create_edges_str = cell_to_string under every combination
    of its documented keyword options (coord_names, coord_fmt, coord_join, reverse; given as a
    functools.partial) and with the element's default: context.bin.edges_str of every cell is, by the
    docstring of cell_to_string, each coordinate's (lower bound, name, upper bound) formatted with
    coord_fmt, joined with coord_join, the coordinates in reverse order if reverse - for that cell's own
    edges.  Names: the explicit ones, else the documented ones (the name of a one-dimensional variable,
    the names of a Combine), else (nothing documented) the ones cell_to_string uses without options.
    A custom create_edges_str must be given (the cell's edges, the histogram's variable) and its answer
    must be the cell's edges_str.
  * law "map": MapBins(seq) over such a histogram yields histograms of identical edges and shape whose
    every cell equals a fresh copy of seq applied to the corresponding cell (j-th result in the j-th
    histogram, data only unless drop_bins_context=False).
"""
import copy
import functools
import itertools

import lena.core
import lena.flow
import lena.math
import lena.structures
import lena.variables

from mc.core import Result, result_violations
from mc.instrument import freeze
from mc.ref import c11_model as M

ID = "C11"
LEVEL = "exploration"
DESIGN_REF = "DESIGN.md section 5, C11"
RULE = ("every (edges, analysis, argument variable, context mode, flow of pool arguments) is executed "
        "once on the real SplitIntoBins and every cell of every yielded histogram compared with an "
        "independently filled private copy of the analysis; a SplitIntoBins case is non-trivial when at "
        "least two cells receive values or values both inside and outside the edges occur; an "
        "IterateBins / MapBins case is non-trivial when the histogram has at least two cells with "
        "different contents; a template-history case (the analysis object handed over already holds a "
        "value and / or its owner fills values into it after construction, every subset of the points "
        "before each fill and before compute) is non-trivial when at least one value is routed into a "
        "cell; a compute-history case (compute() also called at a non-empty subset of the points before "
        "each fill and after the last fill, every compute judged against private copies computed at the "
        "same points) is non-trivial when at least one value is routed into a cell; an edges-string case "
        "(one option combination of cell_to_string on one histogram) is non-trivial when the histogram "
        "has at least two cells; cases are distinct by construction of the enumeration")
ASSUMPTIONS = [
    "edges are lists of numbers (1-d) or lists of such lists (2-d); arguments are small ints / dyadic "
    "floats (no NaN, no infinities); 2-d arguments are returned by the variable as a tuple or a list",
    "no two values of a flow share a context object (an in-place context mutation inside one cell "
    "would otherwise reach a value routed to another cell; the statement speaks of sub-flows of values)",
    "argument variables are Variable (untyped, typed with attributes) and Combine; Compose is not used",
    "a context.variable the values bring along is one of 5 shapes (none, another type, the type "
    "'coordinate' of the typed argument variables, a composition holding that type, untyped); of the "
    "resulting context.variable only the attributes of the argument variable are demanded (what is kept "
    "of the earlier variable, 'compose' included, belongs to C14)",
    "template histories: the owner of the analysis object only FILLS it (values of the first cell, own "
    "context objects); an analysis object that is edited in other ways, and edges or variable objects "
    "edited after construction, are not explored",
    "the rest of the histogram context (beyond context.variable) is accepted when it is empty, equals "
    "the (pristine or analysis-mutated) context of any in-range value, or their intersection",
    "compute histories: every compute() is consumed to its end before the history goes on; computing an "
    "analysis of the alphabet does not change what it computes later (the cells' private copies are "
    "computed at the same points anyway); of the context.variable of a compute() that is not the first "
    "one the list 'compose' is never judged (describing a typed variable once more may name its type "
    "again); SplitIntoBins has no reset",
    "MapBins is not judged on histograms whose cell data are lists (nested lists are dimensions for "
    "md_map by documented design); context of MapBins' output is not judged (not in the statement)",
    "IterateBins' edges_str is judged for create_edges_str = cell_to_string (default and every "
    "combination of one alternative value per documented option) and for a recording callable; where no "
    "docstring fixes the coordinate names (no context.variable, a multidimensional variable that is not "
    "a Combine) the names are those the real cell_to_string gives without other options (differential), "
    "so only their pairing with the edges, the format, the separator and the order are judged there",
]
NONTRIVIAL_FLOOR = {"quick": 20000, "thorough": 200000}
BUDGET_S = {"quick": 240, "thorough": 3000}

E1 = [0, 1, 2]
E2 = [0, 1, 3, 7]
E2F = [-1.5, 0, 0.25, 4]
E3 = [[0, 1, 2], [0, 5]]
E4 = [[0, 1], [0, 1, 2]]
E5 = [[0, 1, 3, 7], [0, 1, 2]]


def _plans(tier):
    """(edges, [plan, ...], follow-up max length); a plan is (vars, modes, flow lengths) or
    (vars, modes, flow lengths, follow-up max length of this plan).
    Plans of one edges entry never overlap, so no case is enumerated twice."""
    all1, all2 = list(M.VARS[1]), list(M.VARS[2])
    modes = list(M.CTX_MODES)
    vmodes = list(M.VAR_MODES)
    if tier == "thorough":
        return [
            (E1, [(all1, modes, [0, 1, 2, 3, 4]), (all1, vmodes, [0, 1, 2, 3], 1)], 3),
            (E2, [(all1, modes, [0, 1, 2, 3]), (["shift"], ["ctx"], [4]), (all1, vmodes, [0, 1, 2], 0)], 2),
            (E2F, [(all1, ["bare", "ctx"], [0, 1, 2, 3])], 1),
            (E3, [(all2, modes, [0, 1, 2]), (all2, ["bare", "ctx"], [3]), (all2, vmodes, [0, 1, 2], 0)], 2),
            (E4, [(all2, modes, [0, 1, 2]), (all2, ["bare", "ctx"], [3]), (all2, vmodes, [0, 1, 2], 0)], 2),
            (E5, [(["combine", "yx"], ["ctx"], [0, 1, 2])], 1),
        ]
    return [
        (E1, [(all1, modes, [0, 1, 2, 3]), (all1, vmodes, [0, 1, 2], 0)], 2),
        (E2, [(all1, ["bare", "ctx"], [0, 1, 2, 3]), (all1, ["varctx"], [0, 1, 2])], 1),
        (E3, [(all2, modes, [0, 1, 2]), (["xy"], ["ctx"], [3])], 1),
        (E4, [(all2, modes, [0, 1, 2]), (["yx"], ["bare"], [3]), (all2, vmodes, [0, 1], 0)], 1),
    ]


def _template_plans(tier):
    """(edges, vars, modes, flow lengths) of the law "template": for every flow every history of the
    template object - *pre* in TEMPLATE_PRE values filled into it before SplitIntoBins is constructed,
    and one more value filled into it at every subset of the points "before the k-th fill of
    SplitIntoBins" (k = 0..n-1) and "before compute" (k = n) - except the history in which nobody
    touches it, which is the law "sib"."""
    if tier == "thorough":
        return [
            (E1, list(M.VARS[1]), ["bare", "ctx"], [0, 1, 2, 3]),
            (E2, ["shift"], ["bare", "ctx"], [0, 1, 2]),
            (E3, list(M.VARS[2]), ["bare", "ctx"], [0, 1]),
            (E4, ["yx"], ["bare", "ctx"], [0, 1, 2]),
        ]
    return [
        (E1, ["shift"], ["bare", "ctx"], [0, 1, 2]),
        (E4, ["yx"], ["bare", "ctx"], [0, 1]),
    ]


TEMPLATE_PRE = (0, 1)
TWIN_MAX_LEN = 2


def _compute_plans(tier):
    """(edges, vars, modes, flow lengths) of the law "computes": for every flow of n values every
    history in which compute() is also called (and consumed) at a non-empty subset of the points "before
    the k-th fill" (k = 0..n-1) and "after the last fill" (k = n, i.e. compute() twice in a row) - the
    history with the final compute() alone is the law "sib"."""
    all1, all2 = list(M.VARS[1]), list(M.VARS[2])
    if tier == "thorough":
        return [
            (E1, all1, list(M.CTX_MODES), [0, 1, 2, 3]),
            (E1, all1, list(M.VAR_MODES), [0, 1, 2]),
            (E2, all1, ["bare", "ctx", "varctx"], [0, 1, 2]),
            (E3, all2, ["bare", "ctx", "varctx"], [0, 1, 2]),
            (E4, all2, ["bare", "ctx"], [0, 1, 2]),
        ]
    return [
        (E1, all1, ["bare", "ctx", "varctx"], [0, 1, 2]),
        (E2, all1, ["ctx", "varsame"], [0, 1]),
        (E3, all2, ["bare", "ctx"], [0, 1]),
        (E4, all2, ["ctx", "varctx"], [0, 1]),
    ]


def _compute_histories(n):
    """Every non-empty subset of the points 0..n, simplest first."""
    out = []
    for r in range(1, n + 2):
        for pts in itertools.combinations(range(n + 1), r):
            out.append(list(pts))
    return out


def _histories(n):
    """Every (pre, touch points) with somebody using the template object, simplest first."""
    out = []
    for pre in TEMPLATE_PRE:
        for r in range(n + 2):
            for touch in itertools.combinations(range(n + 1), r):
                if pre or touch:
                    out.append((pre, list(touch)))
    out.sort(key=lambda h: (h[0] + len(h[1]), h[0], h[1]))
    return out


def describe(tier):
    parts = []
    for edges, plans, follow in _plans(tier):
        for plan in plans:
            vs, ms, ls = plan[:3]
            fw = plan[3] if len(plan) > 3 else follow
            parts.append("edges %s: %d analyses x vars %s x contexts %s x all flows of length %s over "
                         "%d pool arguments, IterateBins (4 configurations) and MapBins (%d sequences x "
                         "drop_bins_context) on every histogram these yield for flows up to length %d"
                         % (edges, len(M.ANALYSES), "/".join(vs), "/".join(ms),
                            ",".join(map(str, ls)), len(M.arg_pool(edges)), len(M.MAP_SEQS), fw))
    for edges, vs, ms, ls in _template_plans(tier):
        parts.append("template histories on edges %s: %d analyses x vars %s x contexts %s x all flows of "
                     "length %s x (0 or 1 value in the analysis object before construction) x (one more "
                     "value filled into it at every subset of the points before each fill and before "
                     "compute)" % (edges, len(M.ANALYSES), "/".join(vs), "/".join(ms),
                                   ",".join(map(str, ls))))
    for edges, vs, ms, ls in _compute_plans(tier):
        parts.append("compute histories on edges %s: %d analyses x vars %s x contexts %s x all flows of "
                     "length %s x (compute() also called at every non-empty subset of the points before "
                     "each fill and after the last fill), every compute judged"
                     % (edges, len(M.ANALYSES), "/".join(vs), "/".join(ms), ",".join(map(str, ls))))
    parts.append("edges strings: %d option combinations of cell_to_string (and the element's default) on "
                 "every histogram that gets the follow-up laws for flows up to length %d and on the hand-made "
                 "histograms"
                 % (len(EDGES_STR_OPTS) - 1, EDGES_STR_FOLLOW[tier]))
    parts.append("plus hand-made histograms: 7 shapes x 7 cell kinds x 4 histogram contexts")
    return "; ".join(parts)


def shards(tier):
    out = []
    for edges, plans, follow in _plans(tier):
        big = M.dim_of(edges) > 1 or tier == "thorough"
        for an in M.ANALYSES:
            for plan in plans:
                vs, ms, ls = plan[:3]
                fw = plan[3] if len(plan) > 3 else follow
                if big and len(plan) == 3:
                    for v in vs:
                        out.append({"kind": "sib", "edges": edges, "an": an, "vars": [v],
                                    "modes": ms, "lens": ls, "follow": fw})
                else:
                    out.append({"kind": "sib", "edges": edges, "an": an, "vars": vs, "modes": ms,
                                "lens": ls, "follow": fw})
    tplans = [{"edges": e, "vars": vs, "modes": ms, "lens": ls} for e, vs, ms, ls in _template_plans(tier)]
    for an in M.ANALYSES:
        if tier == "thorough":
            for part in tplans:
                out.append({"kind": "template", "an": an, "parts": [part]})
        else:
            out.append({"kind": "template", "an": an, "parts": tplans})
    cplans = [{"edges": e, "vars": vs, "modes": ms, "lens": ls} for e, vs, ms, ls in _compute_plans(tier)]
    for an in M.ANALYSES:
        if tier == "thorough":
            for part in cplans:
                for v in part["vars"]:
                    out.append({"kind": "computes", "an": an, "parts": [dict(part, vars=[v])]})
        else:
            out.append({"kind": "computes", "an": an, "parts": cplans})
    for s in range(len(HAND_SHAPES)):
        out.append({"kind": "hand", "shape": s})
    # cheapest shards first (hand-made histograms, compute histories, template histories: seconds each),
    # so that a run that is cut by its time budget has completed every law at its smallest bound
    rank = {"hand": 0, "computes": 1, "template": 2, "sib": 3}
    out.sort(key=lambda p: rank[p["kind"]])
    return out


# ---------------------------------------------------------------------------------------------
# law "sib"
# ---------------------------------------------------------------------------------------------

def _execute_sib(case):
    """Run the real SplitIntoBins. Returns (outputs yielded, terminal, snapshot of var_context)."""
    edges = copy.deepcopy(case["edges"])
    d = M.dim_of(edges)
    var = M.build_var(case["var"])
    var_snapshot = copy.deepcopy(var.var_context)
    outs = []
    term = "end"
    if len(case["flow"]) <= 1:
        # start from a non-initial state of the process: another SplitIntoBins (typed variable, its own
        # analysis and edges) has computed an empty flow before and stays alive - instances are independent
        try:
            _SIBLING[0] = lena.structures.SplitIntoBins(
                lena.math.Sum(), lena.variables.Variable("sib", M.ident, type="sibling", unit="s"),
                [0, 1, 2])
            list(_SIBLING[0].compute())
        except Exception:  # noqa
            pass
    pre, touch = _history(case)
    points = _compute_points(case)
    earlier = []
    # the analysis object handed to SplitIntoBins, and what its owner does with it before and afterwards
    template = M.build_template(case["an"], edges, case["var"], case["mode"], pre)
    events = []
    try:
        sib = lena.structures.SplitIntoBins(template, var, edges)
        values = M.build_flow(case["flow"], case["var"], case["mode"])
        for k, v in enumerate(values):
            if k in points:
                earlier.append(_compute_now(sib))
            if k in touch:
                _use(template, M.template_value(edges, case["var"], case["mode"], k), events, k)
            sib.fill(v)
        if len(values) in points:
            earlier.append(_compute_now(sib))
        if len(values) in touch:
            _use(template, M.template_value(edges, case["var"], case["mode"], len(values)), events,
                 len(values))
        for o in sib.compute():
            outs.append(o)
    except Exception as e:  # noqa: the type is the outcome
        term = type(e).__name__
    _EARLIER[0] = earlier
    _VAR_AFTER[0] = (copy.deepcopy(var.var_context), var_snapshot)
    _TEMPLATE_AFTER[0] = (template, events)
    return outs, term, var_snapshot


_SIBLING = [None]
_EARLIER = [[]]          # (outputs, terminal) of every compute() before the final one, in order
_VAR_AFTER = [None]      # (var_context of the argument variable after the run, before the run)
_TEMPLATE_AFTER = [None]     # (the analysis object that was handed to SplitIntoBins, its fill events)


def _history(case):
    tpl = case.get("template") or {}
    return tpl.get("pre", 0), list(tpl.get("touch", []))


def _compute_points(case):
    """The points of a history at which compute() is called in addition to the final compute():
    k = before the k-th fill, len(flow) = after the last fill (the final compute follows at once)."""
    return sorted(set(case.get("computes") or []))


def _compute_now(sib):
    """One complete compute() in the middle of a history: (snapshot of its outputs, terminal). An
    exception of compute() is an outcome of this compute; the history goes on."""
    outs = []
    term = "end"
    try:
        for o in sib.compute():
            outs.append(o)
    except Exception as e:  # noqa
        term = type(e).__name__
    return copy.deepcopy(outs), term


def _use(analysis, value, events, k):
    """The owner of the analysis object fills one more value into it at point k (a failure is an
    observation that is compared with the twin's, never a verdict of its own)."""
    try:
        analysis.fill(value)
        events.append((k, "filled"))
    except Exception as e:  # noqa
        events.append((k, type(e).__name__))


def _computed(analysis):
    results = []
    try:
        for r in analysis.compute():
            results.append(r)
    except Exception as e:  # noqa
        return (freeze(results), type(e).__name__)
    return (freeze(results), "end")


def _template_problem(case):
    """The analysis object handed to SplitIntoBins stays its owner's: SplitIntoBins works on private
    copies, so afterwards the object computes what a twin computes that got the same values directly
    and was never shown to a SplitIntoBins (differential). None or (observed, expected)."""
    template, events = _TEMPLATE_AFTER[0]
    pre = _history(case)[0]
    edges = case["edges"]
    twin = M.build_template(case["an"], edges, case["var"], case["mode"], pre)
    twin_events = []
    for k, _ in events:      # the points that were reached (SplitIntoBins may have raised before the rest)
        _use(twin, M.template_value(edges, case["var"], case["mode"], k), twin_events, k)
    got = (_computed(template), events)
    want = (_computed(twin), twin_events)
    if got != want:
        return ({"computes": repr(got[0])[:300], "fills": events},
                {"computes": repr(want[0])[:300], "fills": twin_events})
    return None


def _observed_cells(outs, edges, n):
    """Frozen content of every cell of the first n outputs, or None if a histogram is malformed."""
    obs = []
    for j in range(n):
        hist, _ = M.split_value(outs[j])
        if not isinstance(hist, lena.structures.histogram) or not M.shape_ok(hist.bins, edges):
            return None
        obs.append([freeze(M.get_cell(hist.bins, idx)) for idx in M.all_cells(edges)])
    return obs


def _explain(case, outs, n):
    """Name the wrong behaviour that reproduces the observed histograms (for the cause)."""
    edges = case["edges"]
    obs = _observed_cells(outs, edges, n)
    if obs is None or n == 0:
        return "unexplained"
    cells = M.all_cells(edges)
    d = M.dim_of(edges)
    # all cells share one analysis object: every cell shows what all in-range values produce
    inside = [p for p, a in enumerate(case["flow"]) if M.cell_of(a, edges) is not None]
    values = M.build_flow(case["flow"], case["var"], case["mode"])
    pre = _history(case)[0]
    shared, _ = M.private_copy_results(M.build_template(case["an"], edges, case["var"], case["mode"], pre),
                                       [values[p] for p in inside])
    if len(shared) >= n and all(obs[j][k] == freeze(shared[j])
                                for j in range(n) for k in range(len(cells))):
        return "cells-share-one-analysis"
    for name, kw in (("routed-by-unextracted-data", dict(route_by="data")),
                     ("upper-edge-closed", dict(rule="upper-closed")),
                     ("outside-values-clipped-into-edge-cells", dict(rule="clip")),
                     ("last-edge-included", dict(rule="last-edge-included"))):
        alt = M.reference_cells(edges, case["an"], case["var"], case["mode"], case["flow"], pre=pre, **kw)
        if all(len(alt[idx][0]) >= n for idx in cells) and all(
                obs[j][k] == freeze(alt[idx][0][j]) for j in range(n) for k, idx in enumerate(cells)):
            return name
    return "unexplained"


def _context_problem(ctx, var_snapshot, ref, case, later=False):
    """None or (kind, detail) for the context yielded with a histogram (*later*: by a compute() that is
    not the first one of its SplitIntoBins)."""
    if ctx is None or not isinstance(ctx.get("variable"), dict):
        return ("no-context-variable", repr(ctx))
    cvar = ctx["variable"]
    for k, v in var_snapshot.items():
        if k == "compose":
            continue
        if k not in cvar or freeze(cvar[k]) != freeze(v):
            return ("variable-attribute-" + ("missing" if k not in cvar else "differs"), k)
    pristine = M.build_flow(case["flow"], case["var"], case["mode"])
    # the subcontext corresponds to arg_var: unless a value routed into a cell brought a variable of its
    # own (which the variable composes with), it is exactly the variable's own context
    routed = [p for idx in ref for p in ref[idx][2]]
    if not any("variable" in (M.split_value(pristine[p])[1] or {}) for p in routed):
        # (a later compute() without values in between describes the variable once more: whether the
        # list "compose" then names its type again is left open here, as everything about "compose")
        skip = ("compose",) if later else ()
        foreign = sorted(k for k in set(cvar) | set(var_snapshot)
                         if k not in skip and (k not in cvar or k not in var_snapshot
                                               or freeze(cvar[k]) != freeze(var_snapshot[k])))
        if foreign:
            return ("variable-foreign-attributes", foreign)
    rest = dict((k, v) for k, v in ctx.items() if k != "variable")
    if not rest:
        return None
    candidates = []
    inter = None
    for idx in sorted(ref):
        results, term, positions, sub = ref[idx]
        for p, used in zip(positions, sub):
            for v in (pristine[p], used):
                c = M.split_value(v)[1] or {}
                candidates.append(dict((k, x) for k, x in c.items() if k != "variable"))
            c0 = M.split_value(pristine[p])[1] or {}
            items = set((k, repr(freeze(x))) for k, x in c0.items() if k != "variable")
            inter = items if inter is None else (inter & items)
    fr = freeze(rest)
    if any(freeze(c) == fr for c in candidates):
        return None
    if inter is not None and set((k, repr(freeze(x))) for k, x in rest.items()) == inter:
        return None
    return ("foreign-keys-in-context", sorted(rest))


def check_sib(res, case, ref=None):
    """Judge one SplitIntoBins case. Returns the outputs (for the follow-up laws)."""
    edges = case["edges"]
    d = M.dim_of(edges)
    cells = M.all_cells(edges)
    pre, touch = _history(case)
    points = _compute_points(case)
    refs = []
    if points:
        # law "computes": every cell's private copy is computed at the same points of the history
        refs = M.reference_history(edges, case["an"], case["var"], case["mode"], case["flow"], points,
                                   pre=pre)
        ref = refs.pop()
    elif ref is None:
        ref = M.reference_cells(edges, case["an"], case["var"], case["mode"], case["flow"], pre=pre)
    outs, term, var_snapshot = _execute_sib(case)
    earlier = _EARLIER[0]

    n_max = max(len(ref[idx][0]) for idx in cells)
    filled = [idx for idx in cells if ref[idx][2]]
    n_in = sum(len(ref[idx][2]) for idx in cells)
    nontrivial = len(filled) >= 2 or (n_in >= 1 and n_in < len(case["flow"]))
    base = {"dim": d, "family": M.FAMILY[case["an"]]}
    if pre or touch:
        # law "template": a cell is filled while the object it was copied from holds other values
        nontrivial = n_in >= 1
        base["template"] = "used-by-its-owner"
        res.count("template_cases")
    if points:
        # law "computes": a value is routed into a cell of an element that is computed more than once
        nontrivial = n_in >= 1
        base["history"] = "several-computes"
        res.count("compute_history_cases")
    plain = not (pre or touch or points)

    def viol(law, kind, observed, expected, **more):
        cause = {"law": law, "kind": kind}
        cause.update(base)
        cause.update(more)
        res.violation(case, observed, expected, cause)

    def judge(outs, term, ref, number):
        """One compute() of the history (*number* computes went before it) against the cells' private
        copies computed at the same point. Returns (summary of what was yielded, something was wrong)."""
        n_exp = min(len(ref[idx][0]) for idx in cells)
        n_max = max(len(ref[idx][0]) for idx in cells)
        allowed_terms = set(ref[idx][1] for idx in cells if len(ref[idx][0]) == n_exp)
        more = {"compute": "first" if number == 0 else "later"} if points else {}
        summary = []
        n_cmp = min(len(outs), n_exp)
        res.count("histograms_compared", n_cmp)
        for j in range(n_cmp):
            hist, ctx = M.split_value(outs[j])
            if not isinstance(hist, lena.structures.histogram):
                viol("sib-histogram", "not-a-histogram", repr(type(hist)), "lena.structures.histogram",
                     **more)
                return summary, True
            if freeze(hist.edges) != freeze(edges):
                viol("sib-histogram", "edges-differ", repr(hist.edges), repr(edges), **more)
                return summary, True
            if not M.shape_ok(hist.bins, edges):
                viol("sib-histogram", "bins-shape", repr(hist.bins)[:300],
                     "nested lists of the shape of edges", **more)
                return summary, True
            for idx in cells:
                got = M.get_cell(hist.bins, idx)
                exp = ref[idx][0][j]
                res.count("cells_compared")
                if freeze(got) != freeze(exp):
                    viol("sib-cells", "cell-differs-from-private-copy",
                         {"histogram": j, "cell": list(idx), "content": repr(got)[:400],
                          "computes_before": number},
                         {"content": repr(exp)[:400], "values_of_cell": ref[idx][2]},
                         explained_by=_explain(case, outs, n_cmp) if plain else "not-examined",
                         border_value_in_flow=_has_border(case) if plain else False, **more)
                    return summary, True
            problem = _context_problem(ctx, var_snapshot, ref, case, later=number > 0)
            if problem is not None:
                viol("sib-context", problem[0],
                     {"context": repr(ctx)[:400], "detail": problem[1], "computes_before": number},
                     {"variable": var_snapshot}, ctx_mode=case["mode"],
                     typed_variable="type" in var_snapshot, **more)
                return summary, True
            summary.append((freeze(hist.bins), freeze(ctx)))
        if len(outs) < n_exp:
            if term == "end":
                viol("sib-count", "too-few-histograms", len(outs), n_exp, **more)
            else:
                viol("sib-count", "raised-before-all-histograms",
                     {"histograms": len(outs), "raised": term}, {"histograms": n_exp}, **more)
            return summary, True
        if len(outs) > n_exp:
            # Python-2 reading of the docstring: exhausted cells are padded with None
            padded = len(outs) == n_max and term == "end" and _padded_ok(outs, ref, cells, n_exp)
            if not padded:
                viol("sib-count", "too-many-histograms", len(outs), n_exp, **more)
                return summary, True
        elif term not in allowed_terms:
            if term == "end":
                viol("sib-count", "exception-of-a-cell-swallowed", "ended normally",
                     sorted(allowed_terms), **more)
            else:
                viol("sib-count", "raised", term, sorted(allowed_terms), exc=term, **more)
            return summary, True
        return summary, False

    summaries = []
    bad = False
    for number, (e_outs, e_term) in enumerate(earlier):
        summary, bad = judge(e_outs, e_term, refs[number], number)
        summaries.append((tuple(summary), len(e_outs), e_term))
        if bad:
            break
    if not bad:
        # (a fill that raised ends the history: the computes that were not reached are not judged,
        # the exception is the terminal of the final compute, as in a history with one compute)
        summary, bad = judge(outs, term, ref, len(earlier))
        summaries.append((tuple(summary), len(outs), term))
    after, before = _VAR_AFTER[0]
    if freeze(after) != freeze(before):
        # context.variable describes the argument variable; describing it must not rewrite it (the same
        # Variable object may serve another SplitIntoBins or another flow)
        viol("sib-context", "argument-variable-changed", {"var_context_after": repr(after)[:400]},
             {"var_context": before}, ctx_mode=case["mode"], typed_variable="type" in before)
    # (in the law "sib" proper the object is compared with its twin for flows up to TWIN_MAX_LEN values)
    tproblem = _template_problem(case) if (pre or touch or len(case["flow"]) <= TWIN_MAX_LEN) else None
    if tproblem is not None:
        viol("sib-template", "analysis-object-changed-by-SplitIntoBins", tproblem[0], tproblem[1])
    if term != "end":
        res.count("sib_ended_by_exception")
    res.count("sib_cases")
    res.maximum("results_per_cell", n_max)
    if points:
        res.case(nontrivial=nontrivial, outcome=("sib", case["an"], tuple(summaries), pre, tuple(touch)))
    else:
        res.case(nontrivial=nontrivial, outcome=("sib", case["an"], summaries[-1][0] if summaries else (),
                                                 len(outs), term, pre, tuple(touch)))
    return outs


def _has_border(case):
    axes = M.axes_of(case["edges"])
    for a in case["flow"]:
        coords = a if isinstance(a, list) else [a]
        for x, ax in zip(coords, axes):
            if x in ax:
                return True
    return False


def _padded_ok(outs, ref, cells, n_exp):
    for j in range(n_exp, len(outs)):
        hist, _ = M.split_value(outs[j])
        if not isinstance(hist, lena.structures.histogram):
            return False
        for idx in cells:
            try:
                got = M.get_cell(hist.bins, idx)
            except Exception:  # noqa
                return False
            results = ref[idx][0]
            if j < len(results):
                if freeze(got) != freeze(results[j]):
                    return False
            elif got is not None:
                return False
    return True


# ---------------------------------------------------------------------------------------------
# inputs of the follow-up laws
# ---------------------------------------------------------------------------------------------

HAND_SHAPES = [[0, 1], [0, 1, 2], [0, 1, 3, 7], [[0, 1], [0, 1]], [[0, 1, 2], [0, 5]],
               [[0, 1], [0, 1, 2]], [[0, 1, 3, 7], [0, 1, 2]]]
HAND_CELLS = ("int", "float", "pair", "pair_same_ctx", "tuple3", "nested_hist", "str")
HAND_HCTX = ("bare", "empty", "variable", "variable_histogram")


def _hand_cell(kind, k):
    if kind == "int":
        return k
    if kind == "float":
        return k + 0.5
    if kind == "pair":
        return (k, {"c": {"k": k}})
    if kind == "pair_same_ctx":
        return (k * 2, {"c": "same"})
    if kind == "tuple3":
        return (k, k + 1, {"not": "context"})
    if kind == "nested_hist":
        return (lena.structures.histogram([0, 1, 2], [k, 7]), {"h": k})
    if kind == "str":
        return "s%d" % k
    raise ValueError(kind)


def _hand_input(desc):
    edges = copy.deepcopy(HAND_SHAPES[desc["shape"]])
    axes = M.axes_of(edges)
    counter = itertools.count()

    def rec(k):
        if k == len(axes) - 1:
            return [_hand_cell(desc["cells"], next(counter)) for _ in range(len(axes[k]) - 1)]
        return [rec(k + 1) for _ in range(len(axes[k]) - 1)]
    hist = lena.structures.histogram(edges, rec(0))
    h = desc["hctx"]
    if h == "bare":
        return hist
    if h == "empty":
        return (hist, {})
    if len(axes) == 1:
        var = {"name": "x", "unit": "cm"}
    else:
        var = {"name": "x_y", "dim": 2, "combine": ({"name": "x"}, {"name": "y"})}
    ctx = {"variable": var}
    if h == "variable_histogram":
        ctx["histogram"] = {"dim": len(axes)}
        ctx["src"] = {"i": 3}
    return (hist, ctx)


def build_input(desc):
    """A fresh input value for IterateBins / MapBins from its JSON description."""
    if desc["from"] == "hand":
        return _hand_input(desc)
    outs, term, _ = _execute_sib(desc["sib"])
    if desc["j"] >= len(outs):
        return None
    return outs[desc["j"]]


def always(_):
    return True


class _Recorder(object):
    def __init__(self):
        self.calls = []
        self.answers = []

    def __call__(self, edges, var_context=None):
        self.calls.append(edges)
        answer = "cell%d" % len(self.calls)
        self.answers.append((_norm_edges(edges), copy.deepcopy(var_context), answer))
        return answer


def _norm_edges(e):
    try:
        return tuple((p[0], p[1]) for p in e)
    except Exception:  # noqa
        return ("malformed", repr(e))


def _input_facts(inp):
    hist, hctx = M.split_value(inp)
    cells = M.all_cells(hist.edges)
    contents = [M.get_cell(hist.bins, idx) for idx in cells]
    fr = [freeze(c) for c in contents]
    nontrivial = len(cells) >= 2 and len(set(fr)) >= 2
    return hist, hctx, cells, contents, nontrivial


ITER_CONFIGS = ("default", "all", "custom_str", "content")


def is_content(x):
    """select_bins "is used to test bin contents": true for a content, false for a (data, context) cell."""
    return not (isinstance(x, tuple) and len(x) == 2 and isinstance(x[1], dict))


def check_iterate(res, desc, config, inp=None):
    """IterateBins over one histogram value. *inp* is consumed (IterateBins edits cell contexts)."""
    case = {"law": "iterate", "input": desc, "config": config}
    if inp is None:
        inp = build_input(desc)
    if inp is None or not isinstance(M.split_value(inp)[0], lena.structures.histogram):
        return
    snap = copy.deepcopy(inp)
    hist, hctx, cells, contents, nontrivial = _input_facts(snap)
    datas = [M.split_value(c)[0] for c in contents]
    if config == "default" and not all(isinstance(x, lena.structures.histogram) for x in datas):
        return        # the default selector takes histograms whose bins are histograms
    if any(isinstance(M.split_value(c)[1], dict) and ("bin" in c[1] or "bins" in c[1])
           for c in contents):
        return        # nesting of older bin/bins sub-contexts is outside the statement
    d = len(M.axes_of(hist.edges))
    var = (hctx or {}).get("variable")
    cause_base = {"law": "iterate-bins", "dim": d, "config": config,
                  "variable": "none" if not isinstance(var, dict) else
                  ("combine" if "combine" in var else "plain")}
    rec = _Recorder()
    if config == "default":
        el = lena.structures.IterateBins()
    elif config == "all":
        el = lena.structures.IterateBins(select_bins=always)
    elif config == "content":
        if not all(is_content(x) for x in datas):
            return
        el = lena.structures.IterateBins(select_bins=is_content)
    else:
        el = lena.structures.IterateBins(create_edges_str=rec, select_bins=always)
    problems = None
    try:
        outs = list(el.run(iter([inp])))
    except Exception as e:  # noqa
        outs = None
        problems = ("raised", type(e).__name__)
    if outs is not None:
        by_edges = {}
        for o in outs:
            data, ctx = M.split_value(o)
            key = _norm_edges(((ctx or {}).get("bin") or {}).get("edges"))
            by_edges.setdefault(key, []).append((data, ctx))
        want = [_norm_edges(M.cell_edges(idx, hist.edges)) for idx in cells]
        if sorted(by_edges, key=repr) != sorted(want, key=repr) or \
                any(len(v) != 1 for v in by_edges.values()):
            problems = ("cells-not-enumerated-exactly-once",
                        {"outputs": len(outs), "cells": len(cells),
                         "edges_seen": sorted(map(repr, by_edges))})
        else:
            for idx, content, key in zip(cells, contents, want):
                cdata, cctx = M.split_value(content)
                data, ctx = by_edges[key][0]
                own = dict((k, v) for k, v in ctx.items() if k not in ("bin", "bins"))
                if freeze(data) != freeze(cdata):
                    problems = ("cell-data-differs", {"cell": list(idx), "data": repr(data)[:300]})
                elif freeze(own) != freeze(cctx or {}):
                    problems = ("cell-context-differs", {"cell": list(idx), "context": repr(own)[:300],
                                                         "cell_context": repr(cctx)[:300]})
                elif "bins" not in ctx or freeze(ctx["bins"]) != freeze(hctx or {}):
                    problems = ("histogram-context-not-in-context.bins",
                                {"cell": list(idx), "bins": repr(ctx.get("bins"))[:300]})
                elif config == "custom_str":
                    # create_edges_str "is passed parameters (edges, var_context)": the string in the
                    # cell's context is what it answered for this cell's edges and the histogram's variable
                    mine = [a for a in rec.answers if a[0] == key]
                    if not any(a[2] == ctx["bin"].get("edges_str") for a in mine):
                        problems = ("edges_str-is-not-what-create_edges_str-returned-for-the-cell",
                                    {"cell": list(idx), "edges_str": repr(ctx["bin"].get("edges_str")),
                                     "answers_for_the_cell": [a[2] for a in mine]})
                    elif any(freeze(a[1]) != freeze(var) for a in mine):
                        problems = ("create_edges_str-not-given-the-histogram's-variable",
                                    {"cell": list(idx), "given": repr([a[1] for a in mine])[:300]})
                if problems:
                    break
    res.count("iterate_cases")
    res.case(nontrivial=nontrivial,
             outcome=("iterate", config, None if outs is None else freeze(outs), problems and problems[0]))
    if problems:
        cause = dict(cause_base)
        cause["kind"] = problems[0]
        if problems[0] == "raised":
            cause["exc"] = problems[1]
        res.violation(case, problems[1], "one output per cell: (cell data, cell context + bin.edges + bins)",
                      cause)


# ---------------------------------------------------------------------------------------------
# law "edges-str": the string of a cell's edges under every documented option of cell_to_string
# ---------------------------------------------------------------------------------------------

EDGES_STR_FOLLOW = {"quick": 1, "thorough": 2}
ALT_NAMES = ("a", "b", "c")
ALT_FMT = "{1}[{0};{2})"
ALT_JOIN = "|"
DEFAULT_FMT = "{}_lte_{}_lt_{}"
DEFAULT_JOIN = "_"
#: the element's own default, then every combination of the documented keyword options of
#: cell_to_string (given to IterateBins as functools.partial(cell_to_string, **options)), simplest first
EDGES_STR_OPTS = ["element-default"] + [
    {"names": n, "fmt": f, "join": j, "reverse": r}
    for n in (False, True) for f in (False, True) for j in (False, True) for r in (False, True)]


def _natural_names(cell_edges, var, d):
    """Coordinate names where no docstring fixes them (no variable in the histogram's context, a
    multidimensional variable that is not a Combine): whatever cell_to_string itself uses with all
    other options at their defaults - asked with a format that shows the name only (differential)."""
    try:
        names = lena.structures.cell_to_string(cell_edges, var_context=copy.deepcopy(var),
                                               coord_fmt="{1}", coord_join="\x00").split("\x00")
    except Exception:  # noqa
        return None
    return names if len(names) == d else None


def check_edges_str(res, desc, opt, inp=None):
    """IterateBins with create_edges_str = cell_to_string under one combination of its options: every
    cell's context.bin.edges_str is the string the docstring of cell_to_string defines for that cell's
    own edges (each coordinate's bounds with that coordinate's name, joined, reversed as a whole)."""
    case = {"law": "edges-str", "input": desc, "opt": opt}
    if inp is None:
        inp = build_input(desc)
    if inp is None or not isinstance(M.split_value(inp)[0], lena.structures.histogram):
        return
    snap = copy.deepcopy(inp)
    hist, hctx, cells, contents, _ = _input_facts(snap)
    if any(isinstance(M.split_value(c)[1], dict) and ("bin" in c[1] or "bins" in c[1])
           for c in contents):
        return
    d = len(M.axes_of(hist.edges))
    var = (hctx or {}).get("variable")
    if var is not None and not isinstance(var, dict):
        return
    kw = {}
    if opt != "element-default":
        if opt["names"]:
            kw["coord_names"] = list(ALT_NAMES[:d])
        if opt["fmt"]:
            kw["coord_fmt"] = ALT_FMT
        if opt["join"]:
            kw["coord_join"] = ALT_JOIN
        if opt["reverse"]:
            kw["reverse"] = True
        el = lena.structures.IterateBins(
            create_edges_str=functools.partial(lena.structures.cell_to_string, **kw), select_bins=always)
    else:
        el = lena.structures.IterateBins(select_bins=always)
    source = "explicit"
    names = kw.get("coord_names")
    if names is None:
        names, source = M.documented_names(var, d), "documented"
    cause = {"law": "iterate-bins-edges-str", "dim": d, "reverse": bool(kw.get("reverse")),
             "variable": "none" if var is None else ("combine" if "combine" in var else "plain"),
             "other_options": "default" if not (set(kw) - {"reverse"}) else "given"}
    problem = None
    strings = []
    try:
        outs = list(el.run(iter([inp])))
    except Exception as e:  # noqa
        outs = None
        problem = ("raised", type(e).__name__)
        cause["exc"] = problem[1]
    if outs is not None:
        by_edges = {}
        for o in outs:
            ctx = M.split_value(o)[1] or {}
            by_edges.setdefault(_norm_edges((ctx.get("bin") or {}).get("edges")), []).append(ctx)
        for idx in cells:
            own = M.cell_edges(idx, hist.edges)
            found = by_edges.get(_norm_edges(own), [])
            if len(found) != 1:
                break            # the enumeration itself is wrong: the law "iterate" reports that
            cell_names, cell_source = names, source
            if cell_names is None:
                cell_names, cell_source = _natural_names(own, var, d), "as-without-options"
            if cell_names is None:
                break
            want = M.edges_string(own, cell_names, kw.get("coord_fmt", DEFAULT_FMT),
                                  kw.get("coord_join", DEFAULT_JOIN), bool(kw.get("reverse")))
            got = found[0]["bin"].get("edges_str")
            strings.append(got)
            if got != want:
                problem = ("edges_str-does-not-describe-the-cell's-own-edges",
                           {"cell": list(idx), "edges": repr(own), "edges_str": repr(got),
                            "expected": want, "names": cell_names})
                cause["names"] = cell_source
                break
    res.count("edges_str_cases")
    res.case(nontrivial=len(cells) >= 2, outcome=("edges-str", repr(opt), tuple(map(repr, strings)),
                                                  problem and problem[0]))
    if problem:
        cause["kind"] = problem[0]
        res.violation(case, problem[1], "every coordinate's (lower bound, name, upper bound) formatted "
                      "with coord_fmt, joined with coord_join, in reverse order if reverse", cause)


def _renamed(inp, name):
    """The same histogram value described by another variable (the histogram along another coordinate)."""
    hist, ctx = M.split_value(copy.deepcopy(inp))
    if not isinstance(ctx, dict) or not isinstance(ctx.get("variable"), dict):
        return None
    ctx["variable"]["name"] = name
    if "combine" in ctx["variable"]:
        ctx["variable"]["combine"] = tuple(dict(c, name=c["name"] + "_" + name)
                                           for c in ctx["variable"]["combine"])
    return (hist, ctx)


def check_iterate_flow(res, desc, config):
    """One IterateBins element over a flow of two histograms with the same edges, described by
    different variables: every cell gets the context a new element gives it for its own histogram alone
    (differential)."""
    case = {"law": "iterate-flow", "input": desc, "config": config}
    first = build_input(desc)
    if first is None or not isinstance(M.split_value(first)[0], lena.structures.histogram):
        return
    second = _renamed(first, "other")
    if second is None:
        return
    contents = _input_facts(copy.deepcopy(first))[3]
    datas = [M.split_value(c)[0] for c in contents]
    if config == "default" and not all(isinstance(x, lena.structures.histogram) for x in datas):
        return

    def make():
        return lena.structures.IterateBins() if config == "default" else \
            lena.structures.IterateBins(select_bins=always)
    try:
        want = [freeze(o) for inp in (first, second) for o in make().run(iter([copy.deepcopy(inp)]))]
        got = [freeze(o) for o in make().run(iter([copy.deepcopy(first), copy.deepcopy(second)]))]
        problem = None if got == want else "cells-depend-on-earlier-histograms"
        detail = None
        if problem:
            k = [i for i in range(min(len(got), len(want))) if got[i] != want[i]]
            detail = {"first_differing_output": k[0] if k else "length", "outputs": len(got)}
    except Exception as e:  # noqa
        problem, detail = "raised", type(e).__name__
    res.count("iterate_flow_cases")
    res.case(nontrivial=True, outcome=("iterate-flow", config, problem))
    if problem:
        res.violation(case, detail, "the outputs of a new IterateBins per histogram, concatenated",
                      {"law": "iterate-bins", "kind": problem, "config": config,
                       "dim": len(M.axes_of(M.split_value(first)[0].edges))})


def check_map(res, desc, seqname, drop, inp=None):
    """MapBins(seq) over a flow of two equal copies of one histogram value."""
    case = {"law": "map", "input": desc, "seq": seqname, "drop": drop}
    if inp is None:
        inp = build_input(desc)
    if inp is None or not isinstance(M.split_value(inp)[0], lena.structures.histogram):
        return
    snap = copy.deepcopy(inp)
    hist, hctx, cells, contents, nontrivial = _input_facts(snap)
    if any(isinstance(c, list) or isinstance(M.split_value(c)[0], list) for c in contents):
        return        # list-valued cells are nested dimensions for md_map (documented)
    d = len(M.axes_of(hist.edges))
    # reference: a fresh copy of the sequence applied to (a copy of) each cell
    per_cell = {}
    for idx, content in zip(cells, contents):
        seq = M.as_run(M.build_map_seq(seqname))
        per_cell[idx] = list(seq.run([copy.deepcopy(content)]))
    n_exp = min(len(v) for v in per_cell.values())
    n_max = max(len(v) for v in per_cell.values())
    cause = {"law": "map-bins", "dim": d, "seq": seqname, "drop_bins_context": drop}
    problems = None
    el = lena.structures.MapBins(M.build_map_seq(seqname), drop_bins_context=drop)
    second = copy.deepcopy(inp)
    try:
        outs = list(el.run(iter([inp, second])))
    except Exception as e:  # noqa
        outs = None
        problems = ("raised", type(e).__name__)
    if outs is not None:
        if len(outs) != 2 * n_exp:
            problems = ("number-of-histograms", {"yielded": len(outs), "expected": 2 * n_exp})
        for pos, o in enumerate(outs or []):
            if problems:
                break
            j = pos % n_exp
            copy_no = pos // n_exp
            nh, _ = M.split_value(o)
            if not isinstance(nh, lena.structures.histogram):
                problems = ("not-a-histogram", repr(type(nh)))
            elif freeze(nh.edges) != freeze(hist.edges):
                problems = ("edges-differ", repr(nh.edges))
            elif not M.shape_ok(nh.bins, hist.edges):
                problems = ("bins-shape", repr(nh.bins)[:300])
            else:
                for idx in cells:
                    exp = per_cell[idx][j]
                    if drop:
                        exp = M.split_value(exp)[0]
                    got = M.get_cell(nh.bins, idx)
                    res.count("cells_compared")
                    if freeze(got) != freeze(exp):
                        problems = ("cell-is-not-seq-applied-to-cell"
                                    + ("-in-second-histogram-of-flow" if copy_no else ""),
                                    {"histogram": pos, "cell": list(idx), "content": repr(got)[:300],
                                     "expected": repr(exp)[:300]})
                        break
    res.count("map_cases")
    res.maximum("map_results_per_cell", n_max)
    res.case(nontrivial=nontrivial,
             outcome=("map", seqname, drop, None if outs is None else freeze(outs),
                      problems and problems[0]))
    if problems:
        cause["kind"] = problems[0]
        if problems[0] == "raised":
            cause["exc"] = problems[1]
        res.violation(case, problems[1],
                      "per input histogram %d histogram(s) of the same edges and shape, cells = fresh "
                      "seq applied to the corresponding cell" % n_exp, cause)


def follow_ups(res, sib_case, outs, edges_str=False):
    for j in range(len(outs)):
        if not isinstance(M.split_value(outs[j])[0], lena.structures.histogram):
            continue
        desc = {"from": "sib", "sib": sib_case, "j": j}
        for config in ITER_CONFIGS:
            check_iterate(res, desc, config, inp=copy.deepcopy(outs[j]))
        if edges_str:
            for opt in EDGES_STR_OPTS:
                check_edges_str(res, desc, opt, inp=copy.deepcopy(outs[j]))
        for seqname in M.MAP_SEQS:
            for drop in (True, False):
                check_map(res, desc, seqname, drop, inp=copy.deepcopy(outs[j]))


# ---------------------------------------------------------------------------------------------
# runner interface
# ---------------------------------------------------------------------------------------------

def run_shard(p, tier):
    res = Result()
    if p["kind"] == "hand":
        for cells in HAND_CELLS:
            for hctx in HAND_HCTX:
                desc = {"from": "hand", "shape": p["shape"], "cells": cells, "hctx": hctx}
                for config in ITER_CONFIGS:
                    check_iterate(res, desc, config)
                    if config != "custom_str":
                        check_iterate_flow(res, desc, config)
                for opt in EDGES_STR_OPTS:
                    check_edges_str(res, desc, opt)
                for seqname in M.MAP_SEQS:
                    for drop in (True, False):
                        check_map(res, desc, seqname, drop)
                res.sample({"law": "map", "input": desc, "seq": "running", "drop": True}, 2)
        return res
    if p["kind"] == "template":
        for part in p["parts"]:
            _run_template_part(res, p["an"], part)
        return res
    if p["kind"] == "computes":
        for part in p["parts"]:
            _run_compute_part(res, p["an"], part)
        return res
    edges = p["edges"]
    pool = M.arg_pool(edges)
    for n in p["lens"]:
        for flow in itertools.product(pool, repeat=n):
            flow = list(flow)
            for var in p["vars"]:
                for mode in p["modes"]:
                    case = {"law": "sib", "edges": edges, "an": p["an"], "var": var, "mode": mode,
                            "flow": flow}
                    outs = check_sib(res, case)
                    if n <= p["follow"]:
                        follow_ups(res, case, outs, edges_str=n <= EDGES_STR_FOLLOW[tier])
            if n >= 2:
                res.sample(case, 3)
    return res


def _run_template_part(res, an, part):
    edges = part["edges"]
    pool = M.arg_pool(edges)
    for n in part["lens"]:
        histories = _histories(n)
        for flow in itertools.product(pool, repeat=n):
            flow = list(flow)
            for var in part["vars"]:
                for mode in part["modes"]:
                    for pre in TEMPLATE_PRE:
                        # what its owner does with the object after SplitIntoBins was constructed is
                        # irrelevant to the reference
                        ref = M.reference_cells(edges, an, var, mode, flow, pre=pre)
                        for h_pre, touch in histories:
                            if h_pre != pre:
                                continue
                            case = {"law": "sib", "edges": edges, "an": an, "var": var, "mode": mode,
                                    "flow": flow, "template": {"pre": pre, "touch": touch}}
                            check_sib(res, case, ref=ref)
            if n >= 1:
                res.sample(case, 3)


def _run_compute_part(res, an, part):
    edges = part["edges"]
    pool = M.arg_pool(edges)
    for n in part["lens"]:
        histories = _compute_histories(n)
        for flow in itertools.product(pool, repeat=n):
            flow = list(flow)
            for var in part["vars"]:
                for mode in part["modes"]:
                    for points in histories:
                        case = {"law": "sib", "edges": edges, "an": an, "var": var, "mode": mode,
                                "flow": flow, "computes": points}
                        check_sib(res, case)
            if n >= 1:
                res.sample(case, 3)


def replay(case):
    res = Result()
    law = case.get("law")
    if law == "sib":
        check_sib(res, case)
    elif law == "iterate":
        check_iterate(res, case["input"], case["config"])
    elif law == "iterate-flow":
        check_iterate_flow(res, case["input"], case["config"])
    elif law == "edges-str":
        check_edges_str(res, case["input"], case["opt"])
    elif law == "map":
        check_map(res, case["input"], case["seq"], case["drop"])
    return result_violations(res)


LEVEL_TEXT = ("bounded exhaustive exploration: every flow up to the stated length over a pool of arguments "
              "inside, on the border of and outside 1- and 2-dimensional edges, for 13 inner analyses "
              "(bare accumulators, pre/post elements, context-mutating elements, several results per "
              "cell, unequal numbers of results, cells that raise), 5 argument variables and 6 context "
              "modes (no context, plain context, a context.variable of another / the same type as the "
              "argument variable / already composed / untyped) is executed on the real SplitIntoBins and "
              "compared cell by cell with independently filled private copies; the same for every "
              "history of the analysis object itself (holding a value when handed over, filled by its "
              "owner at every subset of the points between construction, the fills and compute), with "
              "the object compared against a twin that never met a SplitIntoBins; the same for every "
              "history in which compute() is also called between the fills and twice in a row (every "
              "compute judged against private copies computed at the same points); IterateBins and "
              "MapBins are executed on the yielded and on hand-made histograms and compared with a "
              "direct per-cell reference, the string of a cell's edges under 16 option combinations of "
              "cell_to_string with a reference written from its docstring")
LEVEL_NOTE = ("holds for the enumerated alphabet only; flows longer than the bound, 3-dimensional edges, "
              "values sharing one context object, Compose argument variables, a compute() abandoned "
              "before its end, the list 'compose' of context.variable, "
              "analysis / edges / variable objects edited (other than the analysis being filled) after "
              "construction and "
              "MapBins over list-valued cells are not covered; MapBins' output context is not judged")
TECHNIQUE = ("exhaustive enumeration of flows over an equivalence-class pool (and of the histories of the "
             "analysis object and of the compute() calls around them) on the real code against a "
             "bisect-and-private-copy reference model; differential twin for the analysis object; "
             "docstring reference for the strings of cell edges over the product of the options")
