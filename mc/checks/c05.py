"""C05 - An analysis gives the same result whether it is driven by run or by fill; adapters.

Part A (law "drivers-agree", driver E1, differential): every chain  pre* acc post*  over the alphabet
below, every flow of 0..N values (bare and with private contexts) is executed
  * as a linear Sequence run over the flow                                  (the reference outcome),
  * as an explicit FillComputeSeq filled value by value until LenaStopFill, then computed,
  * as an explicit FillSeq(pre*, acc) filled the same way, then acc.compute() through Sequence(post*),
  * as a branch of a Split, for EVERY bufsize in {1..n+1, 1000, None}: the chain as a tuple, as an
    explicit FillComputeSeq object, as the bare accumulator (chains of length one), and next to a
    companion fill/compute branch as the first (deep-copied buffer) and as the last branch (the
    companion's marked results must equal the companion's own linear run),
and every outcome (values, order, contexts, or the exception type) must equal the reference outcome.

Part B (laws "adapter-construct", "adapter-meaning", reference model mc/ref/c05_adapters.py written
from the adapters' docstrings): every element kind (each of __call__, run, fill, compute, request,
fill_into, _can_break_flow, __iter__, a custom-named method: absent / a method / a non-callable
attribute) x {Call, Run, FillInto, FillCompute, SourceEl} x every method-name argument {not passed,
each of the nine names, a missing name} (both arguments for FillCompute), plus a pool of real objects
(None, numbers, containers, functions, lena elements and sequences): construction raises LenaTypeError
exactly where the docstring says the element is not accepted, and an accepted adapter, driven with a
canned input, does what the wrapped method does on a twin object.

Bounds (order of work): the adapter table is one bound and goes first, then one bound per stage of the
chain plan (short chains on long flows before long chains on short flows). The table costs about a
twentieth of the chains; with one unlabelled bound and the table last, a run that was cut by its wall
budget on a busy machine had "bounds completed: []" and had judged no adapter at all, while reporting
"new violations=0". Now a cut run names the bounds it completed, and the cheap laws are among them.
"""
import itertools

import lena.core

from mc.core import Result, result_violations
from mc.ref import c01c05_common as cm
from mc.ref import c05_adapters as ad
from mc.ref import c05_chains as ch

ID = "C05"
LEVEL = "exploration"
DESIGN_REF = "DESIGN.md section 5, C05"
RULE = ("part A: one evaluation = one real execution of one chain by one non-reference driver (explicit "
        "FillComputeSeq, explicit FillSeq, or one Split form with one bufsize) over one fresh flow, compared "
        "with the linear Sequence run of the same chain; it is non-trivial when the flow is not empty, the "
        "chain has pre-processing elements and these really changed what the accumulator produced (the "
        "reference outcome differs from the outcome of the chain without them); part B: one evaluation = "
        "one adapter construction (and, if accepted, one use on a canned input compared with the wrapped "
        "method on a twin object); it is non-trivial when the element has at least one of the nine "
        "attributes or is a real object; cases are distinct by construction of the enumeration")
ASSUMPTIONS = [
    "pre-processing elements: a total callable, Call(callable), Variable, Filter(even), Filter(nothing), "
    "non-negative Slices (with and without step, one that stops at once), RunIf with a callable, with a "
    "run element that yields two results per value, and with a sequence that drops the value; a bare Count "
    "is a run element by design and enters only as FillCompute(Count()) or as a post-processing element",
    "accumulators are fill/compute elements without a run method; post-processing elements are run "
    "elements and callables (tag, Slice(1), Slice(-1), Filter(nothing), Reverse, Count)",
    "the Split branch is a tuple, an explicit FillComputeSeq or the bare accumulator (a Sequence-typed "
    "branch is documented to be run buffer by buffer and is outside the property); copy_buf is left at "
    "its default; data are small ints starting at -1, contexts private one-key dictionaries",
    "outcomes are compared after exhaustion: values, order, value types, contexts; exceptions by type only",
    "adapters: method-name arguments are strings (or, for Run(None, run=f), a function); where the "
    "docstring does not decide (Run of an element that is both callable and fill/compute, SourceEl of an "
    "element that is both callable and iterable, a non-callable __iter__ attribute, Run(None, run=<not "
    "callable>), FillInto(Split)) every reading is accepted and the case is counted as ambiguous",
]
LEVEL_TEXT = ("bounded exhaustive exploration: every chain pre* acc post* (pre of length 0..2 over 12 "
              "pre-processing elements, 12 accumulators, post of length 0..1 over 6 elements; thorough: pre "
              "0..3 over 15, post 0..2) on every flow of 0..5 (0..7) values, bare and with contexts, is executed "
              "on the real code by every driver the statement names (linear Sequence, explicit "
              "FillComputeSeq and FillSeq filled until LenaStopFill, five Split forms with every bufsize in "
              "{1..n+1, 1000, None}) and the outcomes compared; the adapter table (3^9 element kinds x 5 "
              "adapters x every method-name argument, plus real objects) is enumerated against a reference "
              "model written from the docstrings")
LEVEL_NOTE = ("holds for the enumerated alphabet and bounds only; the chain drivers are compared with each "
              "other (differential), not with a hand-written semantics of the elements; copy_buf=False, "
              "Sequence-typed Split branches, negative Slices before the accumulator and non-string method "
              "names are outside the alphabet")
TECHNIQUE = ("exhaustive enumeration of chains x flows x drivers x bufsizes executed on the real code with a "
             "differential oracle (linear Sequence run), and of element kinds x adapters x method names against "
             "a docstring-derived acceptance model with a twin-object behaviour comparison")
NONTRIVIAL_FLOOR = {"quick": 1000000, "thorough": 20000000}
BUDGET_S = {"quick": 240, "thorough": 2400}


def _dom(tier):
    """plan: list of stages (pre alphabet, pre lengths, post lengths, largest flow length, number of
    parts every accumulator's chains of this stage are striped over). A stage is a bound of its own."""
    if tier == "thorough":
        return dict(plan=[(ch.PRE_THOROUGH, (0, 1, 2), (0, 1), 7, 4),
                          (ch.PRE_THOROUGH, (0, 1), (2,), 5, 1),
                          (ch.PRE_QUICK, (3,), (0, 1), 4, 16)],
                    full_kinds=True)
    return dict(plan=[(ch.PRE_QUICK, (0, 1), (0, 1), 5, 1),
                      (ch.PRE_QUICK, (2,), (0, 1), 4, 8)],
                full_kinds=False)


BOUND_ADAPTERS = "adapter table"


def _stage_label(stage):
    alpha, pre_lens, post_lens, maxm, _ = stage
    return ("chains: pre of length %s over %d elements, post of length %s, flows of 0..%d values"
            % ("/".join(str(n) for n in pre_lens), len(alpha), "/".join(str(n) for n in post_lens), maxm))


def describe(tier):
    d = _dom(tier)
    plan = "; ".join("pre of length %s over %s with post of length %s and flows of 0..%d values"
                     % (list(pl), alpha, list(ql), m) for alpha, pl, ql, m, _ in d["plan"])
    return ("bounds in this order: the adapter table, then the chain stages. chains: %s; accumulators %s; "
            "post elements %s; flows bare and with context; drivers: fcs, "
            "fillseq, split-tuple/split-first/split-last (and split-bare for a lone accumulator) with bufsize in "
            "{1..n+1, 1000, None}, split-fcs with bufsize in %s; companion branch %s. adapters: %s element kinds over %s x "
            "%s x method-name arguments %s; real objects %s with names %s"
            % (plan, ch.ACCS, ch.POST_SINGLE,
               "{1..n+1, 1000, None}" if d["full_kinds"] else "{1, None}", ch.COMPANION,
               ("all 3^9" if d["full_kinds"] else "2^9 + 9*2^8 (at most one non-callable attribute)")
               + " plus 2^9 kinds that are false in a boolean context",
               ad.NAMES, ad.ADAPTERS, ad.NAME_ARGS, ad.OBJECT_NAMES, ad.OBJECT_NAME_ARGS))


# ---------------------------------------------------------------------------------------------------
# enumeration

def _chain_plan(tier, stage):
    """List of (pre, post, max flow length) of stage number *stage*; over all stages each (pre, post)
    occurs exactly once (in the first stage that has it), simplest first."""
    seen = set()
    plan = []
    for number, (alpha, pre_lens, post_lens, maxm, _) in enumerate(_dom(tier)["plan"]):
        if number > stage:
            break
        for pre in ch.pre_chains(alpha, max(pre_lens)):
            if len(pre) not in pre_lens:
                continue
            for post in ch.post_chains(max(post_lens)):
                if len(post) not in post_lens:
                    continue
                key = (tuple(pre), tuple(post))
                if key in seen:
                    continue
                seen.add(key)
                if number == stage:
                    plan.append((pre, post, maxm))
    plan.sort(key=lambda t: (len(t[0]) + len(t[1]), len(t[0])))    # stable: simplest first
    return plan


def _kinds(tier):
    d = _dom(tier)
    n = len(ad.NAMES)
    if d["full_kinds"]:
        return [list(s) for s in itertools.product((0, 1, 2), repeat=n)]
    out = [list(s) for s in itertools.product((0, 1), repeat=n)]
    for i in range(n):
        for s in itertools.product((0, 1), repeat=n - 1):
            s = list(s)
            out.append(s[:i] + [2] + s[i:])
    return out


def shards(tier):
    """Cheapest bound first (the runner visits the bounds in the order in which they first occur and a
    run that is stopped by its time budget reports the bounds it completed): the whole adapter table
    costs a twentieth of the chains and carries two of the three laws, so it is never what a budget
    stop leaves out; then the chains stage by stage."""
    d = _dom(tier)
    out = [{"kind": "objects", "bound": BOUND_ADAPTERS}]
    for s0 in (0, 1):
        out.append({"kind": "adapters", "s0": s0, "falsy": True, "bound": BOUND_ADAPTERS})
    for s0 in (0, 1, 2):
        for s1 in (0, 1, 2):
            out.append({"kind": "adapters", "s0": s0, "s1": s1, "bound": BOUND_ADAPTERS})
    for number, stage in enumerate(d["plan"]):
        parts = stage[4]
        for part in range(parts):
            for acc in ch.ACCS:
                out.append({"kind": "chains", "acc": acc, "stage": number, "part": part, "parts": parts,
                            "bound": _stage_label(stage)})
    return out


# ---------------------------------------------------------------------------------------------------
# part A

class _Chains(object):
    """Runs the drivers of one case and records; failures are shrunk once per raw signature."""

    def __init__(self, res, full):
        self.res = res
        self.memo = {}
        self.full = full        # every bufsize also for the explicit-FillComputeSeq Split form

    def case(self, pre, acc, post, kind, m):
        res = self.res
        ref = ch.run_reference(pre, acc, post, kind, m)
        if pre and m > 0:
            plain = ch.run_reference([], acc, post, kind, m)
            pre_matters = not cm.same(ref, plain)
        else:
            pre_matters = False
        if ref[0] == "exc":
            res.count("reference_raised")
        last = None
        for drv in ch.drivers(len(pre) + 1 + len(post), m, self.full):
            info = {}
            got = ch.run_driver(drv, pre, acc, post, kind, m, info)
            stopped = bool(info.get("stopped"))
            if stopped:
                res.count("explicit_fill_stopped_by_LenaStopFill")
            res.case(nontrivial=pre_matters or stopped, outcome=(drv["name"], ref[0], ref[1]))
            res.count("driver:" + drv["name"])
            last = drv
            if not cm.same(ref, got):
                self.fail(pre, acc, post, kind, m, drv, ref, got)
        return {"law": "drivers-agree", "pre": pre, "acc": acc, "post": post, "flow": [kind, m],
                "driver": last}

    def fail(self, pre, acc, post, kind, m, drv, ref, got):
        case = {"law": "drivers-agree", "pre": list(pre), "acc": acc, "post": list(post),
                "flow": [kind, m], "driver": dict(drv)}
        raw = (ch.family(drv), cm.diff_kind(ref, got), tuple(ch.kind_of(s) for s in pre), acc,
               tuple(ch.kind_of(s) for s in post))
        if raw not in self.memo:
            small = ch.shrink(case)
            holds, sref, sgot, _ = ch.judge(small)
            if holds:       # cannot happen (shrink only keeps failing cases); keep the original
                small, sref, sgot = case, ref, got
            self.memo[raw] = (small, cm.show(sgot), cm.show(sref), ch.cause_of(small, sref, sgot))
        small, observed, expected, cause = self.memo[raw]
        self.res.violation(small, observed, expected, cause,
                           note="shrunk from a chain with pre=%r acc=%r post=%r" % (pre, acc, post)
                           if small["pre"] != list(pre) or small["acc"] != acc else "")


def run_chains(res, p, tier):
    plan = _chain_plan(tier, p["stage"])[p["part"]::p["parts"]]
    runner = _Chains(res, _dom(tier)["full_kinds"])
    acc = p["acc"]
    for pre, post, maxm in plan:
        for kind in (cm.FLOW_KINDS_SHORT if len(pre) + len(post) <= 1 else cm.FLOW_KINDS):
            for m in range(maxm + 1):
                case = runner.case(pre, acc, post, kind, m)
        res.sample(case, 4)


# ---------------------------------------------------------------------------------------------------
# part B

def check_adapter(res, adapter, elspec, args):
    case = {"law": "adapter", "adapter": adapter, "element": elspec, "args": args}
    j = ad.judge(adapter, elspec, args)
    nontrivial = isinstance(elspec, str) or any(elspec)
    res.case(nontrivial=nontrivial,
             outcome=(adapter, j["accepted"], repr(j["observed"]) if j["accepted"] else j["observed"]))
    if j["ambiguous"]:
        res.count("adapter_cases_with_two_readings")
    res.count("adapter_accepted" if j["accepted"] else "adapter_rejected")
    if j["verdict"] != "holds":
        default = all(v == ad.DEFAULT for v in args.values())
        if isinstance(elspec, str):
            elkind = elspec
        else:
            # which of the attributes the docstrings speak about are methods
            states = elspec["states"] if isinstance(elspec, dict) else elspec
            elkind = [n for n, s in zip(ad.NAMES, states) if s == 1 and n != "custom"]
        cause = {"law": "adapter-" + j["verdict"], "adapter": adapter,
                 "falsy_element": isinstance(elspec, dict) and bool(elspec.get("falsy")),
                 "method_name": "default" if default else "given",
                 "readings": j["readings"], "element": elkind,
                 "observed": j["observed"] if j["verdict"] == "construct" else "behaviour differs"}
        res.violation(case, j["observed"], j.get("expected"), cause)
    return case


def run_adapters(res, p, tier):
    if p.get("falsy"):
        # the same table for elements that are false in a boolean context (methods present or absent)
        for states in itertools.product((0, 1), repeat=len(ad.NAMES)):
            if states[0] != p["s0"]:
                continue
            for adapter in ad.ADAPTERS:
                for args in ad.arg_lists(adapter, ad.NAME_ARGS):
                    case = check_adapter(res, adapter, {"states": list(states), "falsy": True}, args)
            res.sample(case, 3)
        return
    for states in _kinds(tier):
        if states[0] != p["s0"] or states[1] != p["s1"]:
            continue
        for adapter in ad.ADAPTERS:
            for args in ad.arg_lists(adapter, ad.NAME_ARGS):
                case = check_adapter(res, adapter, states, args)
        res.sample(case, 3)


def run_objects(res):
    for name in ad.OBJECT_NAMES:
        for adapter in ad.ADAPTERS:
            for args in ad.arg_lists(adapter, ad.OBJECT_NAME_ARGS):
                case = check_adapter(res, adapter, name, args)
        res.sample(case, 3)
    # Run(None, run=<function>) and Run(None, run=<not callable>)
    for f in ("@gen_function", "@list_function", "run", ad.MISSING):
        check_adapter(res, "Run", "None", {"run": f})


# ---------------------------------------------------------------------------------------------------

def run_shard(p, tier):
    res = Result()
    if p["kind"] == "chains":
        run_chains(res, p, tier)
    elif p["kind"] == "adapters":
        run_adapters(res, p, tier)
    elif p["kind"] == "objects":
        run_objects(res)
    return res


def replay(case):
    res = Result()
    if case.get("law") == "drivers-agree":
        holds, ref, got, _ = ch.judge(case)
        res.case(nontrivial=True, outcome=(ref[0], ref[1]))
        if not holds:
            res.violation(case, cm.show(got), cm.show(ref), ch.cause_of(case, ref, got))
    elif case.get("law") == "adapter":
        check_adapter(res, case["adapter"], case["element"], case["args"])
    return result_violations(res)
