"""C12 - Histogram and graph arithmetic, scaling and conversions keep every cell.

Bounded exhaustive enumeration (driver E1) on the real lena code; every case is judged by the boring
reference models of mc/ref/c12_ref.py (exact Fraction integral, itertools.product cell order, a
str.split CSV parser, the "error_<coordinate>" naming rule):

  * histogram.scale(s) (directly, after scale() was cached, twice in a row, through ScaleTo, scale_to
    and GroupScale): bins and n_out_of_range are multiplied by s / integral, edges keep their value,
    scale() and scale(recompute=True) give s; a zero integral raises LenaValueError;
  * graph.scale(s) for every valid field naming: the last coordinate and its error columns are
    multiplied by s / old scale, every other column keeps its value, scale() gives s; a zero or unknown
    scale raises LenaValueError; scale_to with a selector scales a group to the selected structure;
  * the number-type axis: the same laws with target scales, weights and numbers of events of every real
    number type (bool, subclasses of int and float, Fraction, Decimal for graphs, an int beyond 2**53),
    through every driver, alone and before / after a plain target; the selector-form axis: scale_to and
    GroupScale with the selector given as a string, a callable, a list, a tuple, a Selector;
  * histogram.add(other, weight): cell-wise a + w*b (and for n_out_of_range), operands unchanged,
    LenaValueError for different edges (values, shape, dimension), an exception for a non-histogram;
  * get_nevents equals the sum of the cells; set_nevents(n) makes get_nevents() equal n;
  * hist_to_graph (function and HistToGraph element): one point per cell, in order, at the left / right /
    middle coordinate with that cell's value;
  * iter_bins, iter_bins_with_edges, iter_cells (whole histogram, every index range, coordinate ranges)
    agree with each other and with the reference on content, index and edges;
  * hist1d_to_csv / hist2d_to_csv / ToCSV (duplicate_last_bin given to the element or through the
    context) and ToCSV of a graph: the text parses back to the expected rows.
"""
import copy
import itertools
import math
from fractions import Fraction

import lena.core
import lena.flow
import lena.output
import lena.structures
from lena.structures import histogram, graph, hist_to_graph, iter_bins, iter_bins_with_edges, iter_cells
from lena.structures.elements import ScaleTo, HistToGraph

from mc.core import Result, result_violations
from mc.ref import c06c12_ref as R
from mc.ref import c12_ref as M

ID = "C12"
LEVEL = "exploration"
DESIGN_REF = "DESIGN.md section 5, C12"
RULE = ("histograms: every shape with 1..3 bins per axis (thorough: up to 4 in one and two dimensions) "
        "in 1..3 dimensions x the listed combinations of per-axis edge pools x every content assignment "
        "over the content alphabet up to 4 cells (three index codings with pairwise distinct cells "
        "beyond); graphs: 1..3 coordinates x every ordered choice of 0..3 error fields that is a valid "
        "naming x initial scale x number of points; every such structure goes once through every law "
        "(every target scale, pair of successive targets, driver, weight, n_out_of_range, get_coordinate "
        "mode, index range, duplicate_last_bin setting, separator); one structure per (shape, edge "
        "pools, coding) and the graphs with up to 2 error fields of two name sets (thorough: all) also "
        "meet every typed number (a target / weight / number of events of another real type than plain "
        "int and float) through every driver, and one-dimensional reference histograms select the scale "
        "of a group through every form of selector x scale_to / GroupScale. A case is non-trivial when the "
        "operation really changed or converted more than one number: a rescale with factor != 1 of a "
        "structure with at least two cells/points or a non-zero n_out_of_range; an addition of "
        "histograms with at least two cells and a non-zero addend, or a rejected addition; a conversion "
        "or iteration of at least two cells; a proper non-empty sub-range. Cases are distinct by "
        "construction (the enumeration never repeats a combination)")
ASSUMPTIONS = [
    "edges are lists of finite ints/floats from five small pools (integers, dyadic, floats with "
    "representation noise, wide magnitudes, tiny first bins); contents are ints and floats; "
    "1-dimensional histograms use a flat edge list as lena documents",
    "target scales and weights are non-zero; a histogram is rescaled only while its cached scale is "
    "current (scale() before filling, as the docstring demands)",
    "typed numbers: bool True, subclasses of int and float, Fraction (integral, dyadic and 1/3), the int "
    "10**20, and Decimal as the (last) target of a graph only (graph.scale documents 'a numeric other'; "
    "Python does not mix Decimal with the floats a histogram holds); complex numbers are no scales; with "
    "a typed number among the arguments a result may be of any real number type and is judged by value",
    "selectors of scale_to / GroupScale: the forms Selector documents (string = the context contains it, "
    "callable on the value, list = or, tuple = and, a Selector object); exactly one structure of the "
    "group is selected",
    "'up to rounding' is relative 1e-9, widened by the condition number of the integral when the old "
    "scale is itself the result of cancellation; a zero integral is demanded to raise only when it is "
    "zero both exactly and in floating point (integer / dyadic edges and contents)",
    "histogram.add: edges that differ by less than 1e-6 relative but are not identical (float "
    "neighbours) may be accepted or rejected (add documents an isclose comparison); the type of the "
    "exception for a non-histogram operand is not judged",
    "graph field names: coordinates from four name sets (two with names that are prefixes of each "
    "other), error fields 'error_<coordinate>' with suffix '', '_low', '_high'; invalid namings are "
    "outside the quantifier",
    "iter_cells with invalid index ranges or with coord_ranges is judged only on what it yields "
    "(each cell must be a cell of the histogram, in order, at most once)",
    "CSV: printed precision is 6 decimals (abs 5e-7); 3-dimensional histograms are not converted by "
    "ToCSV (documented) and are outside this law; the deprecated Graph class is outside the alphabet",
]
NONTRIVIAL_FLOOR = {"quick": 300000, "thorough": 1500000}
BUDGET_S = {"quick": 240, "thorough": 2400}

LEVEL_TEXT = ("bounded exhaustive exploration: every histogram of 1..3 dimensions with 1..3 bins per axis "
              "(contents exhaustive over {0, 1, 2, -1, 0.5} up to 4 cells, index-coded beyond; edges from "
              "small integer / dyadic / noisy-float / wide pools) and every graph with 1..3 coordinates and "
              "0..3 error fields in every valid naming order is put through every law of the statement "
              "(rescaling by every target and pair of targets and through ScaleTo / scale_to / GroupScale, "
              "with targets, weights and event numbers of every real number type and selectors of every "
              "documented form, "
              "add with every weight and with unequal edges, set_nevents, hist_to_graph in the three "
              "coordinate modes, the three cell iterators with every index range, CSV with every "
              "duplicate_last_bin setting) on the real code and judged by independent reference models")
LEVEL_NOTE = ("holds for the enumerated structures only (at most 3-4 bins per axis, small numbers); "
              "'up to rounding' is relative 1e-9; NumPy histograms and NumPy scalars, Decimal numbers with "
              "histograms, the deprecated Graph class, stale cached scales and 3-dimensional CSV output are "
              "outside the alphabet")
TECHNIQUE = ("exhaustive enumeration of small histograms and graphs executed on the real code against "
             "exact-arithmetic reference models (Fraction integral, product-order cell list, CSV parse-back); "
             "number arguments range over the real number types, selectors over their documented forms")

LVE = "LenaValueError"


def describe(tier):
    d = M.dom(tier)
    return ("histograms: dimensions 1..3, bins per axis 1..%s, contents %r exhaustive up to %d cells "
            "(3 index codings beyond), %d/%d/%d edge-pool combinations in 1/2/3 dimensions; targets %r; "
            "weights %r; graphs: 1..3 coordinates, 0..3 error fields in every valid order over 4 name "
            "sets, scale in {None, 0, 2, -0.5}, %r points; iter_cells index ranges: every (low, up) in "
            "{None, -1, 0..n} x {None, 0..n+1} per axis; duplicate_last_bin True/False by element and by "
            "context; typed numbers (targets through %r, weights, numbers of events): %s (Decimal for "
            "graphs only) over %d histograms and %d graphs; selector forms %r x scale_to / GroupScale over "
            "%d groups"
            % (sorted(d["maxbins"].items()), d["contents"], d["max_exhaustive"],
               len(M.pool_combos(1, tier)), len(M.pool_combos(2, tier)),
               len(M.pool_combos(3, tier)), d["targets"], d["weights"], d["graph_points"],
               VIAS, ", ".join("%s(%s)" % (k, t) for k, t in M.typed_numbers(tier, decimal=True)),
               len(M.coded_specs(tier)), sum(1 for k, _ in _typed_items(tier) if k == "graph"),
               SELECTOR_FORMS, len(_selector_items(tier)) // (2 * len(SELECTOR_FORMS) - 1)))


# ---- helpers --------------------------------------------------------------------------------------------
def build_hist(spec):
    h = histogram(M.copy_edges(spec["edges"]), M.copy_bins(spec["bins"]))
    h.n_out_of_range = spec.get("n_out", 0)
    return h


def with_n_out(spec, n_out):
    s = dict(spec)
    s["n_out"] = n_out
    return s


def _dim(spec):
    return len(R.unify(spec["edges"]))


def _exc(e):
    return "raised " + type(e).__name__


def _report(res, case, problems, cause):
    """One violation per distinct kind of problem found in a case."""
    seen = set()
    for what, observed, expected in problems:
        if what in seen:
            continue
        seen.add(what)
        c = dict(cause)
        c["what"] = what
        res.violation(case, observed, expected, c)


def _typed(numbers):
    """("+"-joined kinds of the typed numbers among *numbers* or "", the comparison to use): results of
    operations with plain ints and floats are judged as before (they must be ints or floats); with a
    number of another real type among the arguments any real type is a legal type of a result."""
    kinds = [M.kind_of(t) for t in numbers if M.is_typed(t)]
    return "+".join(kinds), (M.rclose if kinds else M.close)


def _apply_scale(obj, s, via):
    """Rescale *obj* to s through one of the drivers; return the structure to judge."""
    s = M.number(s)
    if via == "method":
        r = obj.scale(s)
        if r is not None:
            raise AssertionError("scale(other) returned %r" % (r,))
        return obj
    if via == "ScaleTo":
        out = ScaleTo(s)((obj, {"k": 1}))
        return out[0]
    if via == "scale_to":
        lena.flow.scale_to(s, [(obj, {"k": 1})])
        return obj
    if via == "GroupScale":
        out = lena.flow.GroupScale(s)([(obj, {"k": 1})])
        return out[0][0]
    raise KeyError(via)


# ---- law: histogram.scale -------------------------------------------------------------------------------
def check_hist_scale(res, spec, targets, via="method", pre=False):
    case = {"law": "hist-scale", "hist": spec, "targets": list(targets), "via": via, "pre": pre}
    cause = {"law": "hist-scale", "dim": _dim(spec), "via": via, "step": 1}
    typed, cl = _typed(targets)
    if typed:
        cause = {"law": "hist-scale-typed", "kinds": typed, "via": via, "step": 1}
    edges, bins, n_out = spec["edges"], spec["bins"], spec.get("n_out", 0)
    integral, mag, decidable = M.integral_info(edges, bins)
    cond = float(mag / abs(integral)) if integral else float("inf")
    if integral == 0 and decidable:
        expect = "raise"
    elif integral != 0 and cond <= 1e6:
        expect = "ok"
    else:
        expect = "either"
    rel = M.REL * max(1.0, cond * 1e-3) if integral else M.REL
    problems = []
    h = build_hist(spec)
    edges_before = repr(h.edges)
    if pre:
        try:
            got = h.scale()
        except Exception as e:
            got = _exc(e)
        if not M.close(got, float(integral), hint=float(mag)):
            problems.append(("get-scale", got, float(integral)))
    cells = R.flat(bins)
    old = integral
    outcome = None
    changed = False
    for step, s in enumerate(targets):
        cause["step"] = min(step + 1, 2)
        try:
            h2 = _apply_scale(h, s, via)
            raised = None
        except Exception as e:
            h2 = None
            raised = type(e).__name__
        if step == 0 and raised is not None:
            outcome = raised
            if raised != LVE or expect == "ok":
                problems.append(("exception", raised, LVE if expect != "ok" else "rescaled"))
            break
        if raised is not None:
            problems.append(("exception", raised, "rescaled"))
            break
        if step == 0 and expect == "raise":
            problems.append(("zero-scale-accepted", "returned", LVE))
            break
        if not isinstance(h2, histogram):
            problems.append(("result-type", repr(h2), "the histogram"))
            break
        h = h2
        if old == 0:
            # zero exactly, not in floating point: nothing can be demanded of the factor
            outcome = "undecidable-zero"
            break
        sv = M.exact(s)
        factor = sv / old
        exp_cells = [float(Fraction(c) * sv / integral) for c in cells]
        exp_n_out = float(Fraction(n_out) * sv / integral)
        got_cells = R.flat(h.bins) if M.shape_of(edges) == _shape_of_bins(h.bins) else None
        if got_cells is None:
            problems.append(("bins-shape", repr(h.bins), "shape %r" % (M.shape_of(edges),)))
            break
        if not all(cl(g, e, rel=rel) for g, e in zip(got_cells, exp_cells)):
            problems.append(("bins", got_cells, exp_cells))
        if not cl(h.n_out_of_range, exp_n_out, rel=rel):
            problems.append(("n_out_of_range", h.n_out_of_range, exp_n_out))
        if repr(h.edges) != edges_before:
            problems.append(("edges", repr(h.edges), edges_before))
        try:
            stored = h.scale()
        except Exception as e:
            stored = _exc(e)
        if not cl(stored, sv if typed else s, rel=rel):
            problems.append(("stored-scale", stored, s))
        if factor != 1:
            changed = True
        old = sv
        outcome = tuple(got_cells)
    else:
        # all targets applied: the scale recomputed from the contents is the last target
        s = targets[-1]
        sv = M.exact(s)
        try:
            rec = h.scale(recompute=True)
        except Exception as e:
            rec = _exc(e)
        hint = abs(float(sv / integral * mag)) if integral else 0.0
        if not cl(rec, sv if typed else s, hint=hint, rel=rel):
            problems.append(("recomputed-scale", rec, s))
    nontrivial = changed and (len(cells) >= 2 or n_out != 0) and expect == "ok"
    res.case(nontrivial=nontrivial, outcome=(outcome, via))
    if typed:
        res.count("typed_number_cases")
    if outcome == LVE:
        res.count("hist_zero_scale_rejected")
    _report(res, case, problems, cause)
    return case


def _shape_of_bins(bins):
    shape = []
    b = bins
    while isinstance(b, list):
        shape.append(len(b))
        if not b:
            break
        b = b[0]
    return tuple(shape)


# ---- law: graph.scale -----------------------------------------------------------------------------------
def build_graph(gspec):
    names = list(gspec["names"])
    cols = M.graph_columns(len(names), gspec["npoints"])
    fn = ",".join(names) if gspec.get("as_string") else tuple(names)
    lists = [list(c) for c in cols]
    alias = gspec.get("alias")
    if alias:
        # two columns given as ONE list object (the line y = x; an error equal to its coordinate)
        src, dst = alias
        cols = [list(c) for c in cols]
        cols[dst] = list(cols[src])
        lists[dst] = lists[src]
    return graph(lists, field_names=fn, scale=gspec["scale"]), cols


def check_scale_recompute(res, spec, target):
    """scale() stores what it computed; after a further fill, scale(recompute=True) gives - and stores -
    the integral of the histogram as it is now, and rescaling starts from that."""
    case = {"law": "scale-recompute", "hist": spec, "target": target}
    cause = {"law": "scale-recompute", "dim": _dim(spec)}
    edges, bins = spec["edges"], spec["bins"]
    axes = R.unify(edges)
    coord = [(a[0] + a[1]) / 2.0 for a in axes]
    after = copy.deepcopy(bins)
    cell = after
    for _ in range(len(axes) - 1):
        cell = cell[0]
    cell[0] = cell[0] + 2
    i_old, _m, _d = M.integral_info(edges, bins)
    i_new, mag, decidable = M.integral_info(edges, after)
    problems = []
    if i_old == 0 or i_new == 0 or i_old == i_new:
        return case
    h = build_hist(dict(spec, n_out=0))
    try:
        first = h.scale()
        h.fill(coord if len(axes) > 1 else coord[0], 2)
        again = h.scale(recompute=True)
        stored = h.scale()
        if not M.close(first, float(i_old), hint=float(_m)):
            problems.append(("scale-before", first, float(i_old)))
        if not M.close(again, float(i_new), hint=float(mag)):
            problems.append(("recomputed-scale", again, float(i_new)))
        if not M.close(stored, float(i_new), hint=float(mag)):
            problems.append(("stored-scale-after-recompute", stored, float(i_new)))
        if not problems:
            h2 = h.scale(target)
            h2 = h if h2 is None else h2
            got = h2.scale(recompute=True)
            if not M.close(got, float(target), hint=abs(float(target))):
                problems.append(("rescale-after-recompute", got, float(target)))
    except Exception as e:
        problems.append(("exception", _exc(e), "scales"))
    res.case(nontrivial=True, outcome=("recompute", repr(problems)[:60]))
    _report(res, case, problems, cause)
    return case


def check_graph_scale(res, gspec, targets, via="method"):
    case = {"law": "graph-scale", "graph": gspec, "targets": list(targets), "via": via}
    names, dim = list(gspec["names"]), gspec["dim"]
    n_err = len(names) - dim
    resc = M.rescaled_columns(names, dim)
    cause = {"law": "graph-scale", "dim": dim, "via": via,
             "errors_of_last": len(resc) - 1, "errors_of_others": n_err - (len(resc) - 1)}
    typed, cl = _typed(targets)
    if typed:
        cause = {"law": "graph-scale-typed", "kinds": typed, "via": via}
    problems = []
    outcome = None
    changed = False
    try:
        g, cols = build_graph(gspec)
    except Exception as e:
        res.case(nontrivial=False, outcome=_exc(e))
        _report(res, case, [("construct", _exc(e), "a graph (the naming is valid)")], cause)
        return case
    old = gspec["scale"]
    expect_raise = not old  # None (unknown) or zero
    exp = [list(c) for c in cols]
    for step, s in enumerate(targets):
        try:
            g2 = _apply_scale(g, s, via)
            raised = None
        except Exception as e:
            g2 = None
            raised = type(e).__name__
        if step == 0 and expect_raise:
            outcome = raised
            if raised != LVE:
                problems.append(("zero-or-unknown-scale", raised or "returned", LVE))
            break
        if raised is not None:
            problems.append(("exception", raised, "rescaled"))
            break
        if not isinstance(g2, graph):
            problems.append(("result-type", repr(g2), "the graph"))
            break
        g = g2
        sv = M.exact(s)
        factor = sv / M.exact(old)
        for k in resc:
            exp[k] = [float(Fraction(v) * factor) for v in exp[k]]
        got = [list(c) for c in g.coords]
        if len(got) != len(exp) or any(len(a) != len(b) for a, b in zip(got, exp)):
            problems.append(("shape", got, exp))
            break
        for k in range(len(exp)):
            if k in resc:
                if not all(cl(a, b) for a, b in zip(got[k], exp[k])):
                    problems.append(("last-coordinate" if k == dim - 1 else "error-of-last", got, exp))
            else:
                if repr(got[k]) != repr(exp[k]):
                    problems.append(("other-coordinate" if k < dim else "error-of-other", got, exp))
        try:
            stored = g.scale()
        except Exception as e:
            stored = _exc(e)
        if not cl(stored, sv if typed else s):
            problems.append(("stored-scale", stored, s))
        if factor != 1:
            changed = True
        old = s
        outcome = repr(got)
    res.case(nontrivial=changed and gspec["npoints"] >= 1, outcome=(outcome, via))
    if typed:
        res.count("typed_number_cases")
    if outcome == LVE:
        res.count("graph_zero_or_unknown_scale_rejected")
    _report(res, case, problems, cause)
    return case


# ---- law: scale_to with a selector over a group ---------------------------------------------------------
SELECTOR_FORMS = ["str", "callable", "list", "tuple", "selector"]


def _in_ref(value):
    return "ref" in lena.flow.get_context(value)


def _selector(form):
    """The selector of the reference structure (the one whose context has the key "ref") in every form
    GroupScale documents as "converted to a Selector": a string (the context contains it), a callable
    (used as it is on the value), a list (or), a tuple (and), a ready Selector."""
    if form == "str":
        return "ref"
    if form == "callable":
        return _in_ref
    if form == "list":
        return ["absent", "ref"]
    if form == "tuple":
        return ("ref", _in_ref)
    if form == "selector":
        return lena.flow.Selector("ref")
    raise KeyError(form)


def check_group_scale(res, spec_ref, other, allow, sel="str", via="scale_to"):
    """group = [(reference histogram, {"ref": 1}), (other structure, {})]; scale_to("ref", group)."""
    case = {"law": "group-scale", "ref": spec_ref, "other": other, "allow": allow}
    cause = {"law": "group-scale", "other": other["kind"], "allow": allow}
    if (sel, via) != ("str", "scale_to"):
        case.update({"selector": sel, "via": via})
        cause.update({"selector": sel, "via": via})
    problems = []
    i_ref, mag_ref, dec_ref = M.integral_info(spec_ref["edges"], spec_ref["bins"])
    href = build_hist(spec_ref)
    if other["kind"] == "hist":
        ob = build_hist(other["spec"])
        i_o, mag_o, dec_o = M.integral_info(other["spec"]["edges"], other["spec"]["bins"])
        old_o = i_o
        cells_o = R.flat(other["spec"]["bins"])
        bad = (i_o == 0)
        judgeable = dec_o or (i_o != 0 and mag_o / abs(i_o) <= 1e6)
    else:
        ob, cols = build_graph(other["gspec"])
        old_o = other["gspec"]["scale"]
        bad = not old_o
        judgeable = True
    judgeable = judgeable and i_ref != 0 and mag_ref / abs(i_ref) <= 1e6
    group = [(href, {"ref": 1}), (ob, {"k": 2})]
    before_o = M.snapshot(ob) if other["kind"] == "hist" else repr(ob.coords)
    try:
        kw = {"allow_zero_scale": True, "allow_unknown_scale": True} if allow else {}
        if via == "scale_to":
            lena.flow.scale_to(_selector(sel), group, **kw)
        else:
            lena.flow.GroupScale(_selector(sel), **kw)(group)
        raised = None
    except Exception as e:
        raised = type(e).__name__
    outcome = raised
    if judgeable:
        if bad and not allow:
            if raised != LVE:
                problems.append(("zero-or-unknown-scale", raised or "returned", LVE))
        elif raised is not None:
            problems.append(("exception", raised, "rescaled"))
        else:
            # the reference histogram keeps its scale, hence its contents
            exp_ref = [float(Fraction(c)) for c in R.flat(spec_ref["bins"])]
            if not all(M.close(a, b) for a, b in zip(R.flat(href.bins), exp_ref)):
                problems.append(("reference-changed", R.flat(href.bins), exp_ref))
            if bad:
                after = M.snapshot(ob) if other["kind"] == "hist" else repr(ob.coords)
                if after != before_o:
                    problems.append(("unscalable-changed", after, before_o))
            elif other["kind"] == "hist":
                exp = [float(Fraction(c) * i_ref / old_o) for c in cells_o]
                rel = M.REL * max(1.0, float(mag_o / abs(i_o)) * 1e-3, float(mag_ref / abs(i_ref)) * 1e-3)
                got = R.flat(ob.bins)
                if len(got) != len(exp) or not all(M.close(a, b, rel=rel) for a, b in zip(got, exp)):
                    problems.append(("bins", got, exp))
                outcome = tuple(got)
            else:
                names, dim = list(other["gspec"]["names"]), other["gspec"]["dim"]
                resc = M.rescaled_columns(names, dim)
                exp = [list(c) for c in cols]
                for k in resc:
                    exp[k] = [float(Fraction(v) * i_ref / Fraction(old_o)) for v in exp[k]]
                got = [list(c) for c in ob.coords]
                rel = M.REL * max(1.0, float(mag_ref / abs(i_ref)) * 1e-3)
                okay = len(got) == len(exp) and all(
                    len(a) == len(b) and all(M.close(x, y, rel=rel) for x, y in zip(a, b))
                    for a, b in zip(got, exp))
                if not okay:
                    problems.append(("columns", got, exp))
                outcome = repr(got)
    res.case(nontrivial=judgeable and raised is None and not bad, outcome=outcome)
    _report(res, case, problems, cause)
    return case


# ---- law: histogram.add -----------------------------------------------------------------------------------
def _edge_relation(ea, eb):
    ua, ub = R.unify(ea), R.unify(eb)
    if [len(a) for a in ua] != [len(b) for b in ub]:
        return "different"
    worst = 0.0
    for a, b in zip(ua, ub):
        for x, y in zip(a, b):
            if x != y:
                m = max(abs(x), abs(y))
                worst = max(worst, abs(x - y) / m)
    if worst == 0.0:
        return "equal"
    if worst > 1e-6:
        return "different"
    return "near"


def check_add(res, spec_a, spec_b, weight, label):
    case = {"law": "add", "a": spec_a, "b": spec_b, "weight": weight, "label": label}
    cause = {"law": "add", "edges": label, "dim": _dim(spec_a), "weight_is_one": weight == 1}
    typed, cl = _typed([weight])
    if typed:
        cause = {"law": "add-typed", "edges": label, "kinds": typed}
    weight = M.number(weight)   # a new number object for this execution
    a, b = build_hist(spec_a), build_hist(spec_b)
    rel_edges = _edge_relation(spec_a["edges"], spec_b["edges"])
    snap_a, snap_b = M.snapshot(a), M.snapshot(b)
    problems = []
    try:
        r = a.add(b) if weight is None else a.add(b, weight)
        raised = None
    except Exception as e:
        r = None
        raised = type(e).__name__
    w = 1 if weight is None else weight
    outcome = raised
    nontrivial = False
    if rel_edges == "different":
        nontrivial = True
        if raised != LVE:
            problems.append(("different-edges-accepted" if raised is None else "exception",
                             raised or "returned a histogram", LVE))
    elif raised is not None:
        if not (rel_edges == "near" and raised == LVE):
            problems.append(("exception", raised, "a + w*b"))
    else:
        ca, cb = R.flat(spec_a["bins"]), R.flat(spec_b["bins"])
        exp = [x + y * w for x, y in zip(ca, cb)]
        exp_n = spec_a.get("n_out", 0) + spec_b.get("n_out", 0) * w
        if not isinstance(r, histogram):
            problems.append(("result-type", repr(r), "histogram"))
        else:
            if _shape_of_bins(r.bins) != M.shape_of(spec_a["edges"]):
                problems.append(("bins-shape", repr(r.bins), exp))
            else:
                got = R.flat(r.bins)
                if not all(cl(g, e) for g, e in zip(got, exp)):
                    problems.append(("bins", got, exp))
                outcome = tuple(got)
            if not cl(r.n_out_of_range, exp_n):
                problems.append(("n_out_of_range", r.n_out_of_range, exp_n))
            if _edge_relation(r.edges, spec_a["edges"]) not in ("equal", rel_edges):
                problems.append(("result-edges", repr(r.edges), repr(spec_a["edges"])))
        nontrivial = len(ca) >= 2 and any(v != 0 for v in cb)
    if M.snapshot(a) != snap_a:
        problems.append(("self-modified", M.snapshot(a), snap_a))
    if M.snapshot(b) != snap_b:
        problems.append(("other-modified", M.snapshot(b), snap_b))
    if raised is None and isinstance(r, histogram) and not problems:
        # the sum is a histogram like any other: operands whose scale had been computed (and cached)
        # before the addition give a sum whose own scale is that of a new histogram with its content
        def scale_of(h):
            try:
                return ("ok", h.scale())
            except Exception as e:  # noqa
                return ("exc", type(e).__name__)
        a2, b2 = build_hist(spec_a), build_hist(spec_b)
        scale_of(a2), scale_of(b2)
        try:
            r2 = a2.add(b2) if weight is None else a2.add(b2, weight)
            got_s = scale_of(r2)
            want_s = scale_of(histogram(M.copy_edges(r2.edges), M.copy_bins(r2.bins)))
            same = got_s == want_s or (got_s[0] == want_s[0] == "ok" and cl(got_s[1], want_s[1]))
            if not same:
                problems.append(("scale-of-sum-after-operand-scale", got_s, want_s))
        except Exception as e:  # noqa
            problems.append(("exception-after-operand-scale", type(e).__name__, "a + w*b"))
    res.case(nontrivial=nontrivial, outcome=(outcome, label))
    if typed:
        res.count("typed_number_cases")
    if raised == LVE:
        res.count("add_rejected")
    _report(res, case, problems, cause)
    return case


NON_HISTOGRAMS = ["bins", "none", "number", "graph", "element", "edges-bins-tuple"]


def _non_histogram(kind, spec):
    if kind == "bins":
        return M.copy_bins(spec["bins"])
    if kind == "none":
        return None
    if kind == "number":
        return 3
    if kind == "graph":
        return graph([[0, 1], [1, 2]])
    if kind == "element":
        return lena.structures.Histogram(M.copy_edges(spec["edges"]), M.copy_bins(spec["bins"]))
    if kind == "edges-bins-tuple":
        return (M.copy_edges(spec["edges"]), M.copy_bins(spec["bins"]))
    raise KeyError(kind)


def check_add_non_histogram(res, spec, kind):
    case = {"law": "add-non-histogram", "a": spec, "kind": kind}
    a = build_hist(spec)
    snap = M.snapshot(a)
    problems = []
    try:
        r = a.add(_non_histogram(kind, spec))
        raised = None
    except Exception as e:
        raised = type(e).__name__
    if raised is None:
        problems.append(("non-histogram-accepted", repr(r), "an exception"))
    if M.snapshot(a) != snap:
        problems.append(("self-modified", M.snapshot(a), snap))
    res.case(nontrivial=True, outcome=raised)
    _report(res, case, problems, {"law": "add-non-histogram", "kind": kind})
    return case


# ---- law: get_nevents / set_nevents -------------------------------------------------------------------------
def check_nevents(res, spec, n, inc):
    case = {"law": "nevents", "hist": spec, "n": n, "include_out_of_range": inc}
    cause = {"law": "nevents", "dim": _dim(spec), "include_out_of_range": inc}
    typed, cl = _typed([n])
    if typed:
        cause = {"law": "nevents-typed", "kinds": typed, "include_out_of_range": inc}
    n_obj, nv = M.number(n), M.exact(n)
    cells = R.flat(spec["bins"])
    n_out = spec.get("n_out", 0)
    total, mag = M.sum_info(cells + ([n_out] if inc else []))
    problems = []
    h = build_hist(spec)
    try:
        got = h.get_nevents(include_out_of_range=inc) if inc else h.get_nevents()
    except Exception as e:
        got = _exc(e)
    if not M.close(got, float(total), hint=float(mag)):
        problems.append(("get_nevents", got, float(total)))
    try:
        if inc:
            r = h.set_nevents(n_obj, include_out_of_range=True)
        else:
            r = h.set_nevents(n_obj)
        raised = None
    except Exception as e:
        raised = type(e).__name__
    outcome = raised
    nontrivial = False
    if total == 0:
        if raised is None:
            problems.append(("zero-events-accepted", "returned", "an exception (get_nevents() cannot become n)"))
    elif raised is not None:
        problems.append(("exception", raised, "rescaled"))
    else:
        hint = abs(float(nv * mag / abs(total)))
        try:
            after = h.get_nevents(include_out_of_range=inc)
        except Exception as e:
            after = _exc(e)
        if not cl(after, nv if typed else n, hint=hint):
            problems.append(("get_nevents-after-set", after, n))
        if _shape_of_bins(h.bins) != M.shape_of(spec["edges"]):
            problems.append(("bins-shape", repr(h.bins), n))
        else:
            new_cells = R.flat(h.bins)
            if all(M.is_num(v) for v in new_cells) and M.is_num(h.n_out_of_range):
                ref_total = math.fsum(new_cells + ([h.n_out_of_range] if inc else []))
                if not cl(ref_total, nv if typed else n, hint=hint):
                    problems.append(("sum-of-cells-after-set", ref_total, n))
            else:
                problems.append(("sum-of-cells-after-set", repr(h.bins), n))
            outcome = tuple(new_cells) + (h.n_out_of_range,)
        nontrivial = (len(cells) >= 2 or inc) and nv != total
    res.case(nontrivial=nontrivial, outcome=(outcome, inc))
    if typed:
        res.count("typed_number_cases")
    _report(res, case, problems, cause)
    return case


# ---- law: hist_to_graph -----------------------------------------------------------------------------------
H2G_VARIANTS = ["plain", "string-names", "make-value", "scale-true", "element"]
_VALUE_NAMES = {1: ("x", "y"), 2: ("x", "y", "z"), 3: ("x", "y", "z", "t")}


def _make_value(b):
    return (b, b * 0.5 + 1)


def check_hist_to_graph(res, spec, mode, variant):
    case = {"law": "hist-to-graph", "hist": spec, "mode": mode, "variant": variant}
    dim = _dim(spec)
    cause = {"law": "hist-to-graph", "dim": dim, "mode": mode, "variant": variant}
    names = _VALUE_NAMES[dim]
    h = build_hist(spec)
    problems = []
    try:
        if variant == "plain":
            g = hist_to_graph(h, get_coordinate=mode, field_names=names)
        elif variant == "string-names":
            g = hist_to_graph(h, get_coordinate=mode, field_names=", ".join(names))
        elif variant == "make-value":
            g = hist_to_graph(h, make_value=_make_value, get_coordinate=mode,
                              field_names=names + ("error_" + names[-1],))
        elif variant == "scale-true":
            g = hist_to_graph(h, get_coordinate=mode, field_names=names, scale=True)
        elif variant == "element":
            out = list(HistToGraph(get_coordinate=mode, field_names=names).run(iter([(h, {"k": 1})])))
            if len(out) != 1:
                raise AssertionError("HistToGraph yielded %d values" % len(out))
            g = lena.flow.get_data(out[0])
        else:
            raise KeyError(variant)
        raised = None
    except Exception as e:
        g = None
        raised = type(e).__name__
    cells = M.ref_cells(spec["edges"], spec["bins"])
    exp_rows = []
    for idx, content, ce in cells:
        if mode == "left":
            coord = [lo for lo, hi in ce]
        elif mode == "right":
            coord = [hi for lo, hi in ce]
        else:
            coord = [float((Fraction(lo) + Fraction(hi)) / 2) for lo, hi in ce]
        vals = list(_make_value(content)) if variant == "make-value" else [content]
        exp_rows.append(coord + vals)
    outcome = raised
    if raised is not None:
        problems.append(("exception", raised, "a graph"))
    elif not isinstance(g, graph):
        problems.append(("result-type", repr(g), "graph"))
    else:
        try:
            got_rows = [list(r) for r in zip(*g.coords)] if g.coords and len(g.coords[0]) else []
            ncols = len(g.coords)
            lens = set(len(c) for c in g.coords)
        except Exception as e:
            got_rows, ncols, lens = None, None, None
        width = dim + (2 if variant == "make-value" else 1)
        if got_rows is None or ncols != width or lens != {len(cells)}:
            problems.append(("number-of-points", repr(g), exp_rows))
        else:
            for got, exp in zip(got_rows, exp_rows):
                for k in range(width):
                    if k < dim and mode == "middle":
                        ok = M.close(got[k], exp[k])
                    elif k < dim:
                        ok = M.is_num(got[k]) and got[k] == exp[k]
                    else:
                        ok = M.close(got[k], exp[k], rel=1e-15)
                    if not ok:
                        problems.append(("coordinate" if k < dim else "value", got_rows, exp_rows))
                        break
            outcome = repr(got_rows)
    res.case(nontrivial=len(cells) >= 2 and raised is None, outcome=(outcome, mode))
    _report(res, case, problems, cause)
    return case


# ---- law: the three iterators agree ---------------------------------------------------------------------------
def _same_content(a, b):
    return M.is_num(a) and a == b and type(a) is type(b)


def check_iterators(res, spec):
    case = {"law": "iterators", "hist": spec}
    cause = {"law": "iterators", "dim": _dim(spec)}
    h = build_hist(spec)
    ref = M.ref_cells(spec["edges"], spec["bins"])
    problems = []
    outs = {}
    try:
        outs["iter_bins"] = [(tuple(i), c, None) for i, c in iter_bins(h.bins)]
    except Exception as e:
        problems.append(("iter_bins-exception", _exc(e), "cells"))
    try:
        outs["iter_bins_with_edges"] = [(None, c, M.norm_cell_edges(e))
                                        for c, e in iter_bins_with_edges(h.bins, h.edges)]
    except Exception as e:
        problems.append(("iter_bins_with_edges-exception", _exc(e), "cells"))
    try:
        outs["iter_cells"] = [(tuple(c.index), c.bin, M.norm_cell_edges(c.edges)) for c in iter_cells(h)]
    except Exception as e:
        problems.append(("iter_cells-exception", _exc(e), "cells"))
    for name in sorted(outs):
        got = outs[name]
        if len(got) != len(ref):
            problems.append((name + "-count", len(got), len(ref)))
            continue
        for (gi, gc, ge), (ri, rc, re_) in zip(got, ref):
            if gi is not None and gi != ri:
                problems.append((name + "-index", repr(got), repr(ref)))
                break
            if not _same_content(gc, rc):
                problems.append((name + "-content", repr(got), repr(ref)))
                break
            if ge is not None and (ge != re_ or repr(ge) != repr(re_)):
                problems.append((name + "-edges", repr(got), repr(ref)))
                break
    res.case(nontrivial=len(ref) >= 2, outcome=repr(sorted(outs.items())))
    _report(res, case, problems, cause)
    return case


def _range_options(n):
    lows = [None, 0] + list(range(1, n + 1)) + [-1]
    ups = [None] + list(range(0, n + 2))
    return [(lo, up) for lo in lows for up in ups]


def check_iter_ranges(res, spec, ranges):
    """iter_cells(hist, ranges=...)"""
    case = {"law": "iter-cells-ranges", "hist": spec, "ranges": [list(r) for r in ranges]}
    shape = M.shape_of(spec["edges"])
    cause = {"law": "iter-cells-ranges", "dim": len(shape)}
    h = build_hist(spec)
    valid = all((lo is None or lo >= 0) and (up is None or up <= n) for (lo, up), n in zip(ranges, shape))
    full = {idx: (c, e) for idx, c, e in M.ref_cells(spec["edges"], spec["bins"])}
    problems = []
    got = []
    raised = None
    try:
        for c in iter_cells(h, ranges=tuple(tuple(r) for r in ranges)):
            got.append((tuple(c.index), c.bin, M.norm_cell_edges(c.edges)))
    except Exception as e:
        raised = type(e).__name__
    # whatever is yielded must be a cell of the histogram, in order, once
    for gi, gc, ge in got:
        if gi not in full or not _same_content(gc, full[gi][0]) or ge != full[gi][1]:
            problems.append(("cell-mismatch", repr(got), "cells of the histogram"))
            break
    idxs = [g[0] for g in got]
    if idxs != sorted(set(idxs)):
        problems.append(("order-or-duplicates", idxs, "strictly increasing indices"))
    nontrivial = False
    if valid:
        axes = [range(0 if lo is None else lo, n if up is None else up) for (lo, up), n in zip(ranges, shape)]
        exp = list(itertools.product(*axes))
        if raised is not None:
            problems.append(("exception", raised, exp))
        elif idxs != exp:
            problems.append(("selected-cells", idxs, exp))
        nontrivial = 0 < len(exp) < len(full)
    res.case(nontrivial=nontrivial, outcome=(tuple(idxs), raised))
    if raised == LVE:
        res.count("iter_cells_range_rejected")
    _report(res, case, problems, cause)
    return case


def _coord_points(axis):
    pts = [axis[0] - 1]
    for a, b in zip(axis, axis[1:]):
        pts.append(a)
        pts.append(a / 2.0 + b / 2.0)
    pts.append(axis[-1])
    pts.append(axis[-1] + 1)
    return pts


def check_iter_coord_ranges(res, spec, cranges):
    case = {"law": "iter-cells-coord-ranges", "hist": spec, "coord_ranges": [list(r) for r in cranges]}
    shape = M.shape_of(spec["edges"])
    cause = {"law": "iter-cells-coord-ranges", "dim": len(shape)}
    h = build_hist(spec)
    full = {idx: (c, e) for idx, c, e in M.ref_cells(spec["edges"], spec["bins"])}
    problems = []
    got = []
    raised = None
    try:
        for c in iter_cells(h, coord_ranges=tuple(tuple(r) for r in cranges)):
            got.append((tuple(c.index), c.bin, M.norm_cell_edges(c.edges)))
    except Exception as e:
        raised = type(e).__name__
    for gi, gc, ge in got:
        if gi not in full or not _same_content(gc, full[gi][0]) or ge != full[gi][1]:
            problems.append(("cell-mismatch", repr(got), "cells of the histogram"))
            break
    idxs = [g[0] for g in got]
    if idxs != sorted(set(idxs)):
        problems.append(("order-or-duplicates", idxs, "strictly increasing indices"))
    res.case(nontrivial=0 < len(idxs) < len(full), outcome=(tuple(idxs), raised))
    _report(res, case, problems, cause)
    return case


# ---- law: CSV ---------------------------------------------------------------------------------------------------
CSV_MODES = ["function-dup", "function-nodup", "element-dup", "element-nodup",
             "context-dup-over-nodup", "context-nodup-over-dup"]


def check_csv(res, spec, mode, sep):
    case = {"law": "csv", "hist": spec, "mode": mode, "separator": sep}
    dim = _dim(spec)
    dup = mode in ("function-dup", "element-dup", "context-dup-over-nodup")
    cause = {"law": "csv", "dim": dim, "duplicate": dup, "by": mode.split("-")[0]}
    h = build_hist(spec)
    snap = M.snapshot(h)
    problems = []
    text = None
    try:
        if mode.startswith("function"):
            f = lena.output.hist1d_to_csv if dim == 1 else lena.output.hist2d_to_csv
            text = "\n".join(f(h, separator=sep, duplicate_last_bin=dup))
        else:
            if mode.startswith("element"):
                el = lena.output.ToCSV(separator=sep, duplicate_last_bin=dup)
                val = h if mode == "element-dup" else (h, {"k": 1})
            else:
                el = lena.output.ToCSV(separator=sep, duplicate_last_bin=not dup)
                val = (h, {"output": {"duplicate_last_bin": dup}})
            out = list(el.run(iter([val])))
            if len(out) != 1 or not isinstance(out[0], tuple) or not isinstance(out[0][0], str):
                problems.append(("not-converted", repr(out), "one (csv text, context) value"))
            else:
                text = out[0][0]
    except Exception as e:
        problems.append(("exception", _exc(e), "csv text"))
    exp = M.ref_csv_rows(spec["edges"], spec["bins"], dup)
    outcome = None
    if text is not None:
        try:
            rows = M.parse_csv(text, sep)
        except Exception as e:
            rows = None
            problems.append(("unparsable", text, "numbers separated by %r" % sep))
        if rows is not None:
            outcome = text
            if len(rows) != len(exp):
                problems.append(("row-count", len(rows), len(exp)))
            elif any(len(r) != dim + 1 for r in rows):
                problems.append(("columns", rows, dim + 1))
            else:
                for r, (coords, content, is_dup) in zip(rows, exp):
                    if not all(M.csv_close(a, b) for a, b in zip(r[:dim], coords)):
                        problems.append(("edge", rows, [c + [v] for c, v, _ in exp]))
                        break
                    if not M.csv_close(r[dim], content):
                        problems.append(("duplicated-content" if is_dup else "content", rows,
                                         [c + [v] for c, v, _ in exp]))
                        break
    if M.snapshot(h) != snap:
        problems.append(("histogram-modified", M.snapshot(h), snap))
    res.case(nontrivial=len(exp) >= 2 and text is not None, outcome=outcome)
    _report(res, case, problems, cause)
    return case


def check_csv_flow(res, spec, el_dup, overrides):
    """One ToCSV element over a flow of several histograms, each with its own (or no)
    output.duplicate_last_bin: every value must be rendered as it is rendered alone by a fresh element
    (differential; what a single conversion must look like is check_csv's business)."""
    case = {"law": "csv-flow", "hist": spec, "element_duplicate": el_dup, "overrides": list(overrides)}
    cause = {"law": "csv-flow", "dim": _dim(spec)}

    def value(ov):
        h = build_hist(spec)
        return (h, {"k": 1}) if ov is None else (h, {"output": {"duplicate_last_bin": ov}})

    problems = []
    try:
        together = [v[0] for v in lena.output.ToCSV(duplicate_last_bin=el_dup).run(
            iter([value(ov) for ov in overrides]))]
        alone = []
        for ov in overrides:
            alone.extend(v[0] for v in lena.output.ToCSV(duplicate_last_bin=el_dup).run(iter([value(ov)])))
        if together != alone:
            idx = [i for i, (a, b) in enumerate(zip(together, alone)) if a != b]
            cause["effective_setting_of_wrong_value"] = \
                "own" if idx and overrides[idx[0]] is not None else "element-default"
            problems.append(("depends-on-earlier-values", together, alone))
    except Exception as e:
        problems.append(("exception", _exc(e), "csv texts"))
    res.case(nontrivial=len(set(overrides)) > 1, outcome=None)
    _report(res, case, problems, cause)
    return case


def check_graph_csv(res, gspec, sep):
    case = {"law": "graph-csv", "graph": gspec, "separator": sep}
    cause = {"law": "graph-csv", "dim": gspec["dim"], "columns": len(gspec["names"])}
    problems = []
    outcome = None
    try:
        g, cols = build_graph(gspec)
        out = list(lena.output.ToCSV(separator=sep).run(iter([(g, {"k": 1})])))
        if len(out) != 1 or not isinstance(out[0], tuple) or not isinstance(out[0][0], str):
            problems.append(("not-converted", repr(out), "one (csv text, context) value"))
        else:
            text = out[0][0]
            outcome = text
            try:
                rows = M.parse_csv(text, sep)
            except Exception:
                rows = None
                problems.append(("unparsable", text, "numbers"))
            exp = [list(r) for r in zip(*cols)]
            if rows is not None and rows != exp:
                problems.append(("rows", rows, exp))
    except Exception as e:
        problems.append(("exception", _exc(e), "csv text"))
    res.case(nontrivial=gspec["npoints"] >= 2, outcome=outcome)
    _report(res, case, problems, cause)
    return case


# ---- enumeration ----------------------------------------------------------------------------------------------
GRAPH_SCALES = [None, 0, 2, -0.5]
VIAS = ["method", "ScaleTo", "scale_to", "GroupScale"]
N_OUTS = [3, 0.5, 0]


def graph_specs(tier, scales=GRAPH_SCALES):
    d = M.dom(tier)
    out = []
    for dim in (1, 2, 3):
        for _dim_, names in M.graph_namings(dim, 3):
            for sc in scales:
                for n in d["graph_points"]:
                    for as_string in (False, True):
                        out.append({"dim": dim, "names": list(names), "scale": sc, "npoints": n,
                                    "as_string": as_string})
                    if n and len(names) >= 2:
                        # the last coordinate's list object is also another column (first coordinate or
                        # the first error field)
                        other = 0 if dim >= 2 else dim
                        out.append({"dim": dim, "names": list(names), "scale": sc, "npoints": n,
                                    "as_string": False, "alias": [dim - 1, other]})
    return out


def _add_pairs(tier):
    """(spec a, spec b, label) for histogram.add."""
    d = M.dom(tier)
    out = []
    for shape, pools, edges in M.frames(tier):
        n = M.ncells(shape)
        if n <= 2:
            la = lb = M.content_lists(shape, d["contents"], 2)
        elif n <= d["max_exhaustive"]:
            la = M.content_lists(shape, d["contents"], d["max_exhaustive"])
            lb = [M.coded(c, n) for c in M.CODINGS]
        else:
            la = lb = [M.coded(c, n) for c in M.CODINGS]
        for fa in la:
            for fb in lb:
                out.append(({"edges": edges, "bins": M.nest(fa, shape)},
                            {"edges": edges, "bins": M.nest(fb, shape)}, "same"))
    return out


def _unequal_pairs(tier):
    out = []
    frames = M.frames(tier)
    by_dim = {}
    for fr in frames:
        by_dim.setdefault(len(fr[0]), []).append(fr)
    for shape, pools, edges in frames:
        dim = len(shape)
        a = {"edges": edges, "bins": M.nest(M.coded("int", M.ncells(shape)), shape)}

        def other(sh, pl, label, edges_b=None):
            eb = M.make_edges(sh, pl) if edges_b is None else edges_b
            for coding in ("int", "signed"):
                b = {"edges": eb, "bins": M.nest(M.coded(coding, M.ncells(sh)), sh)}
                out.append((a, b, label))
                out.append((b, a, label))
        # same shape, other edge values on one axis
        for k in range(dim):
            pl = list(pools)
            pl[k] = (pools[k] + 1) % 3
            other(shape, tuple(pl), "other-values")
        # one more / one fewer bin on one axis (the common prefix of the edges is identical)
        for k in range(dim):
            for delta in (1, -1):
                sh = list(shape)
                sh[k] += delta
                if 1 <= sh[k] <= 4:
                    other(tuple(sh), pools, "other-shape")
        # transposed shape
        if dim >= 2 and shape != tuple(reversed(shape)):
            other(tuple(reversed(shape)), tuple(reversed(pools)), "other-shape")
        # other dimension: drop the last axis / append an axis
        if dim >= 2:
            other(shape[:-1], pools[:-1], "other-dim")
        if dim <= 2:
            other(shape + (1,), pools + (0,), "other-dim")
            other(shape + (shape[-1],), pools + (pools[-1],), "other-dim")
        # float neighbours of the edges (either outcome accepted)
        near = M.copy_edges(edges)
        last_axis = near if dim == 1 else near[-1]
        last_axis[-1] = math.nextafter(float(last_axis[-1]), R.INF)
        other(shape, pools, "near", edges_b=near)
        # edges of very small magnitude that differ a lot relatively (and by less than 1e-9 absolutely):
        # the tolerance of add is relative (edges_rel_tol=1e-9, edges_abs_tol=0)
        if dim == 1 and shape[0] >= 2:
            tiny = [float(e) * 2.0 ** -36 for e in edges]
            moved = list(tiny)
            moved[1] = (tiny[0] + tiny[1]) / 2 if tiny[1] != tiny[0] else tiny[1]
            ta = {"edges": tiny, "bins": M.nest(M.coded("int", M.ncells(shape)), shape)}
            tb = {"edges": moved, "bins": M.nest(M.coded("signed", M.ncells(shape)), shape)}
            if _edge_relation(tiny, moved) == "different":
                out.append((ta, tb, "tiny-different"))
                out.append((tb, ta, "tiny-different"))
            out.append((ta, {"edges": list(tiny), "bins": tb["bins"]}, "tiny-same"))
    return out


def _iter_range_items(tier):
    """(spec, tuple of per-axis (low, up)) for iter_cells(ranges=...)."""
    d = M.dom(tier)
    out = []
    for dim in (1, 2, 3):
        maxb = d["maxbins"][dim] if (tier == "thorough" or dim < 3) else 2
        if tier == "thorough" and dim == 2:
            maxb = 3
        for shape in M.all_shapes(dim, maxb):
            pools = M.pool_combos(dim, tier)[1]
            edges = M.make_edges(shape, pools)
            spec = {"edges": edges, "bins": M.nest(M.coded("signed", M.ncells(shape)), shape)}
            for ranges in itertools.product(*[_range_options(n) for n in shape]):
                out.append((spec, ranges))
    return out


def _iter_coord_items(tier):
    out = []
    for dim in (1, 2, 3):
        maxb = 3 if dim < 3 else 2
        for shape in M.all_shapes(dim, maxb):
            if dim == 3 and M.ncells(shape) > 4:
                continue
            for pools in M.pool_combos(dim, tier)[:3]:
                edges = M.make_edges(shape, pools)
                spec = {"edges": edges, "bins": M.nest(M.coded("half", M.ncells(shape)), shape)}
                per_axis = []
                for a in R.unify(edges):
                    pts = _coord_points(a)
                    per_axis.append([(x, y) for x in pts for y in pts if x <= y])
                for cr in itertools.product(*per_axis):
                    out.append((spec, cr))
    return out


def _group_items(tier):
    """(reference histogram spec, other structure) for scale_to with a selector."""
    refs = [s for s in M.coded_specs(tier, codings=["int", "signed"])]
    others = []
    for s in M.hist_specs(tier, dims=(1, 2), max_exhaustive=2):
        if M.ncells(M.shape_of(s["edges"])) <= 2:
            others.append({"kind": "hist", "spec": with_n_out(s, 3)})
    for dim in (1, 2, 3):
        for _d, names in M.graph_namings(dim, 2, name_sets=[0]):
            for sc in GRAPH_SCALES:
                others.append({"kind": "graph", "gspec": {"dim": dim, "names": list(names), "scale": sc,
                                                          "npoints": 2, "as_string": False}})
    step = 1 if tier == "thorough" else 7
    out = []
    k = 0
    for r in refs[::step]:
        for o in others:
            out.append((with_n_out(r, 0.5), o))
            k += 1
    return out


def _typed_items(tier):
    """Work items of the number-type axis: every structure below meets every typed number of the tier
    (M.typed_numbers) as target scale (through every driver), weight or number of events."""
    out = []
    thorough = tier == "thorough"
    out.extend(("hist", spec) for spec in M.coded_specs(tier))
    out.extend(("nevents", spec) for spec in M.coded_specs(tier))
    for dim in (1, 2, 3):
        for _d, names in M.graph_namings(dim, 3 if thorough else 2,
                                         name_sets=None if thorough else [0, 3]):
            for sc in GRAPH_SCALES:
                out.append(("graph", {"dim": dim, "names": list(names), "scale": sc, "npoints": 3,
                                      "as_string": False}))
    for shape, pools, edges in M.frames(tier):
        n = M.ncells(shape)
        a = {"edges": edges, "bins": M.nest(M.coded("int", n), shape)}
        for coding in M.CODINGS:
            out.append(("add", (a, {"edges": edges, "bins": M.nest(M.coded(coding, n), shape)})))
    return out


def _run_typed_item(res, tier, kind, item):
    nums = M.typed_numbers(tier)
    case = None
    if kind == "hist":
        s = with_n_out(item, 3)
        for t in nums:
            for via in VIAS:
                case = check_hist_scale(res, s, [t], via, False)
            check_hist_scale(res, s, [t], "method", True)
            check_hist_scale(res, s, [t, 2], "method", False)
            check_hist_scale(res, s, [-3, t], "method", False)
    elif kind == "graph":
        # graph.scale documents "a numeric other": Decimal too (as the last target: the graph then holds
        # a Decimal scale, which Python does not divide a float by)
        for t in M.typed_numbers(tier, decimal=True):
            for via in VIAS:
                case = check_graph_scale(res, item, [t], via)
            if item["scale"]:
                check_graph_scale(res, item, [-3, t], "method")
                if M.kind_of(t) != "Decimal":
                    check_graph_scale(res, item, [t, 2], "method")
    elif kind == "nevents":
        for t in nums:
            for inc in (False, True):
                case = check_nevents(res, with_n_out(item, 3), t, inc)
    elif kind == "add":
        a, b = item
        for t in nums:
            case = check_add(res, with_n_out(a, 3), with_n_out(b, 0.5), t, "same")
    else:
        raise KeyError(kind)
    return case


def _selector_items(tier):
    """(reference histogram, other structure, selector form, driver): every documented form of a
    selector given to scale_to and to GroupScale (the form "str" through scale_to is law "group")."""
    refs = M.coded_specs(tier, dims=(1,), codings=["signed"])
    others = []
    for s in M.coded_specs(tier, dims=(1, 2), codings=["half"]):
        others.append({"kind": "hist", "spec": with_n_out(s, 3)})
    for dim in (1, 2, 3):
        for _d, names in M.graph_namings(dim, 1, name_sets=[0]):
            for sc in GRAPH_SCALES:
                others.append({"kind": "graph", "gspec": {"dim": dim, "names": list(names), "scale": sc,
                                                          "npoints": 2, "as_string": False}})
    out = []
    for r in refs:
        for o in others:
            for via in ("scale_to", "GroupScale"):
                for form in SELECTOR_FORMS:
                    if (form, via) != ("str", "scale_to"):
                        out.append((with_n_out(r, 0.5), o, form, via))
    return out


GROUPS = [
    # (law group, number of chunks quick, thorough)
    ("hscale", 24, 48),
    ("gscale", 8, 12),
    ("group", 2, 8),
    ("typed", 4, 17),
    ("selector", 1, 4),
    ("add", 12, 32),
    ("unequal", 2, 4),
    ("nevents", 6, 16),
    ("h2g", 6, 16),
    ("iter", 2, 4),
    ("ranges", 6, 16),
    ("coord", 4, 8),
    ("csv", 6, 12),
    ("gcsv", 2, 4),
]


def shards(tier):
    out = []
    for name, nq, nt in GROUPS:
        n = nt if tier == "thorough" else nq
        for k in range(n):
            out.append({"law": name, "chunk": k, "of": n})
    return out


def _mine(items, p):
    return [items[i] for i in range(p["chunk"], len(items), p["of"])]


def run_shard(p, tier):
    d = M.dom(tier)
    res = Result()
    law = p["law"]
    targets = d["targets"]
    if law == "hscale":
        for spec in _mine(M.hist_specs(tier), p):
            for n_out in N_OUTS[:2]:
                s = with_n_out(spec, n_out)
                for t in targets:
                    for pre in (False, True):
                        case = check_hist_scale(res, s, [t], "method", pre)
                res.sample(case, 2)
            s = with_n_out(spec, 3)
            for t1 in (2, -3):
                for t2 in targets:
                    check_hist_scale(res, s, [t1, t2], "method", False)
            s = with_n_out(spec, 0)
            for via in VIAS[1:]:
                for t in targets[1:4]:
                    check_hist_scale(res, s, [t], via, False)
        for spec in _mine(M.coded_specs(tier, dims=(1, 2)), p):
            for t in targets[:2]:
                check_scale_recompute(res, spec, t)
        # contents and cell sizes of very small magnitude (exact powers of two): a scale that is tiny
        # is not a zero scale
        for spec in _mine(M.coded_specs(tier, dims=(1, 2)), p):
            shape = M.shape_of(spec["edges"])
            tiny_bins = M.nest([v * 2.0 ** -70 for v in R.flat(spec["bins"])], shape)
            for t in targets[:3]:
                check_hist_scale(res, {"edges": spec["edges"], "bins": tiny_bins, "n_out": 0}, [t],
                                 "method", False)
                for via in VIAS[1:]:
                    check_hist_scale(res, {"edges": spec["edges"], "bins": tiny_bins, "n_out": 0}, [t],
                                     via, False)
    elif law == "gscale":
        for gs in _mine(graph_specs(tier), p):
            for t in targets:
                case = check_graph_scale(res, gs, [t], "method")
            res.sample(case, 2)
            if gs["scale"]:
                for t2 in targets[:3]:
                    check_graph_scale(res, gs, [-3, t2], "method")
            if not gs["as_string"]:
                for via in VIAS[1:]:
                    check_graph_scale(res, gs, [targets[2]], via)
    elif law == "group":
        for r, o in _mine(_group_items(tier), p):
            for allow in (False, True):
                case = check_group_scale(res, r, o, allow)
            res.sample(case, 2)
    elif law == "typed":
        for kind, item in _mine(_typed_items(tier), p):
            case = _run_typed_item(res, tier, kind, item)
            res.sample(case, 2)
    elif law == "selector":
        for r, o, form, via in _mine(_selector_items(tier), p):
            for allow in (False, True):
                case = check_group_scale(res, r, o, allow, form, via)
            res.sample(case, 2)
    elif law == "add":
        for a, b, label in _mine(_add_pairs(tier), p):
            for na, nb in ((0, 0), (3, 0.5)):
                for w in [None] + d["weights"]:
                    case = check_add(res, with_n_out(a, na), with_n_out(b, nb), w, label)
            res.sample(case, 2)
    elif law == "unequal":
        for a, b, label in _mine(_unequal_pairs(tier), p):
            for w in (None, 2):
                case = check_add(res, with_n_out(a, 3), with_n_out(b, 0.5), w, label)
            res.sample(case, 2)
        if p["chunk"] == 0:
            for spec in M.coded_specs(tier, codings=["int"]):
                for kind in NON_HISTOGRAMS:
                    check_add_non_histogram(res, with_n_out(spec, 1), kind)
    elif law == "nevents":
        for spec in _mine(M.hist_specs(tier), p):
            for n_out in N_OUTS:
                for inc in (False, True):
                    if n_out == 0 and inc:
                        continue
                    for n in targets:
                        case = check_nevents(res, with_n_out(spec, n_out), n, inc)
            res.sample(case, 2)
    elif law == "h2g":
        for spec in _mine(M.hist_specs(tier), p):
            for mode in ("left", "right", "middle"):
                for variant in H2G_VARIANTS:
                    case = check_hist_to_graph(res, with_n_out(spec, 0), mode, variant)
            res.sample(case, 2)
    elif law == "iter":
        for spec in _mine(M.hist_specs(tier), p):
            case = check_iterators(res, with_n_out(spec, 0))
            res.sample(case, 2)
    elif law == "ranges":
        for spec, ranges in _mine(_iter_range_items(tier), p):
            case = check_iter_ranges(res, with_n_out(spec, 0), ranges)
            res.sample(case, 2)
    elif law == "coord":
        for spec, cr in _mine(_iter_coord_items(tier), p):
            case = check_iter_coord_ranges(res, with_n_out(spec, 0), cr)
            res.sample(case, 2)
    elif law == "csv":
        for spec in _mine(M.hist_specs(tier, dims=(1, 2)), p):
            for mode in CSV_MODES:
                for sep in (",", ";"):
                    case = check_csv(res, with_n_out(spec, 0), mode, sep)
            res.sample(case, 2)
            if len(M.ref_csv_rows(spec["edges"], spec["bins"], True)) <= 6:
                for el_dup in (True, False):
                    for n in (2, 3):
                        for ovs in itertools.product((None, True, False), repeat=n):
                            check_csv_flow(res, with_n_out(spec, 0), el_dup, ovs)
    elif law == "gcsv":
        for gs in _mine(graph_specs(tier, scales=[None, 2]), p):
            for sep in (",", " "):
                case = check_graph_csv(res, gs, sep)
            res.sample(case, 2)
    else:
        raise KeyError(law)
    return res


def replay(case):
    res = Result()
    law = case.get("law")
    if law == "hist-scale":
        check_hist_scale(res, case["hist"], case["targets"], case["via"], case["pre"])
    elif law == "graph-scale":
        check_graph_scale(res, case["graph"], case["targets"], case["via"])
    elif law == "group-scale":
        check_group_scale(res, case["ref"], case["other"], case["allow"], case.get("selector", "str"),
                          case.get("via", "scale_to"))
    elif law == "add":
        check_add(res, case["a"], case["b"], case["weight"], case["label"])
    elif law == "add-non-histogram":
        check_add_non_histogram(res, case["a"], case["kind"])
    elif law == "nevents":
        check_nevents(res, case["hist"], case["n"], case["include_out_of_range"])
    elif law == "hist-to-graph":
        check_hist_to_graph(res, case["hist"], case["mode"], case["variant"])
    elif law == "iterators":
        check_iterators(res, case["hist"])
    elif law == "iter-cells-ranges":
        check_iter_ranges(res, case["hist"], [tuple(r) for r in case["ranges"]])
    elif law == "iter-cells-coord-ranges":
        check_iter_coord_ranges(res, case["hist"], [tuple(r) for r in case["coord_ranges"]])
    elif law == "csv":
        check_csv(res, case["hist"], case["mode"], case["separator"])
    elif law == "graph-csv":
        check_graph_csv(res, case["graph"], case["separator"])
    elif law == "scale-recompute":
        check_scale_recompute(res, case["hist"], case["target"])
    elif law == "csv-flow":
        check_csv_flow(res, case["hist"], case["element_duplicate"], tuple(case["overrides"]))
    else:
        raise KeyError(law)
    return result_violations(res)
