"""C18 - Cache replays exactly the stored flow and never serves a truncated one.

Fault enumeration (drivers E4 + E5 of DESIGN.md). A *shape* is a pipeline with one or two
lena.flow.Cache elements (in a Source, in a Sequence, nested, in a Split branch given as a Sequence, as
nested Sequences, as a tuple, as an explicit FillComputeSeq object or as the bare Cache element - the cache being the only, the first, a middle
or the last element of the branch -, or passed through lena.core.alter_sequence /
Cache.alter_sequence), elements in front of,
between and behind the caches taken from {logging callable, Slice, fill/compute accumulator, in-place
mutator, SetContext (an element without data; a cache may take its file name from it)}, a flow kind and
a flow length n. A *history* is a sequence of runs over what the previous runs left in a
private directory; all pipeline objects are rebuilt for every run (as a new process would). Every run
is one of

    complete                      the consumer iterates to the end
    stop k (close | abandon)      the consumer takes k = 0..L values and closes / keeps the generator
    upraise k                     the source raises instead of producing value k = 0..n
    downraise k                   a callable appended behind the pipeline raises on its call k = 0..L-1
    downslice m                   a Slice(m), m = 0..L, appended behind the pipeline stops consuming
    long                          (Split branch only) a complete run whose source is twice as long as
                                  the Split buffer (two blocks), when the branch must replay a cache

preceded by nothing, by recompute=True or by drop_cache() on all / one of the caches. While runs whose
consumer kept the generator after k >= 1 values are suspended, every next run is tried with them left
alone, with them closed before it, and with them RESUMED after it and consumed to their end (a resumed
run is judged as the whole run it is). All histories up
to the depth of the tier are enumerated; every run is executed on the real code with an instrumented
source (pull count) and logging elements (call counts) and judged by the non-deterministic reference
model mc/ref/c18_model.py (which never looks at lena).
"""
import contextlib
import copy
import json
import os

import lena.core
import lena.flow
import lena.meta

from mc.core import Result, result_violations
from mc.instrument import scratch_dir
from mc.ref import c18_model as M

ID = "C18"
LEVEL = "fault_enumeration"
DESIGN_REF = "DESIGN.md section 5, C18"
RULE = ("every history (sequence of runs, each = interruption kind x interruption point x "
        "none/recompute/drop_cache) up to the depth bound is enumerated for every pipeline shape, flow "
        "kind and flow length; one evaluation = one run executed on the real code in the directory its "
        "history left behind and judged; a run is non-trivial when some cache may already hold a flow "
        "when it starts (so it must replay, recompute or drop) or when it is an interruption of a run "
        "that is writing a cache of a non-empty flow; runs are distinct by construction (shape + "
        "history prefix), sub-histories behind an identical (depth, directory snapshot, model state) "
        "are explored once when de-duplication is on; a suspended run that is resumed after a later run "
        "and consumed to its end is one more (non-trivial) evaluation")
ASSUMPTIONS = [
    "flows of 0..N picklable values: ints, (int, nested context dict) pairs, and a pool of falsy "
    "values (0, None, '', [], {}, False, 0.0, ()); values are compared by repr (type-aware)",
    "elements next to the caches are user callables (wrap each value), Slice(m) and a user fill/compute "
    "accumulator, a user callable that changes its value in place, and lena.meta.SetContext (an element "
    "without data); at most two Cache elements per pipeline; cache file names are plain or one "
    "{{key}} template filled in by a SetContext of the same sequence (drop_cache() is then called "
    "once the cache stands in that sequence: before, it does not know its file)",
    "Split placements have ONE branch (a Sequence, nested Sequences, a tuple, an explicit FillComputeSeq "
    "object - for branches that hold a fill/compute element -, or the bare Cache element; "
    "the cache its only, first, middle or last element) and a buffer that holds the whole first-run flow "
    "(a Sequence with "
    "a Cache that is run once per block is documented in lena/core/split.py as unsupported); a source of "
    "two blocks ('long') is given only to runs that every allowed state serves from a cache (the branch "
    "is then a Source, which Split documents as producing its complete flow once); pulls on "
    "the source in front of a Split are not constrained, only elements inside the branch are",
    "after an interrupted run a cache is allowed to hold nothing or the complete flow (or, under "
    "recompute, its previous content); whether a consumer that stopped exactly after the last value "
    "leaves a usable cache is not decided by the statement and both are accepted",
    "a faulty run served by the source may surface the injected exception earlier or later than a "
    "cache-free pipeline would (laziness is C02's business); what it yields must be a prefix of the "
    "healthy output",
    "drop_cache() on a cache that does not exist raises OSError on this tree (its docstring says "
    "'pass otherwise'); the statement does not cover this and the harness tolerates it",
    "an abandoned generator stays alive (not closed, not collected) during the rest of its history, "
    "until it is closed or resumed; a resumed run may show the flow that was stored when it started "
    "or the one stored when it is resumed (both readings of 'the stored values'), and a cache it was "
    "writing may afterwards hold its flow or what a later run stored there meanwhile; resumption "
    "only after complete runs (every operation), in the thorough tier also after runs whose consumer "
    "stopped and closed the generator; runs "
    "that were suspended before their first value are never resumed (Cache.run decides by "
    "cache_exists() when it is called, its docstring says so); "
    "de-duplicated exploration assumes that a rebuilt pipeline's behaviour depends only on its inputs "
    "and the directory content (every reported violation is re-executed sequentially from scratch)",
]
NONTRIVIAL_FLOOR = {"quick": 20000, "thorough": 200000}
BUDGET_S = {"quick": 240, "thorough": 3000}


# --------------------------------------------------------------------------------------------------
# bounds

def _dom(tier):
    """depth[n] = longest history for flows of length n (merged exploration); plain_* = the bound of
    the exploration without merging."""
    if tier == "thorough":
        return dict(N=4, depth={0: 4, 1: 4, 2: 4, 3: 3, 4: 3}, plain_depth=3, plain_N=2)
    return dict(N=3, depth={0: 3, 1: 3, 2: 3, 3: 2}, plain_depth=2, plain_N=2)


def describe(tier):
    d = _dom(tier)
    return ("flows of length 0..%d; pipeline shapes: %d (placements source, sequence, nested, split_seq, split_nested, "
            "split_tuple, split_fcseq, split_element, alter, cache_alter, alter_element; one or two caches; in a Split "
            "branch of every form the cache as only / first / middle / last element, %d of these shapes with a "
            "buffer of exactly the first-run flow and 'long' (two-block) replays; %d with SetContext elements, "
            "plain and context-formatted cache names), flow kinds ints for all "
            "shapes and (int, context) / falsy pool for %d of them; all histories of <= depth[n] runs, "
            "depth by flow length n = %s, explored with merging of identical (depth, directory snapshot, "
            "model state); additionally all histories of <= %d runs for n <= %d without merging; every "
            "interruption point k of every kind in every run; suspended runs (consumer kept the generator "
            "after k >= 1 values) left alone, closed before, or resumed to their end after %s"
            % (d["N"], len(_shapes(tier)), sum(1 for sh in _shapes(tier) if sh[2] == "n"),
               sum(1 for sh in _shapes(tier) if SC in sh[1]),
               sum(1 for sh in _shapes(tier) if len(_flowkinds(*sh[:2])) > 1),
               json.dumps(d["depth"], sort_keys=True), d["plain_depth"], d["plain_N"],
               "every later complete or stopped-and-closed run" if tier == "thorough"
               else "every later complete run"))


F, G, F2 = ["f", "a"], ["f", "g"], ["f", "b"]
ACC, ACC2 = ["acc", "s"], ["acc", "t"]
CA, CB = ["cache", "A"], ["cache", "B"]
MUT = ["mut", "m"]
# a second cache whose file name continues the first one's ("A.pkl" and "A.pkl.b.pkl"): different caches
CB2 = ["cache", "A.pkl.b"]
# an element without data: it sets the static context of its sequence and takes no part in the flow;
# and a cache whose file name is formatted from that static context ("{{cn}}.pkl" -> "A.pkl")
SC = ["setctx", "cn", "A"]
CT = ["cache", "{{cn}}"]
SC2 = ["setctx", "other", "x"]


def _cache_file(elems, spec):
    """The file a cache of the pipeline writes (templates filled in from the SetContext elements)."""
    name = spec[1]
    for sp in elems:
        if sp[0] == "setctx":
            name = name.replace("{{%s}}" % sp[1], sp[2])
    return name + ".pkl"


def _nest(els, p):
    """The same elements as a Sequence nested two levels deep around the part that ends with the
    cache at position p: Sequence(Sequence(Sequence(..cache), next), rest...) - grouping means nothing."""
    inner = lena.core.Sequence(*els[:p + 1])
    mid = lena.core.Sequence(inner, *els[p + 1:p + 2])
    return lena.core.Sequence(mid, *els[p + 2:])


def _shapes(tier):
    """(placement, elems, bufsize) - simplest first."""
    thorough = tier == "thorough"
    one = [
        [CA],
        [F, CA],
        [CA, G],
        [F, CA, G],
        [["slice", 2], CA],
        [F, ACC, CA],
        [ACC, CA, G],
        [CA, ACC2],
        [F, CA, G, ACC2],
    ]
    if thorough:
        one += [
            [["slice", 1], F, CA, G],
            [F, ["slice", 3], CA],
            [F, ACC, CA, G, ACC2],
        ]
    two = [
        [CA, CB],
        [F, CA, F2, CB2],
        [F, CA, F2, CB],
        [F, CA, F2, CB, G],
        [F, CA, ACC, CB],
        [F, ACC, CA, F2, CB],
    ]
    if thorough:
        two += [
            [CA, ["slice", 2], CB, G],
            [F, CA, F2, ACC, CB, G],
        ]
    out = []
    for elems in one:
        out.append(("source", elems, None))
    for elems in one:
        out.append(("sequence", elems, None))
    for elems in two:
        out.append(("source", elems, None))
    for elems in two[:3] + (two[3:] if thorough else []):
        out.append(("sequence", elems, None))
    # an element after the cache that changes its values in place: what is stored is the flow as it
    # passed the cache ((data, context) flows only)
    out.append(("source", [CA, MUT], None))
    out.append(("sequence", [CA, MUT, G], None))
    for elems in [[F, CA], [F, CA, G], [F, ACC, CA], [F, CA, F2, CB]]:
        out.append(("nested", elems, None))
    split_one = [[CA], [F, CA], [F, CA, G], [F, ACC, CA], [F, ACC, CA, G]]
    for elems in split_one:
        out.append(("split_seq", elems, "default"))
    for elems in [[F, CA], [F, CA, G], [F, ACC, CA]]:
        out.append(("split_seq", elems, "n"))
    out.append(("split_seq", [F, CA, F2, CB], "n"))
    for elems in [[F, CA], [F, CA, G], [F, CA, G, ACC2]]:
        out.append(("split_nested", elems, "n"))
    out.append(("split_nested", [F, CA, G], "default"))
    for elems in [[CA], [F, CA], [F, ACC, CA], [F, ACC, CA, G]]:
        out.append(("split_tuple", elems, "default"))
    for elems in [[F, CA], [F, ACC, CA]]:
        out.append(("split_tuple", elems, "n"))
    # position of the cache in its branch (only / first / middle / last element) x form of the branch
    # (Sequence, nested Sequences, tuple, the bare Cache element), all with a buffer of exactly the
    # first-run flow, so that a later run can be given a source of several blocks ("long"): what is left
    # of the product after the shapes above
    for elems in [[CA], [CA, G]]:
        out.append(("split_seq", elems, "n"))
    out.append(("split_nested", [CA, G], "n"))
    for elems in [[CA], [CA, G], [F, CA, G]]:
        out.append(("split_tuple", elems, "n"))
    out.append(("split_element", [CA], "n"))
    if thorough:
        out.append(("split_nested", [CA], "n"))
        out.append(("split_element", [CA], "default"))
        out.append(("split_seq", [F, CA], "none"))
        out.append(("split_seq", [F, CA, ACC2], "default"))
        out.append(("split_tuple", [F, CA, F2, CB], "n"))
    for elems in [[CA], [F, CA], [F, CA, G], [F, ACC, CA], [F, CA, F2, CB], [F, ACC, CA, F2, CB]]:
        out.append(("alter", elems, None))
        out.append(("cache_alter", elems, None))
    out.append(("alter_element", [CA], None))
    # elements without data (SetContext) in front of, between and behind the other elements: the flow
    # and the caches are what they are without them; a cache may take its file name from them
    out.append(("source", [SC, F, CT, G], None))
    out.append(("sequence", [F, SC, CA], None))
    out.append(("split_seq", [SC, F, CA], "n"))
    out.append(("split_seq", [F, SC, CT, G], "n"))
    out.append(("split_tuple", [F, CA, SC], "n"))
    out.append(("alter", [SC, F, CT], None))
    if thorough:
        out.append(("cache_alter", [F, CA, SC, G], None))
        out.append(("nested", [SC, F, CT], None))
        out.append(("split_nested", [SC, F, CA, G], "n"))
        out.append(("split_seq", [SC, F, CT, F2, SC2, CB], "n"))
        out.append(("source", [F, SC, CT, F2, CB, SC2], None))
    # form of the branch, continued: a branch with a fill/compute element written as an explicit
    # lena.core.FillComputeSeq object (what Split makes of the tuple of the same elements); the cache
    # last and in the middle, behind the accumulator alone and behind a callable and the accumulator
    out.append(("split_fcseq", [F, ACC, CA], "n"))
    out.append(("split_fcseq", [ACC, CA, G], "n"))
    out.append(("split_fcseq", [F, ACC, CA, G], "default"))
    if thorough:
        out.append(("split_fcseq", [ACC, CA], "default"))
        out.append(("split_fcseq", [F, ACC, CA, G], "n"))
    return out


_ALL_KINDS = [("source", [CA]), ("source", [F, CA, G]), ("sequence", [F, CA]), ("source", [F, CA, F2, CB]),
              ("split_seq", [F, CA]), ("cache_alter", [F, CA, G]), ("source", [CA, ACC2])]


_SHARED_KINDS = [("source", [CA]), ("source", [F, CA, G]), ("sequence", [F, CA])]


def _flowkinds(placement, elems):
    """The value kind only matters for the pickle round trip: all kinds for a few shapes. "shared" (one
    context object updated in place by the source) only where no element keeps several values at once
    (an accumulator or a Split buffer would legitimately see the last state only)."""
    if MUT in elems:
        return ["ctx"]
    if (placement, elems) in _ALL_KINDS:
        return ["ints", "ctx", "falsy"] + (["shared"] if (placement, elems) in _SHARED_KINDS else [])
    return ["ints"]


def shards(tier):
    d = _dom(tier)
    out = []
    for mode in ("merged", "plain"):
        for n in range(d["N"] + 1):
            if mode == "plain" and n > d["plain_N"]:
                continue
            depth = d["depth"][n] if mode == "merged" else d["plain_depth"]
            for si, (placement, elems, bufsize) in enumerate(_shapes(tier)):
                for fk in _flowkinds(placement, elems):
                    if fk != "ints" and (mode == "plain" or n == 0):
                        continue
                    out.append({"mode": mode, "n": n, "shape": si, "flow": fk, "depth": depth,
                                "bound": "%s n=%d depth<=%d" % (mode, n, depth)})
    for n in range(1, d["plain_N"] + 1):
        for si, (placement, elems, bufsize) in enumerate(_shapes(tier)):
            sh = {"placement": placement, "elems": elems}
            if reusable(sh):
                out.append({"mode": "reused", "n": n, "shape": si, "flow": _flowkinds(placement, elems)[0],
                            "depth": 3,
                            "bound": "one pipeline object, n=%d depth<=3" % n})
    return out


# --------------------------------------------------------------------------------------------------
# user-level elements (not lena code), all logging into the run's event counter

class Events(object):
    def __init__(self):
        self.pulls = 0
        self.calls = {}

    def call(self, name):
        self.calls[name] = self.calls.get(name, 0) + 1


class SrcIter(object):
    def __init__(self, values, ev, raise_at, shared=False):
        self.values, self.ev, self.raise_at, self.i = values, ev, raise_at, 0
        self.shared = {} if shared else None

    def __iter__(self):
        return self

    def __next__(self):
        i = self.i
        if self.raise_at is not None and i == self.raise_at:
            self.raise_at = None
            self.ev.pulls += 1      # asking a faulty source for a value is touching it
            raise M.Boom("source fails instead of producing value %d" % i)
        if i >= len(self.values):
            raise StopIteration
        self.i += 1
        self.ev.pulls += 1
        if self.shared is not None:
            # one context object for all values, updated in place
            self.shared.clear()
            self.shared.update(copy.deepcopy(self.values[i][1]))
            return (self.values[i][0], self.shared)
        return self.values[i]


class Src(object):
    """Callable source: every call opens a fresh instrumented iterator."""

    def __init__(self, values, ev, raise_at=None, shared=False):
        self.values, self.ev, self.raise_at, self.shared = values, ev, raise_at, shared

    def __call__(self):
        return SrcIter(self.values, self.ev, self.raise_at, self.shared)


class Wrap(object):
    def __init__(self, name, ev):
        self.name, self.ev = name, ev

    def __call__(self, value):
        self.ev.call(self.name)
        return (self.name, value)


class Mutate(object):
    """Notes itself in the context of the value it is given, in place, and passes the same object on."""

    def __init__(self, name, ev):
        self.name, self.ev = name, ev

    def __call__(self, value):
        self.ev.call(self.name)
        value[1].setdefault("seen", []).append(self.name)
        return value


class Collect(object):
    """fill/compute accumulator: computes the list of everything filled, as ONE value."""

    def __init__(self, name, ev):
        self.name, self.ev, self.values = name, ev, []

    def fill(self, value):
        self.ev.call(self.name)
        self.values.append(value)

    def compute(self):
        self.ev.call(self.name)
        yield list(self.values)


class Raiser(object):
    def __init__(self, k):
        self.k, self.i = k, 0

    def __call__(self, value):
        i = self.i
        self.i += 1
        if i == self.k:
            raise M.Boom("downstream fails on value %d" % i)
        return value


# --------------------------------------------------------------------------------------------------
# one run on the real code

def _make(spec, ev, recompute, caches):
    t = spec[0]
    if t == "f":
        return Wrap(spec[1], ev)
    if t == "slice":
        return lena.flow.Slice(spec[1])
    if t == "mut":
        return Mutate(spec[1], ev)
    if t == "acc":
        return Collect(spec[1], ev)
    if t == "raise":
        return Raiser(spec[1])
    if t == "setctx":
        return lena.meta.SetContext(spec[1], spec[2])
    if t == "cache":
        c = lena.flow.Cache(spec[1] + ".pkl", recompute=(len(caches) in recompute))
        caches.append(c)
        return c
    raise ValueError(spec)


def _bufsize(shape):
    b = shape["bufsize"]
    if b == "default":
        return {}
    if b == "none":
        return {"bufsize": None}
    return {"bufsize": max(shape["n"], 1)}


class Suspended(object):
    """A run whose consumer stopped and kept the generator: it can be closed (released) or resumed."""

    def __init__(self, it, ev, out, take, r, started):
        self.it, self.ev, self.out, self.take, self.r = it, ev, out, take, r
        # the first value was received and the end was not seen: the generators of the run are alive
        self.started = started

    def close(self):
        close = getattr(self.it, "close", None)
        if close is not None:
            close()

    def resume(self):
        """Consume the rest; the observation is the WHOLE run (both parts)."""
        out = list(self.out)
        outcome = "ok"
        try:
            for v in self.it:
                out.append(self.take(v))
        except Exception as e:  # the type is the outcome (R3)
            outcome = "exc:" + type(e).__name__
        self.it = None
        return {"out": out, "outcome": outcome, "pulls": self.ev.pulls, "calls": dict(self.ev.calls)}


def _start(shape, els, tail, src, drop, counters):
    """Build the pipeline of a run from its new elements and start it. *drop* (the run's drop_cache()
    calls) is called once: when every cache stands in the sequence that gives it its static context
    (a file name formatted from the context is known from then on) and before anything is built or
    run that looks for cache files."""
    elems = shape["elems"]
    pl = shape["placement"]
    if pl == "source":
        s = lena.core.Source(src, *(els + tail))
        drop()
        return s()
    if pl == "sequence":
        s = lena.core.Sequence(*(els + tail))
        drop()
        return s.run(src())
    if pl == "nested":
        p = M.cache_positions(elems)[-1]
        s = lena.core.Source(src, lena.core.Sequence(*els[:p + 1]), *(els[p + 1:] + tail))
        drop()
        return s()
    if pl in ("split_seq", "split_nested", "split_tuple", "split_element", "split_fcseq"):
        if pl == "split_seq":
            branch = lena.core.Sequence(*els)
        elif pl == "split_fcseq":
            # the branch is given as the fill/compute sequence it is (its elements hold a fill/compute
            # element): one more way to write the same branch
            branch = lena.core.FillComputeSeq(*els)
        elif pl == "split_nested":
            branch = _nest(els, M.cache_positions(elems)[0])
        elif pl == "split_element":
            (branch,) = els         # the Cache itself is the branch
        else:
            branch = tuple(els)
        drop()
        sp = lena.core.Split([branch], **_bufsize(shape))
        return lena.core.Source(src, sp, *tail)()
    if pl in ("alter", "cache_alter", "alter_element"):
        if pl == "alter_element":
            seq = els[0]
        else:
            seq = lena.core.Sequence(*els)
        drop()
        if pl == "cache_alter":
            new = lena.flow.Cache.alter_sequence(seq)
        else:
            new = lena.core.alter_sequence(seq)
        if isinstance(new, lena.core.Source):
            if counters is not None:
                counters("hoisted_into_source")
            return lena.core.Source(new, *tail)() if tail else new()
        return lena.core.Sequence(new, *tail).run(src())
    raise ValueError(pl)


def execute(shape, run, r, keep, counters=None):
    """Run number r of a history: rebuild everything, run, observe."""
    ev = Events()
    elems = shape["elems"]
    nc = len(M.cache_positions(elems))
    n_src = 2 * shape["n"] if run["kind"] == "long" else shape["n"]
    values = M.flow_values(shape["flow"], n_src, r)
    shared = shape["flow"] == "shared"
    take = copy.deepcopy if shared else (lambda v: v)      # look at a value when it is received
    src = Src(values, ev, run["k"] if run["kind"] == "upraise" else None, shared)
    out = []
    outcome = "ok"
    it = None
    try:
        caches = []
        rs = M.recompute_set(run, nc)
        els = [_make(s, ev, rs, caches) for s in elems]
        tail = [_make(s, ev, rs, caches) for s in M.run_tail(run)]

        def drop():
            for c in sorted(M.drop_set(run, nc)):
                try:
                    caches[c].drop_cache()
                except OSError:
                    # nothing to drop (see ASSUMPTIONS)
                    if counters is not None:
                        counters("drop_cache_raised_on_missing_file")

        it = _start(shape, els, tail, src, drop, counters)
        kind = run["kind"]
        if kind == "stop":
            for _ in range(run["k"]):
                try:
                    out.append(take(next(it)))
                except StopIteration:
                    outcome = "short"
                    break
            if run.get("close", True):
                close = getattr(it, "close", None)
                if close is not None:
                    close()
            else:
                keep.append(Suspended(it, ev, out, take, r, run["k"] > 0 and outcome == "ok"))
        else:
            for v in it:
                out.append(take(v))
    except Exception as e:  # the type is the outcome (R3)
        outcome = "exc:" + type(e).__name__
    it = None
    return {"out": out, "outcome": outcome, "pulls": ev.pulls, "calls": dict(ev.calls)}


class Pipeline(object):
    """One pipeline object used for all runs of a history (a long-lived process that runs its analysis
    again). Only for shapes whose elements keep no state of their own (logging callables and caches):
    then every run must look exactly as the statement says, whether the objects are new or used."""

    def __init__(self, shape):
        self.shape = shape
        self.ev = Events()
        self.src = Src([], self.ev, None, shape["flow"] == "shared")
        caches = []
        els = [_make(s, self.ev, set(), caches) for s in shape["elems"]]
        pl = shape["placement"]
        if pl == "source":
            self.obj, self.call = lena.core.Source(self.src, *els), True
        elif pl == "sequence":
            self.obj, self.call = lena.core.Sequence(*els), False
        elif pl == "nested":
            p = M.cache_positions(shape["elems"])[-1]
            self.obj = lena.core.Source(self.src, lena.core.Sequence(*els[:p + 1]), *els[p + 1:])
            self.call = True
        elif pl == "split_seq":
            self.obj = lena.core.Source(self.src, lena.core.Split([lena.core.Sequence(*els)], **_bufsize(shape)))
            self.call = True
        elif pl == "split_nested":
            self.obj = lena.core.Source(self.src, lena.core.Split(
                [_nest(els, M.cache_positions(shape["elems"])[0])], **_bufsize(shape)))
            self.call = True
        elif pl == "split_tuple":
            self.obj = lena.core.Source(self.src, lena.core.Split([tuple(els)], **_bufsize(shape)))
            self.call = True
        elif pl == "split_element":
            self.obj = lena.core.Source(self.src, lena.core.Split(list(els), **_bufsize(shape)))
            self.call = True
        else:
            raise ValueError(pl)

    def execute(self, run, r, keep):
        shape, ev = self.shape, self.ev
        ev.pulls = 0
        ev.calls.clear()
        self.src.values = M.flow_values(shape["flow"], shape["n"], r)
        take = copy.deepcopy if shape["flow"] == "shared" else (lambda v: v)
        out, outcome = [], "ok"
        try:
            it = self.obj() if self.call else self.obj.run(self.src())
            if run["kind"] == "stop":
                for _ in range(run["k"]):
                    try:
                        out.append(take(next(it)))
                    except StopIteration:
                        outcome = "short"
                        break
                if run.get("close", True):
                    close = getattr(it, "close", None)
                    if close is not None:
                        close()
                else:
                    keep.append(it)
            else:
                for v in it:
                    out.append(take(v))
        except Exception as e:  # the type is the outcome (R3)
            outcome = "exc:" + type(e).__name__
        return {"out": out, "outcome": outcome, "pulls": ev.pulls, "calls": dict(ev.calls)}


def reusable(shape):
    return (shape["placement"] in ("source", "sequence", "nested", "split_seq", "split_nested", "split_tuple",
                                   "split_element")
            and all(sp[0] in ("f", "cache", "mut", "setctx") for sp in shape["elems"]))


def _reuse_runs(shape):
    L = _final_len(shape)
    runs = [{"kind": "complete", "op": "none", "which": "all"}]
    for k in range(L + 1):
        runs.append({"kind": "stop", "k": k, "close": True, "op": "none", "which": "all"})
    return runs


def explore_reused(res, shape, maxdepth):
    """All histories of <= maxdepth runs (complete, or stopped and closed after k results) of one
    pipeline object, each re-executed from an empty directory, every run judged by the model."""
    split = shape["placement"].startswith("split")
    runs = _reuse_runs(shape)

    def go(hist):
        _wipe()
        model = M.Model(shape["elems"], shape["flow"], shape["n"], split)
        pipe = None
        keep = []
        ok = True
        for r, run in enumerate(hist):
            if pipe is None or run.get("rebuild"):
                # built now, i.e. over whatever cache files the earlier runs left (a filled cache in a
                # Split branch is hoisted into a Source at construction)
                pipe = Pipeline(shape)
            obs = pipe.execute(run, r, keep)
            if r < len(hist) - 1:
                if model.step(run, r, obs) is not None:
                    ok = False          # judged when that prefix was the history
                    break
            else:
                res.count("runs_of_a_reused_pipeline_object")
                case_hist = [dict(h, reused_pipeline=True) for h in hist]
                ok = _judge(res, shape, model, run, r, obs, case_hist[:-1])
                if not ok:
                    # the recorded history must say how it was executed
                    for ck in res.viol:
                        v = res.viol[ck][1]
                        if v["case"].get("history") == case_hist[:-1] + [run]:
                            v["case"]["history"] = case_hist
                            v["cause"]["pipeline_object"] = "reused"
        _release(keep)
        if ok and len(hist) < maxdepth:
            for run in runs:
                go(hist + [run])
                go(hist + [dict(run, rebuild=True)])

    for run in runs:
        go([run])


def _release(keep):
    for g in keep:
        try:
            close = getattr(g, "close", None)
            if close is not None:
                close()
        except Exception:
            pass
    del keep[:]


# --------------------------------------------------------------------------------------------------
# directory state

def _snapshot():
    out = []
    for fn in sorted(os.listdir(".")):
        with open(fn, "rb") as f:
            out.append((fn, f.read()))
    return tuple(out)


def _wipe():
    for fn in os.listdir("."):
        os.remove(fn)


def _restore(snap):
    _wipe()
    for fn, data in snap:
        with open(fn, "wb") as f:
            f.write(data)


def _canon_snapshot(snap, shape):
    """Snapshot with every file that is not a cache file renamed canonically (temporary files may have
    random names)."""
    names = set(_cache_file(shape["elems"], sp) for sp in shape["elems"] if sp[0] == "cache")
    known = tuple((fn, data) for fn, data in snap if fn in names)
    other = tuple(sorted(data for fn, data in snap if fn not in names))
    return known, other


# --------------------------------------------------------------------------------------------------
# enumeration of runs and histories

def _final_len(shape):
    return len(M.apply_all(shape["elems"], M.flow_values(shape["flow"], shape["n"], 0)))


def _ops(shape, tier):
    nc = len(M.cache_positions(shape["elems"]))
    # "dropre": drop_cache() called on caches that were made with recompute=True
    ops = [("none", "all"), ("recompute", "all"), ("drop", "all"), ("dropre", "all")]
    if nc > 1:
        ops += [("recompute", nc - 1), ("drop", 0)]
        if tier == "thorough":
            ops += [("recompute", 0), ("drop", nc - 1)]
    return ops


def _runs(shape, model, tier, last):
    n = shape["n"]
    L = _final_len(shape)
    kinds = [{"kind": "complete"}]
    for k in range(L + 1):
        kinds.append({"kind": "stop", "k": k, "close": True})
    if not last:
        # closing or keeping the generator makes no difference to the run itself, only to what it
        # leaves behind: in the last run of a history only one of the two is executed
        for k in range(L + 1):
            kinds.append({"kind": "stop", "k": k, "close": False})
    for k in range(n + 1):
        kinds.append({"kind": "upraise", "k": k})
    for k in range(L):
        kinds.append({"kind": "downraise", "k": k})
    for k in range(L + 1):
        kinds.append({"kind": "downslice", "k": k})
    long_ok = (shape["placement"].startswith("split") and shape["bufsize"] == "n" and n >= 1)
    for op, which in _ops(shape, tier):
        for kd in kinds:
            if op == "dropre" and not (kd["kind"] == "complete" or (kd["kind"] == "stop" and kd.get("close"))):
                continue        # the combination is explored with complete and interrupted-and-closed runs
            run = dict(kd)
            run["op"] = op
            run["which"] = which
            yield run
        if long_ok:
            run = {"kind": "long", "op": op, "which": which}
            # a source longer than the Split buffer is inside the alphabet only when the run cannot
            # be a first run (every allowed state is served by a cache)
            if model.all_served_by_cache(run):
                yield run


def _shape_of(p, tier):
    placement, elems, bufsize = _shapes(tier)[p["shape"]]
    return {"placement": placement, "elems": elems, "bufsize": bufsize, "flow": p["flow"], "n": p["n"]}


def _judge(res, shape, model, run, r, obs, hist):
    """Advance *model* by the observed run; record the case and a violation if any. True = fine."""
    may_hold = any(v for s in model.allowed.values() for v in s)   # a non-empty stored flow
    verdict = model.step(run, r, obs)
    interrupting = (shape["n"] >= 1 and bool(model.interrupted) and model.interrupted[0][1] == r)
    res.case(nontrivial=bool(may_hold or interrupting or verdict),
             outcome=(obs["outcome"], M.canon(obs["out"]), obs["pulls"], sorted(obs["calls"].items())))
    if verdict is None:
        return True
    cause = dict(verdict["cause"])
    cause["placement"] = shape["placement"]
    case = {"shape": shape, "history": hist + [run]}
    observed = {"values": M.canon(obs["out"]), "outcome": obs["outcome"], "source_pulls": obs["pulls"],
                "element_calls": dict(sorted(obs["calls"].items()))}
    res.violation(case, observed, verdict["expected"], cause, note=verdict.get("note", ""))
    return False


def _abandons(run):
    return run["kind"] == "stop" and not run.get("close", True) and run["k"] > 0


def _variants(live, base, tier):
    """What happens to the suspended runs of the history around the next run: "" they stay as they are,
    "release" they are closed before it, "resume" they are consumed to their end after it (oldest
    first). Resumption after complete runs (with every operation); thorough tier: also after runs
    whose consumer stopped after k values and closed the generator."""
    if not live:
        return [""]
    if base["kind"] in ("complete", "long") or (tier == "thorough" and base["kind"] == "stop"
                                                and base.get("close", True)):
        return ["", "release", "resume"]
    return ["", "release"]


def _rerun(shape, h, r0, keep):
    """Execute run h of a history again, unjudged, with what it did to the suspended runs."""
    if h.get("release"):
        _release(keep)
    waiting = [g for g in keep if g.started]
    execute(shape, h, r0, keep)
    if h.get("then_resume"):
        for g in waiting:
            g.resume()
            keep.remove(g)


def _resume(res, shape, model, waiting, keep, hist):
    """Resume the suspended runs *waiting* (oldest first) and judge each as a whole run. *hist* ends
    with the run after which this happens. True = fine."""
    for g in waiting:
        obs = g.resume()
        keep.remove(g)
        res.count("suspended_runs_resumed")
        verdict = model.step_resume(g.r, obs)
        res.case(nontrivial=True, outcome=("resumed", obs["outcome"], M.canon(obs["out"]), obs["pulls"],
                                           sorted(obs["calls"].items())))
        if verdict is not None:
            cause = dict(verdict["cause"])
            cause["placement"] = shape["placement"]
            observed = {"values": M.canon(obs["out"]), "outcome": obs["outcome"],
                        "source_pulls": obs["pulls"], "element_calls": dict(sorted(obs["calls"].items()))}
            res.violation({"shape": shape, "history": hist}, observed, verdict["expected"], cause,
                          note=verdict.get("note", ""))
            return False
    return True


def _explore(res, shape, model, snap, hist, depth, maxdepth, seen, tier, live):
    """Execute and judge every run that can follow *hist* (whose runs left the directory *snap* and the
    still-alive abandoned generators described by *live*), and go deeper.

    Without live generators the directory alone is the state and is restored from the snapshot. With
    live generators (open file handles, unflushed buffers) the history is re-executed from an empty
    directory for every continuation, and every continuation is also tried after the abandoned
    generators have been released (closed, as garbage collection would do at an arbitrary moment)."""
    last = depth == maxdepth - 1
    for base in list(_runs(shape, model, tier, last)):
        for how in _variants(live, base, tier):
            release, resume = how == "release", how == "resume"
            run = dict(base)
            keep = []
            if live:
                _wipe()
                for r0, h in enumerate(hist):
                    _rerun(shape, h, r0, keep)
                    res.count("runs_reexecuted_for_live_generators")
                if resume:
                    run["then_resume"] = True
                if release:
                    run["release"] = True
                    _release(keep)
                    before = _snapshot()
                else:
                    before = snap
            else:
                _restore(snap)
                before = snap
            m = model.copy()
            if release:
                m.released()
            waiting = [g for g in keep if g.started]
            mine = []
            obs = execute(shape, run, depth, mine, res.count)
            keep.extend(mine)
            res.count("runs_%s" % run["kind"])
            if run["op"] != "none":
                res.count("runs_after_%s" % run["op"])
            if release:
                res.count("runs_after_release_of_abandoned_generators")
            elif live:
                res.count("runs_with_live_abandoned_generators")
            ok = _judge(res, shape, m, run, depth, obs, hist)
            if ok and resume:
                ok = _resume(res, shape, m, waiting, keep, hist + [run])
            if last:
                res.count("histories_of_full_depth")
            if ok and not last:
                newsnap = _snapshot()
                newlive = () if (release or resume) else live
                if _abandons(run):
                    newlive = newlive + ((depth, run["k"], run["op"], run["which"],
                                          _canon_snapshot(before, shape)),)
                merged = False
                if seen is not None:
                    key = (depth + 1, _canon_snapshot(newsnap, shape), m.key(), newlive)
                    if key in seen:
                        res.count("subtrees_merged")
                        merged = True
                    else:
                        seen.add(key)
                if not merged:
                    res.maximum("max_allowed_states", len(m.allowed))
                    _explore(res, shape, m, newsnap, hist + [run], depth + 1, maxdepth, seen, tier, newlive)
            _release(keep)
    if hist:
        res.sample({"shape": shape, "history": hist}, 3)


@contextlib.contextmanager
def _scratch(prefix):
    """mc.instrument.scratch_dir(), on tmpfs when there is one (a rename over an existing file costs
    2 ms on the disk behind /tmp and 20 us on /dev/shm); an explicit VERIF_TMPDIR wins."""
    old = os.environ.get("VERIF_TMPDIR")
    if not old and os.path.isdir("/dev/shm") and os.access("/dev/shm", os.W_OK | os.X_OK):
        os.environ["VERIF_TMPDIR"] = "/dev/shm"
    try:
        with scratch_dir(prefix=prefix) as d:
            if not old:
                os.environ.pop("VERIF_TMPDIR", None)
            yield d
    finally:
        if not old:
            os.environ.pop("VERIF_TMPDIR", None)


def run_shard(p, tier):
    res = Result()
    shape = _shape_of(p, tier)
    split = shape["placement"].startswith("split")
    model = M.Model(shape["elems"], shape["flow"], shape["n"], split)
    with _scratch("lena-verif-c18-"):
        if p["mode"] == "reused":
            explore_reused(res, shape, p["depth"])
            res.sample({"shape": shape, "history": [{"kind": "complete", "reused_pipeline": True}] * 2}, 1)
            return res
        seen = set() if p["mode"] == "merged" else None
        _explore(res, shape, model, (), [], 0, p["depth"], seen, tier, ())
    res.sample({"shape": shape, "history": []}, 1)
    return res


def replay(case):
    """Execute the history sequentially from an empty directory (no restore, no de-duplication)."""
    res = Result()
    shape = case["shape"]
    split = shape["placement"].startswith("split")
    model = M.Model(shape["elems"], shape["flow"], shape["n"], split)
    keep = []
    with _scratch("lena-verif-c18-replay-"):
        hist = []
        if any(h.get("reused_pipeline") for h in case["history"]):
            pipe = None
            for r, run in enumerate(case["history"]):
                if pipe is None or run.get("rebuild"):
                    pipe = Pipeline(shape)
                obs = pipe.execute(run, r, keep)
                if not _judge(res, shape, model, run, r, obs, hist):
                    break
                hist.append(run)
            _release(keep)
            return result_violations(res)
        for r, run in enumerate(case["history"]):
            if run.get("which", "all") != "all":
                run = dict(run)
                run["which"] = int(run["which"])
            if run.get("release"):
                _release(keep)
                model.released()
            waiting = [g for g in keep if g.started]
            obs = execute(shape, run, r, keep)
            if not _judge(res, shape, model, run, r, obs, hist):
                break
            hist.append(run)
            if run.get("then_resume") and not _resume(res, shape, model, waiting, keep, list(hist)):
                break
        _release(keep)
    return result_violations(res)


LEVEL_TEXT = ("fault enumeration: for every pipeline shape with one or two Cache elements (in a Source, "
              "a Sequence, nested, a Split branch - a Sequence, nested Sequences, a tuple or the bare Cache, the "
              "cache being its only, first, middle or last element -, or hoisted by alter_sequence; with and without "
              "SetContext elements and context-formatted cache names), every flow of 0..3 "
              "(thorough 0..4) values of three kinds and every history of up to 3 (thorough 4) runs - each "
              "run being complete, or interrupted at every point k by the consumer stopping (closing or "
              "abandoning the generator), by the source raising, by a downstream element raising or by a "
              "downstream Slice, or (a Split branch that must replay) complete over a source of two Split blocks, "
              "optionally preceded by recompute=True or drop_cache(), suspended runs "
              "being left alone, closed, or resumed to their end after a later run - the real code is "
              "executed in the directory the history left behind, with an instrumented source and logging "
              "elements, and judged by a non-deterministic reference model of what a cache may hold")
LEVEL_NOTE = ("holds for the enumerated shapes, flows and histories only; sub-histories behind an identical "
              "(depth, directory snapshot, model state) are explored once (all histories of <= 2 (thorough "
              "3) runs with n <= 2 are additionally enumerated without merging); runs interleave only as "
              "suspended generators that are resumed to their end after a later complete (thorough: or "
              "stopped-and-closed) run; "
              "process crashes (kill -9 in the middle of a write), runs in several threads or processes, "
              "cache names formatted from the context of an outer sequence or of run-time values and "
              "multi-branch Splits are outside the alphabet")
TECHNIQUE = ("exhaustive enumeration of run histories x interruption points x fates of suspended runs on the "
             "real code over a private directory, judged by a set-valued reference model of the cache states")
