"""C14 - Variables compose like functions and keep each variable's description.

Exhaustive enumeration (driver E1). A case is (list of variable specs, keyword arguments of the Compose,
form of the input value). For every case fresh lena variables are built twice, once as
Sequence(v1, ..., vn) and once as Compose(v1, ..., vn), each is applied three times to equal fresh
values, and the following laws are judged (reference model: mc/ref/c14_model.py):

  data                    data == vn.getter(...v1.getter(x)...) computed by the model (Combine: tuple)
  description             context.variable contains the name, attributes and type of the resulting
                          variable, the attributes of every composed typed variable (and of the types a
                          pre-existing context.variable already carried) under its type, and compose
                          lists those types in application order
  compose-equals-sequence Compose(...)(x) == Sequence(...) on x, data and whole context
  associativity           a chain with nested Compose items gives what the flat Sequence of its leaves gives
  context-frame           every part of the context other than context.variable is what it was
  variable-unchanged      var_context (and getter) of every variable involved is the same after applying
  repeat                  a second application to an equal value gives an equal result
  repeat-after-result-mutated   ... also after the results of the earlier applications were modified in
                          place (as later pipeline elements do to contexts)
  raised / shape          no exception; the result is a (data, context dictionary) pair

Group "containers": the same laws over every way a value can carry (or only seem to carry) a context: the
pair is a tuple or an instance of a tuple subclass, the context a dict or an instance of a dict subclass
(also below the top level), the data part is falsy, looks like a pair or like a context itself; and
values that are NOT pairs by the convention of lena.flow (a list [data, context], tuples of other
lengths, a pair whose second item is no dictionary), which are data as a whole.
Group "functions": variables made by lena.variables.abs(var, latex_name=...) stand in the chains
(numeric getters x -> a*x + b), with the additional law
  argument-unchanged      building abs(var) leaves var as it was
Group "attribute-names": the extra attributes ("arbitrary" in the statement) are named like the methods
and markers that lena.core looks up on the elements of a sequence (run, fill, compute, request, fill_into,
reset; _has_no_data, _get_context, _set_context, _repr_nested, _can_break_flow), with truthy and falsy
non-callable values; on plain variables of a chain, as keywords of a Compose and of a Combine. Same laws.
Group "history": variables with PARTIAL getters (x -> (i, x), raising on data outside their domain). Every
case is judged fresh as above and then again on objects that have a history: a prelude of one or two
earlier applications - to an equal value in another context form, to other data, and to a value outside
the domain of the k-th getter for every k (the application fails, the exception is caught, the next value
is given), as the first application ever and after a good one - with the law
  history-independence    after any prelude the Sequence / the Compose gives for x what a fresh one gives
(whether and how the failing application raises is recorded, not judged).
"""
import collections
import copy
import itertools
import json

import lena.context
import lena.core
import lena.variables

from mc.core import Result, result_violations
from mc.instrument import freeze
from mc.ref import c14_model as M

ID = "C14"
LEVEL = "exploration"
DESIGN_REF = "DESIGN.md section 5, C14"
RULE = ("every chain (ordered selection of distinct typed variables, every assignment of attribute "
        "profiles), every bracketing of a chain into nested Compose variables, every Combine tuple and "
        "every chain over a mixed alphabet of plain / composed / combined variables is built fresh and "
        "applied as Sequence and as Compose to every form of input value; group containers: a fixed list "
        "of chains / Compose / Combine items x every (container of the pair, form of the context, kind of "
        "data) of the stated lists; group functions: every chain of 1..3 (thorough 4) variables of which at "
        "least one was made by abs (of a plain variable, of a Compose, of an abs variable), and Combine "
        "tuples of such; group attribute-names: chains of 1..3 (thorough 4) variables, every assignment of "
        "{no attributes, three profiles of attributes named like element methods / markers} with at least "
        "one such profile up to length 2 (thorough 3), one such position beyond, and Compose / Combine with "
        "such keywords; group history: every chain of 1..3 (thorough 4) variables with partial getters, "
        "every bracketing, Combine items, each judged fresh and after every prelude of the stated list (a "
        "history case = (items, value form, prelude), non-trivial when an application of the prelude "
        "really raised or was given another value than the judged one); one case = one (items, Compose "
        "keywords, value form); a case is non-trivial when context.variable has to keep at least two "
        "typed descriptions apart (chain including the pre-existing variable has >= 2 types) or a "
        "Combine has >= 2 items; cases are keyed by their JSON text, so they are counted once")
ASSUMPTIONS = [
    "variables in a chain have pairwise distinct non-empty types, also distinct from the types of a "
    "pre-existing context.variable (untyped variables inside a chain lose data by documented design)",
    "getters are x -> (i, x) (non-commutative, so order is visible); the data value is the integer 7 "
    "(group containers: also None, 0, (), a pair-like tuple, a context-like dictionary)",
    "extra attributes come from four profiles: none; falsy scalars, a string and a list; a nested "
    "dict/list structure; one string (group functions: a fifth with unit, latex_name and range). Attribute names never equal a type name or name/type/compose/"
    "dim/combine",
    "input values: bare data, empty context, unrelated context, pre-existing untyped, typed, composed "
    "and empty context.variable; the pre-existing variable has the documented shape (its attributes "
    "under its type)",
    "the description law is a containment: keys of context.variable that the statement does not "
    "mention are tolerated (their absence is only counted, see counters)",
    "a chain of fewer than two types may or may not have a compose key",
    "Compose is given no type keyword; Combine keywords are name, type and range",
    "equality distinguishes list from tuple and bool from int",
    "group containers: pairs are tuple, a namedtuple, another tuple subclass; contexts are dict, "
    "lena.context.Context, OrderedDict, defaultdict, another dict subclass, OrderedDict at every level; "
    "the class of the returned context is not judged (it is compared as a plain dictionary); objects "
    "that are not pairs by the convention of lena.flow.get_data_context (list pair, 3-tuple, 1-tuple, "
    "(context, data), second item a list or None) are data; Mapping types that do not derive from dict "
    "are not in the alphabet (the convention does not speak about them)",
    "group functions: getters are x -> a*x + b with integer a, b; abs is always given a non-empty "
    "latex_name (and no name or a non-empty name): abs without latex_name and Cm are NOT in the "
    "alphabet - on the unchanged tree they raise LenaAttributeError for every argument (they call "
    "Variable.get, which does not exist; the module documents itself as not to be relied on, its tests "
    "are disabled); abs of a variable is expected to keep its type and other attributes",
    "group attribute-names: attribute VALUES are data (numbers, strings, None, lists, dictionaries), never "
    "callables - a variable with a callable attribute run is by lena's duck typing a Run element; the "
    "names are the public method names run, fill, compute, request, fill_into, reset and the private "
    "markers _has_no_data, _get_context, _set_context, _repr_nested, _can_break_flow",
    "group history: a getter may raise for data outside its domain (TypeError, KeyError, ValueError, "
    "ZeroDivisionError or IndexError, fixed per variable); the caller catches the exception and goes on "
    "with the next value. Nothing is demanded of the failing application itself (neither that it raises "
    "nor which type, nor what it leaves in the context of that value); demanded is only that later "
    "applications to values inside the domain give what a fresh object gives, and that var_context, "
    "getter and composed variables are what they were. Preludes have 1 or 2 steps",
]
NONTRIVIAL_FLOOR = {"quick": 30000, "thorough": 500000}
BUDGET_S = {"quick": 240, "thorough": 3000}

LEVEL_TEXT = ("bounded exhaustive exploration: all chains of 1..4 (thorough: 1..5) distinct typed "
              "variables in every order with every assignment of attribute profiles, all bracketings of "
              "chains into nested Compose variables, all Combine tuples of 1..4 variables with every "
              "keyword combination, and chains over a mixed alphabet of plain, composed and combined "
              "variables, each applied three times as Sequence and as Compose to eight forms of input "
              "value (with and without context, with untyped / typed / composed context.variable), a "
              "fixed list of chains over every container of a (data, context) pair (tuple and dict "
              "subclasses, look-alikes that are plain data, data that look like pairs or contexts), and "
              "chains with variables made by lena.variables.abs (latex_name given), chains / Compose / "
              "Combine whose extra attributes are named like the methods and markers lena.core looks up on "
              "sequence elements, and chains of variables with partial getters applied after every prelude "
              "of 1..2 earlier applications (other context, other data, a value on which the k-th getter "
              "raises, for every k), on "
              "the real lena.variables code and judged by an independent description model")
LEVEL_NOTE = ("holds for the enumerated alphabet only: pairwise distinct non-empty types, four attribute "
              "profiles, one data value outside the group containers (six kinds of data there); "
              "of lena.variables.functions only abs(var, latex_name=given) of plain, composed and abs "
              "variables, chains of at most 3 (thorough 4) items; abs without latex_name and Cm raise "
              "for every argument on the unchanged tree and are left out; attribute values are data, never "
              "callables; histories are preludes of at most two earlier applications, and the failing "
              "application itself is not judged")
TECHNIQUE = ("exhaustive enumeration of variable chains, bracketings and Combine tuples on the real code; "
             "reference model of getter composition and of the variable description; differential "
             "Compose vs Sequence vs flat chain; before/after snapshots of every var_context "
             "(also around the construction of abs variables); object with a history (earlier and "
             "failed applications) vs fresh object")


CONT_FORMS_QUICK = ("empty", "plain", "typed-variable", "composed-variable", "as-first")
CONT_FORMS_ALL = ("empty", "plain", "untyped-variable", "typed-variable", "composed-variable",
                  "empty-variable", "as-first")


AN_FORMS_QUICK = ("bare", "plain", "typed-variable", "as-first")
HIST_FORMS_QUICK = ("bare", "plain", "typed-variable")
PRELUDE_FORMS = ("bare", "composed-variable")


def _dom(tier):
    if tier == "thorough":
        return dict(pool=5, chain=5, profiles=(0, 1, 2, 3), profiles_at={5: 3}, nest=5, combine=4, comb_pool=5,
                    cn_len=4, mixed=4, kw_chain=4,
                    parts={1: 1, 2: 1, 3: 2, 4: 24, 5: 40}, nest_parts={2: 1, 3: 1, 4: 4, 5: 24},
                    comb_parts=24, cn_parts=4, mixed_parts=8,
                    cont_chain=4, cont_nest=3, cont_combine=3, cont_forms=CONT_FORMS_ALL, cont_parts=16,
                    fn_chain=4, fn_parts=16,
                    an_chain=4, an_full=3, an_forms=M.VALUE_FORMS, an_parts=8,
                    hist_chain=4, hist_nest=4, hist_forms=M.VALUE_FORMS, hist_parts=32)
    return dict(pool=4, chain=4, profiles=(0, 1, 2), profiles_at={}, nest=4, combine=4, comb_pool=4,
                cn_len=3, mixed=3, kw_chain=3,
                parts={1: 1, 2: 1, 3: 2, 4: 8}, nest_parts={2: 1, 3: 1, 4: 4},
                comb_parts=3, cn_parts=4, mixed_parts=2,
                cont_chain=3, cont_nest=2, cont_combine=2, cont_forms=CONT_FORMS_QUICK, cont_parts=4,
                fn_chain=3, fn_parts=4,
                an_chain=3, an_full=2, an_forms=AN_FORMS_QUICK, an_parts=2,
                hist_chain=3, hist_nest=3, hist_forms=HIST_FORMS_QUICK, hist_parts=4)


def describe(tier):
    d = _dom(tier)
    return ("pool of %d typed variables; chains of 1..%d distinct variables in every order x every "
            "assignment of %d attribute profiles (3 for chains of 5); all bracketings (any depth) of chains of 2..%d; Compose "
            "keywords (name / falsy name / new and overriding attributes) on chains of 1..%d; Combine of "
            "1..%d distinct variables x 12 keyword combinations (thorough: also every profile assignment "
            "with all three keywords); Combine of 1..%d items from {plain, repeated, Compose, Combine, typed Combine}; chains "
            "of 2..%d items over an alphabet with Compose and typed Combine items; 8 value forms; every "
            "case applied 3 times on each of the Sequence and the Compose side; containers: chains of "
            "1..%d in every order, Compose of chains of 2..%d, Combine of 1..%d (2 keyword sets), 6 "
            "composite items x (%d pair containers x %d context forms + %d look-alikes that are data x 2 "
            "forms + %d kinds of data x 4 (form, container)); functions: abs(v, 3 keyword sets) and "
            "abs(abs(v)) of every variable x 5 profiles alone, every chain of 2 distinct types with 4 "
            "variants per position (plain, abs, abs with name, abs(abs)) and at least one function, chains "
            "of 3..%d with one variant per position and mask, abs of a Compose of two alone and next to a "
            "third variable, Combine of two with function variables; attribute-names: chains of 1..%d in "
            "every order, every assignment of {none, names-truthy, names-falsy, private markers} with at "
            "least one of the three up to length %d and one such position beyond, Compose and Combine of two "
            "with such keywords alone and next to a third variable, %d value forms; history: chains of "
            "1..%d partial variables in every order, all bracketings of 2..%d, 4 items with a Combine per "
            "ordered pair, %d value forms, each fresh and after every prelude: equal data in each of 2 "
            "context forms (bare, composed variable), other data, and for every getter k x these 2 forms a "
            "value on which getter k raises, as the first application and after a good one"
            % (d["pool"], d["chain"], len(d["profiles"]), d["nest"], d["kw_chain"], d["combine"],
               d["cn_len"], d["mixed"], d["cont_chain"], d["cont_nest"], d["cont_combine"],
               len(PAIR_CONTAINERS), len(d["cont_forms"]), len(BARE_CONTAINERS), len(M.DATA_KINDS) - 1,
               d["fn_chain"], d["an_chain"], d["an_full"], len(d["an_forms"]), d["hist_chain"],
               d["hist_nest"], len(d["hist_forms"])))


# -- enumeration -----------------------------------------------------------------------------------

COMPOSE_KWS = [{"name": "cname"}, {"name": ""}, {"name": "c2", "latex_name": "L"},
               {"unit": "override", "extra": {"deep": [0]}}]

COMBINE_KWS = []
for _name in (None, "cname", ""):
    for _type in (None, "tc"):
        for _range in (None, [[0, 1], [2, 3]]):
            _kw = {}
            if _name is not None:
                _kw["name"] = _name
            if _type is not None:
                _kw["type"] = _type
            if _range is not None:
                _kw["range"] = _range
            COMBINE_KWS.append(_kw)
COMBINE_KWS_PRODUCT = [{"name": "cname", "type": "tc", "range": [[0, 1], [2, 3]]}]


PRE_CLASS = {"bare": "none", "empty": "none", "plain": "none", "untyped-variable": "untyped",
             "empty-variable": "untyped", "typed-variable": "typed", "composed-variable": "typed",
             "as-first": "context-of-the-first-variable"}


def _cyclic(i, profiles):
    return profiles[i % len(profiles)]


def shards(tier):
    d = _dom(tier)
    out = []
    for n in range(1, d["chain"] + 1):
        for j in range(d["parts"][n]):
            out.append({"kind": "chain", "n": n, "part": j, "of": d["parts"][n],
                        "bound": "length<=%d" % max(n, 2)})
    for n in range(2, d["nest"] + 1):
        for j in range(d["nest_parts"][n]):
            out.append({"kind": "nested", "n": n, "part": j, "of": d["nest_parts"][n],
                        "bound": "length<=%d" % n})
    out.append({"kind": "single-wrap", "bound": "length<=3"})
    out.append({"kind": "shared", "group": "shared-variable", "bound": "length<=2"})
    out.append({"kind": "compose-kw", "bound": "length<=%d" % d["kw_chain"]})
    for j in range(d["comb_parts"]):
        out.append({"kind": "combine", "part": j, "of": d["comb_parts"], "bound": "length<=4"})
    for j in range(d["cn_parts"]):
        out.append({"kind": "combine-nested", "part": j, "of": d["cn_parts"], "bound": "length<=4"})
    for j in range(d["mixed_parts"]):
        out.append({"kind": "mixed", "part": j, "of": d["mixed_parts"], "bound": "length<=4"})
    for j in range(d["cont_parts"]):
        out.append({"kind": "containers", "part": j, "of": d["cont_parts"],
                    "bound": "length<=%d" % d["cont_chain"]})
    for j in range(d["fn_parts"]):
        out.append({"kind": "functions", "part": j, "of": d["fn_parts"],
                    "bound": "length<=%d" % d["fn_chain"]})
    for j in range(d["an_parts"]):
        out.append({"kind": "attribute-names", "part": j, "of": d["an_parts"],
                    "bound": "length<=%d" % d["an_chain"]})
    for j in range(d["hist_parts"]):
        out.append({"kind": "history", "part": j, "of": d["hist_parts"],
                    "bound": "length<=%d" % d["hist_chain"]})
    order = []
    for s in out:
        if s["bound"] not in order:
            order.append(s["bound"])
    order.sort(key=lambda b: int(b.split("<=")[1]))
    out.sort(key=lambda s: order.index(s["bound"]))     # stable: simplest bound first
    return out


def _mixed_alphabet(profiles):
    def v(i):
        return ["V", i, _cyclic(i, profiles)]
    return [
        v(0), v(1), v(2), v(3),
        ["Compose", [v(0), v(1)], {}],
        ["Compose", [v(2), v(3)], {}],
        ["Combine", [v(0), v(1)], {"type": "tc"}],
        ["Combine", [["Compose", [v(0), v(1)], {}], v(2)], {"type": "tc2", "name": "k2"}],
        ["Compose", [v(2), ["Combine", [v(0), v(1)], {"type": "tc"}]], {}],
        ["Compose", [["Combine", [v(3), v(3)], {"type": "tc3", "range": [0, 1]}], v(1)], {}],
    ]


def _cn_alphabet(profiles):
    def v(i):
        return ["V", i, _cyclic(i, profiles)]
    return [
        v(0), v(1),
        ["Compose", [v(0), v(1)], {}],
        ["Combine", [v(0), v(1)], {}],
        ["Combine", [v(1), v(2)], {"type": "tc", "name": ""}],
        ["Compose", [v(2), v(0)], {"latex_name": ""}],
    ]


def cases_of(p, tier):
    """Generator of the cases of one shard (deterministic)."""
    d = _dom(tier)
    profiles = d["profiles"]
    forms = M.VALUE_FORMS
    kind = p["kind"]
    if kind == "chain":
        n, idx = p["n"], 0
        for perm in itertools.permutations(range(d["pool"]), n):
            for prof in itertools.product(profiles[:d["profiles_at"].get(n, len(profiles))], repeat=n):
                idx += 1
                if (idx - 1) % p["of"] != p["part"]:
                    continue
                items = [["V", i, q] for i, q in zip(perm, prof)]
                for form in forms:
                    yield {"group": "chain", "items": items, "compose_kw": None, "value": form}
    elif kind == "nested":
        n, idx = p["n"], 0
        for perm in itertools.permutations(range(d["pool"]), n):
            leaf = [["V", i, _cyclic(i + k, profiles)] for k, i in enumerate(perm)]
            for items in M.bracketings(leaf):
                idx += 1
                if (idx - 1) % p["of"] != p["part"]:
                    continue
                for form in forms:
                    yield {"group": "nested", "items": items, "compose_kw": None, "value": form}
    elif kind == "single-wrap":
        for n in (1, 2, 3):
            for perm in itertools.permutations(range(d["pool"]), n):
                leaf = [["V", i, _cyclic(i, profiles)] for i in perm]
                for mask in range(1, 1 << n):
                    items = [["Compose", [l], {}] if mask >> k & 1 else l for k, l in enumerate(leaf)]
                    for form in forms:
                        yield {"group": "nested", "items": items, "compose_kw": None, "value": form}
    elif kind == "compose-kw":
        for n in range(1, d["kw_chain"] + 1):
            for perm in itertools.permutations(range(d["pool"]), n):
                items = [["V", i, _cyclic(i + 1, profiles)] for i in perm]
                for kw in COMPOSE_KWS:
                    for form in forms:
                        yield {"group": "compose-kw", "items": items, "compose_kw": kw, "value": form}
    elif kind == "combine":
        idx = 0
        for k in range(1, d["combine"] + 1):
            for perm in itertools.permutations(range(d["comb_pool"]), k):
                cyc = tuple(_cyclic(i, profiles) for i in perm)
                for prof in itertools.product(profiles, repeat=k):
                    kws = COMBINE_KWS if prof == cyc else (COMBINE_KWS_PRODUCT if tier == "thorough" else [])
                    for kw in kws:
                        idx += 1
                        if (idx - 1) % p["of"] != p["part"]:
                            continue
                        spec = ["Combine", [["V", i, q] for i, q in zip(perm, prof)], kw]
                        for form in forms:
                            yield {"group": "combine", "items": [spec], "compose_kw": None, "value": form}
    elif kind == "combine-nested":
        alpha = _cn_alphabet(profiles)
        idx = 0
        for k in range(1, d["cn_len"] + 1):
            for sel in itertools.product(range(len(alpha)), repeat=k):
                if all(a < 2 for a in sel) and len(set(sel)) == len(sel):
                    continue        # distinct plain variables only: that is the "combine" group
                for kw in ({}, {"name": "cn", "type": "tn"}):
                    idx += 1
                    if (idx - 1) % p["of"] != p["part"]:
                        continue
                    spec = ["Combine", [copy.deepcopy(alpha[a]) for a in sel], kw]
                    for form in forms:
                        yield {"group": "combine-nested", "items": [spec], "compose_kw": None,
                               "value": form}
    elif kind == "mixed":
        alpha = _mixed_alphabet(profiles)
        types = [set(M.chain_types(s)) for s in alpha]
        idx = 0
        for k in range(2, d["mixed"] + 1):
            for sel in itertools.permutations(range(len(alpha)), k):
                if not any(M.has_kind(alpha[a], "Combine") for a in sel):
                    continue        # Compose-only chains are the "nested" group
                seen, ok = set(), True
                for a in sel:
                    if seen & types[a]:
                        ok = False
                        break
                    seen |= types[a]
                if not ok:
                    continue
                idx += 1
                if (idx - 1) % p["of"] != p["part"]:
                    continue
                items = [copy.deepcopy(alpha[a]) for a in sel]
                for form in forms:
                    yield {"group": "mixed", "items": items, "compose_kw": None, "value": form}
    elif kind == "containers":
        vspecs = container_values(d["cont_forms"])
        for idx, items in enumerate(_container_items(d, profiles)):
            if idx % p["of"] != p["part"]:
                continue
            for vs in vspecs:
                yield {"group": "containers", "items": items, "compose_kw": None, "value": vs}
    elif kind == "functions":
        for idx, items in enumerate(_function_items(d)):
            if idx % p["of"] != p["part"]:
                continue
            for form in forms:
                yield {"group": "functions", "items": items, "compose_kw": None, "value": form}
    elif kind == "attribute-names":
        for idx, items in enumerate(_attrname_items(d)):
            if idx % p["of"] != p["part"]:
                continue
            for form in d["an_forms"]:
                yield {"group": "attribute-names", "items": items, "compose_kw": None, "value": form}
    elif kind == "history":
        for idx, items in enumerate(_history_items(d)):
            if idx % p["of"] != p["part"]:
                continue
            for form in d["hist_forms"]:
                yield {"group": "history", "items": items, "compose_kw": None, "value": form}
    else:
        raise ValueError(kind)


def _attrname_items(d):
    """Item lists of the group attribute-names: attributes named like element methods and markers."""
    names = M.NAME_PROFILES
    base = (0,) + tuple(names)
    plain = d["profiles"]
    pool = range(d["pool"])
    out = []
    for n in range(1, d["an_chain"] + 1):
        for perm in itertools.permutations(pool, n):
            if n <= d["an_full"]:
                for prof in itertools.product(base, repeat=n):
                    if any(q in names for q in prof):
                        out.append([["V", i, q] for i, q in zip(perm, prof)])
            else:
                for k in range(n):
                    for q in names:
                        out.append([["V", i, q if j == k else _cyclic(i, plain)]
                                    for j, i in enumerate(perm)])

    def v(i, q=None):
        return ["V", i, _cyclic(i, plain) if q is None else q]
    for i, j in itertools.permutations(pool, 2):        # the attributes as keywords of Compose / Combine
        k = [m for m in pool if m not in (i, j)][0]
        for q in names:
            kw = M.PROFILES[q]
            comp = ["Compose", [v(i), v(j)], copy.deepcopy(kw)]
            out.append([copy.deepcopy(comp)])
            out.append([v(k), copy.deepcopy(comp)])
            out.append([copy.deepcopy(comp), v(k)])
            out.append([["Combine", [v(i), v(j)], copy.deepcopy(kw)]])
            out.append([["Combine", [v(i, q), v(j)], dict(copy.deepcopy(kw), type="tc", name="cn")]])
            out.append([v(k), ["Combine", [v(i), v(j)], dict(copy.deepcopy(kw), type="tc")]])
    return out


def _history_items(d):
    """Item lists of the group history: variables with partial getters."""
    plain = d["profiles"]
    pool = range(d["pool"])

    def p(i, shift=0):
        return ["P", i, _cyclic(i + shift, plain)]
    out = []
    for n in range(1, d["hist_chain"] + 1):
        for perm in itertools.permutations(pool, n):
            out.append([p(i, n) for i in perm])
    for n in range(2, d["hist_nest"] + 1):
        for perm in itertools.permutations(pool, n):
            out.extend(M.bracketings([p(i) for i in perm]))
    for i, j in itertools.permutations(pool, 2):
        k = [m for m in pool if m not in (i, j)][0]
        out.append([["Combine", [p(i), p(j)], {}]])
        out.append([p(k), ["Combine", [p(i), p(j)], {"type": "tc"}]])
        out.append([["Combine", [p(i), p(j)], {"type": "tc", "name": "cn"}], p(k)])
        out.append([["Compose", [p(k), ["Combine", [p(i), p(j)], {"type": "tc"}]], {}]])
    return out


def preludes(items):
    """The histories of the group history: lists of 1..2 value descriptions applied before the judged
    value. For every partial getter of the items there are values outside its domain."""
    def ok(form):
        return {"form": form, "data": "int"}
    out = [[ok(f)] for f in PRELUDE_FORMS]
    out.append([{"form": "plain", "data": "other-int"}])
    seen = []
    for leaf in [l for s in items for l in M.all_leaves(s)]:
        if leaf[0] != "P" or leaf[1] in seen:
            continue
        seen.append(leaf[1])
        for a, form in enumerate(PRELUDE_FORMS):
            bad = {"form": form, "data": M.outside_domain(leaf[1])}
            out.append([bad])
            out.append([ok(PRELUDE_FORMS[a - 1]), dict(bad)])
    return out


def _container_items(d, profiles):
    """The item lists of the group containers (a fixed, small selection of every kind of item)."""
    out = []
    for n in range(1, d["cont_chain"] + 1):
        for perm in itertools.permutations(range(d["pool"]), n):
            out.append([["V", i, _cyclic(i + n, profiles)] for i in perm])
    for n in range(2, d["cont_nest"] + 1):
        for perm in itertools.permutations(range(d["pool"]), n):
            leaf = [["V", i, _cyclic(i, profiles)] for i in perm]
            out.append([["Compose", leaf, {}]])
            if n > 2:
                out.append([leaf[0], ["Compose", leaf[1:], {}]])
    for k in range(1, d["cont_combine"] + 1):
        for perm in itertools.permutations(range(d["comb_pool"]), k):
            for kw in ({}, {"name": "cn", "type": "tc"}):
                out.append([["Combine", [["V", i, _cyclic(i, profiles)] for i in perm], dict(kw)]])
    for spec in _mixed_alphabet(profiles)[4:]:
        out.append([copy.deepcopy(spec)])
    return out


def container_values(forms):
    """The value descriptions of the group containers: {"form", "container", "data"}."""
    out = []
    for cont in PAIR_CONTAINERS:
        for form in forms:
            out.append({"form": form, "container": cont, "data": "int"})
    for cont in BARE_CONTAINERS:
        for form in ("empty", "typed-variable"):
            out.append({"form": form, "container": cont, "data": "int"})
    for dk in M.DATA_KINDS:
        if dk == "int":
            continue
        for form, cont in (("bare", "plain"), ("plain", "plain"), ("typed-variable", "Context"),
                           ("composed-variable", "namedtuple")):
            out.append({"form": form, "container": cont, "data": dk})
    return out


FN_ABS_KWS = ({"latex_name": "L"}, {"name": "an", "latex_name": "L"}, {"name": "abs", "latex_name": "|v|"})


def _fn_variants(i, k):
    """Plain variable number i and three variables made from it by abs (k varies the choices)."""
    n_prof = M.FUNCTION_PROFILES
    pc, p2 = (i + k) % n_prof, (i + 2 * k + 1) % n_prof
    kwa, kwb = FN_ABS_KWS[0], FN_ABS_KWS[1 + (i + k) % 2]
    return [["N", i, pc],
            ["Abs", ["N", i, pc], dict(kwa)],
            ["Abs", ["N", i, p2], dict(kwb)],
            ["Abs", ["Abs", ["N", i, pc], dict(kwb)], dict(kwa)]]


def _function_items(d):
    out = []
    pool = range(d["pool"])
    n_prof = M.FUNCTION_PROFILES
    for i in pool:                          # one function variable alone: everything
        for q in range(n_prof):
            for kw in FN_ABS_KWS:
                out.append([["Abs", ["N", i, q], dict(kw)]])
            out.append([["Abs", ["Abs", ["N", i, q], dict(FN_ABS_KWS[1])], dict(FN_ABS_KWS[0])]])
    for perm in itertools.permutations(pool, 2):        # chains of 2: every pair of variants
        va, vb = _fn_variants(perm[0], 0), _fn_variants(perm[1], 1)
        for a in range(len(va)):
            for b in range(len(vb)):
                if a or b:
                    out.append([copy.deepcopy(va[a]), copy.deepcopy(vb[b])])
    for n in range(3, d["fn_chain"] + 1):               # longer chains: one variant per position and mask
        for perm in itertools.permutations(pool, n):
            for mask in range(1, 1 << n):
                items = []
                for k, i in enumerate(perm):
                    v = _fn_variants(i, k)
                    items.append(copy.deepcopy(v[1 + (i + k + mask) % 3] if mask >> k & 1 else v[0]))
                out.append(items)
    for i, j in itertools.permutations(pool, 2):        # abs of a composed variable
        inner = ["Compose", [["N", i, (i + j) % n_prof], ["N", j, (i + 2 * j) % n_prof]], {}]
        f = ["Abs", inner, dict(FN_ABS_KWS[(i + j) % 3])]
        out.append([copy.deepcopy(f)])
        for k in pool:
            if k not in (i, j):
                out.append([["N", k, k % n_prof], copy.deepcopy(f)])
                out.append([copy.deepcopy(f), ["N", k, k % n_prof]])
    for i, j in itertools.permutations(pool, 2):        # tuples with function variables
        va, vb = _fn_variants(i, 2), _fn_variants(j, 0)
        for a, b, kw in ((1, 2, {}), (3, 0, {"type": "tc", "name": "cn"}), (0, 1, {"range": [0, 1]})):
            out.append([["Combine", [copy.deepcopy(va[a]), copy.deepcopy(vb[b])], dict(kw)]])
    return out


# -- containers of a value ------------------------------------------------------------------------

class _DictSub(dict):
    pass


class _Pair(tuple):
    pass


_Event = collections.namedtuple("_Event", ["data", "context"])


def _odict_deep(x):
    if isinstance(x, dict):
        return collections.OrderedDict((k, _odict_deep(v)) for k, v in x.items())
    if isinstance(x, list):
        return [_odict_deep(v) for v in x]
    return x


# (data, context) pairs by the convention of lena.flow.get_data_context
PAIR_CONTAINERS = {
    "Context": lambda d, c: (d, lena.context.Context(c)),
    "OrderedDict": lambda d, c: (d, collections.OrderedDict(c)),
    "defaultdict": lambda d, c: (d, collections.defaultdict(dict, c)),
    "dict-subclass": lambda d, c: (d, _DictSub(c)),
    "OrderedDict-at-every-level": lambda d, c: (d, _odict_deep(c)),
    "namedtuple": lambda d, c: _Event(d, c),
    "tuple-subclass": lambda d, c: _Pair((d, c)),
    "namedtuple+Context": lambda d, c: _Event(d, lena.context.Context(c)),
}
# not pairs by that convention: data as a whole
BARE_CONTAINERS = {
    "list-pair": lambda d, c: [d, c],
    "3-tuple": lambda d, c: (d, c, 0),
    "1-tuple": lambda d, c: ((d, c),),
    "context-first": lambda d, c: (c, d),
    "second-is-list": lambda d, c: (d, [c]),
    "second-is-None": lambda d, c: (d, None),
}
CONTAINER_CLASS = {"plain": "plain", "Context": "dict-subclass", "OrderedDict": "dict-subclass",
                   "defaultdict": "dict-subclass", "dict-subclass": "dict-subclass",
                   "OrderedDict-at-every-level": "dict-subclass", "namedtuple": "tuple-subclass",
                   "tuple-subclass": "tuple-subclass", "namedtuple+Context": "tuple-and-dict-subclass"}


def contain(data, context, container):
    if container == "plain":
        return (data, context)
    if container in PAIR_CONTAINERS:
        return PAIR_CONTAINERS[container](data, context)
    return BARE_CONTAINERS[container](data, context)


# -- real objects ----------------------------------------------------------------------------------

def build(spec, nodes, path):
    """The real lena variable for a spec; every variable object created is appended to nodes."""
    kind = spec[0]
    if kind == "V":
        name, typ, attrs = M.leaf_fields(spec)
        i = spec[1]
        var = lena.variables.Variable(name, getter=lambda x, i=i: (i, x), type=typ, **attrs)
    elif kind == "P":
        name, typ, attrs = M.leaf_fields(spec)
        var = lena.variables.Variable(name, getter=_partial_getter(spec[1]), type=typ, **attrs)
    elif kind == "N":
        name, typ, attrs = M.leaf_fields(spec)
        a, b = M.AFFINE[spec[1]]
        var = lena.variables.Variable(name, getter=lambda x, a=a, b=b: a * x + b, type=typ, **attrs)
    elif kind == "Abs":
        arg = build(spec[1], nodes, path + [0])
        mark = len(nodes)
        before = snapshot(nodes)
        var = lena.variables.abs(arg, **copy.deepcopy(spec[2]))
        after = snapshot(nodes[:mark])
        if before != after and hasattr(nodes, "build_changes"):
            nodes.build_changes.append((kind, changed_kinds(before, after)))
    else:
        subs = [build(s, nodes, path + [k]) for k, s in enumerate(spec[1])]
        kw = copy.deepcopy(spec[2]) if len(spec) > 2 and spec[2] else {}
        cls = lena.variables.Compose if kind == "Compose" else lena.variables.Combine
        var = cls(*subs, **kw)
    nodes.append((kind, path, var))
    return var


GETTER_ERRORS = (TypeError, KeyError, ValueError, ZeroDivisionError, IndexError)


def _partial_getter(i):
    """x -> (i, x), not defined (raises) on the data outside_domain(i), however deep earlier getters of
    the chain have wrapped them."""
    bad, exc, innermost = M.outside_domain(i), GETTER_ERRORS[i % len(GETTER_ERRORS)], M.innermost

    def getter(x):
        if innermost(x) == bad:
            raise exc("value outside the domain of the getter of variable %d" % i)
        return (i, x)
    return getter


class Nodes(list):
    """The variables built for one side, and what the construction of a function variable changed."""

    def __init__(self):
        list.__init__(self)
        self.build_changes = []


def canon(x):
    """Canonical immutable form (tells list from tuple and bool from int); keys are strings."""
    t = type(x)
    if t is dict:
        try:
            return ("d", tuple(sorted([(k, canon(v)) for k, v in x.items()])))
        except TypeError:
            return freeze(x)
    if t is list:
        return ("l", tuple([canon(v) for v in x]))
    if t is tuple:
        return ("t", tuple([canon(v) for v in x]))
    if x is None or t in (bool, int, str, float):
        return (t.__name__, x)
    return freeze(x)


def snapshot(nodes):
    out = []
    for kind, path, var in nodes:
        d = vars(var)
        out.append((kind, canon(d.get("var_context")), id(d.get("getter")),
                    tuple([id(v) for v in d.get("_vars", ())])))
    return out


def changed_kinds(a, b):
    return sorted(set(x[0] for x, y in zip(a, b) if x != y))


def scribble(x, _depth=0):
    """Modify every dict and list reachable from x in place."""
    if _depth > 30:
        return
    if isinstance(x, dict):
        for v in list(x.values()):
            scribble(v, _depth + 1)
        x["__scribble__"] = 1
    elif isinstance(x, list):
        for v in list(x):
            scribble(v, _depth + 1)
        x.append("__scribble__")
    elif isinstance(x, tuple):
        for v in x:
            scribble(v, _depth + 1)


class Side(object):
    """One way of applying the items of a case: 'sequence', 'compose' or 'flat' (Sequence of leaves)."""

    def __init__(self, side, items, kw):
        self.side = side
        self.nodes = Nodes()
        objs = [build(s, self.nodes, [k]) for k, s in enumerate(items)]
        if side == "compose":
            self.top = lena.variables.Compose(*objs, **copy.deepcopy(kw or {}))
            self.nodes.append(("top-Compose", [], self.top))
        else:
            self.top = lena.core.Sequence(*objs)

    def apply(self, value):
        if self.side == "compose":
            return self.top(value)
        out = list(self.top.run(iter([value])))
        if len(out) != 1:
            raise _Shape("Sequence yielded %d values for one input" % len(out))
        return out[0]


def _norm(r):
    """The result with its context as a plain dictionary (the class of the context is not judged)."""
    if _wellformed(r) and (type(r) is not tuple or type(r[1]) is not dict):
        return (r[0], dict(r[1]))
    return r


class _Shape(Exception):
    pass


def _wellformed(r):
    return (isinstance(r, tuple) and len(r) == 2 and isinstance(r[1], dict)
            and isinstance(r[1].get("variable"), dict))


def _differs_in(a, b, types):
    """Where two (data, context) results differ (role of the first differing part)."""
    if not M.same(a[0], b[0]):
        return "data"
    ca, cb = a[1], b[1]
    fa = {k: v for k, v in ca.items() if k != "variable"}
    fb = {k: v for k, v in cb.items() if k != "variable"}
    if not M.same(fa, fb):
        return "context-frame"
    va, vb = ca.get("variable"), cb.get("variable")
    if not (isinstance(va, dict) and isinstance(vb, dict)):
        return "variable"
    for k in sorted(set(va) | set(vb), key=repr):
        if k not in va or k not in vb or not M.same(va[k], vb[k]):
            if k == "__scribble__":
                return "leaked-modification"
            return M.role(k, types)
    return "nothing"


def _short(r):
    try:
        json.dumps(r)
        return r
    except (TypeError, ValueError):
        return repr(r)


def _vspec(vs):
    """(form, container, kind of data) of the value description of a case."""
    if isinstance(vs, dict):
        return vs["form"], vs.get("container", "plain"), vs.get("data", "int")
    return vs, "plain", "int"


def _value(vs, items):
    """A fresh input value; for "as-first" one whose context.variable is what the first variable of the
    chain writes (as if it had been applied upstream already)."""
    form, container, dk = _vspec(vs)
    data = M.data_value(dk)
    if form == "bare":
        return data
    if form != "as-first":
        context = M.value(form)[1]
    else:
        first = build(items[0], [], [])
        context = {"a": {"b": [1, 2]}, "z": 0, "variable": copy.deepcopy(first.var_context)}
    return contain(data, context, container)


def judge(res, case):
    if case.get("group") == "history":
        return judge_history(res, case)
    return _judge(res, case) is not None


def _judge(res, case):
    """Judge one case on fresh objects; returns {side: first result} (None: nothing could be built)."""
    items, kw, vs = case["items"], case.get("compose_kw"), case["value"]
    form, container, dk = _vspec(vs)
    group = case.get("group", "replay")
    descs = [M.describe(s) for s in items]
    fkinds = M.function_kinds(items)
    if fkinds:
        # the variables of lena.variables.functions must exist before anything can be asked of them
        for s in items:
            try:
                build(s, Nodes(), [])
            except Exception as e:
                res.violation(case, "raised %s: %s" % (type(e).__name__, str(e)[:200]), "a variable",
                              {"group": group, "law": "raised", "stage": "build", "exc": type(e).__name__,
                               "item": M.skeleton(s)})
                res.case(nontrivial=False, outcome=("build", type(e).__name__, M.skeleton(s)),
                         key=json.dumps(case, sort_keys=True))
                res.count("cases_" + group)
                return None
    x0, c0 = M.split_value(_value(vs, items))
    pre = c0.get("variable")
    frame0 = {k: v for k, v in c0.items() if k != "variable"}
    exp_data = M.expected_data(items, x0)
    req_plain, types = M.required_result(pre, descs)
    req_kw = M.required_result(pre, [M.describe(["Compose", items, kw])])[0] if kw else req_plain
    n_types = len(types)
    n_combine = max([len(s[1]) for s in items if s[0] == "Combine"] or [0])
    nontrivial = n_types >= 2 or n_combine >= 2
    base = {"group": group, "pre": PRE_CLASS[form]}
    if container != "plain" or dk != "int":
        base["value"] = ("not-a-pair" if container in BARE_CONTAINERS else CONTAINER_CLASS[container]) \
            + ("" if dk == "int" else "/data:" + dk)
    if fkinds:
        base["functions"] = "+".join(fkinds)

    sides = ["sequence", "compose"]
    flat_items = None
    if group in ("nested", "replay") and not kw and all(not M.has_kind(s, "Combine") for s in items) \
            and any(s[0] != "V" for s in items):
        flat_items = [l for s in items for l in M.leaves(s)]
        sides.append("flat")
    first = {}
    for side in sides:
        cause = dict(base, side=side)
        its = flat_items if side == "flat" else items
        stage = "build"
        try:
            s = Side(side, its, kw if side == "compose" else None)
            before = snapshot(s.nodes)
            stage = "apply"
            raw1 = s.apply(_value(vs, items))
            r1 = _norm(raw1)
            if not _wellformed(r1):
                res.violation(case, _short(r1), "(data, {'variable': {...}, ...})",
                              dict(cause, law="shape"))
                continue
            keep1 = copy.deepcopy(r1)
            after1 = snapshot(s.nodes)
            stage = "apply-again"
            raw2 = s.apply(_value(vs, items))
            r2 = _norm(raw2)
            after2 = snapshot(s.nodes)
            repeat_ok = _wellformed(r2) and M.same(r1, r2)
            keep2 = None if repeat_ok else copy.deepcopy(r2)
            scribble(raw1)
            scribble(raw2)
            stage = "apply-after-result-mutated"
            r3 = _norm(s.apply(_value(vs, items)))
            after3 = snapshot(s.nodes)
        except Exception as e:      # the statement promises a result for every input of the domain
            res.violation(case, "raised %s: %s" % (type(e).__name__, str(e)[:200]), "a result",
                          dict(cause, law="raised", exc=type(e).__name__, stage=stage))
            continue
        first[side] = keep1
        data, ctx = keep1
        for fkind, changed in s.nodes.build_changes:
            res.violation(case, "changed: %s" % changed, "the argument variable is left as it was",
                          {"group": group, "law": "argument-unchanged", "function": fkind,
                           "nodes": changed})
        # data
        if not M.same(data, exp_data):
            res.violation(case, _short(data), _short(exp_data), dict(cause, law="data"))
        # frame
        frame = {k: v for k, v in ctx.items() if k != "variable"}
        if not M.same(frame, frame0):
            res.violation(case, _short(frame), _short(frame0), dict(cause, law="context-frame"))
        # description
        req = req_kw if side == "compose" else req_plain
        allp = M.match(ctx["variable"], req, exact=True)
        probs = [q for q in allp if q[1] != "extra"]
        seen = set()
        for path, problem in probs:
            r = M.role(path[0], types)
            if (r, problem) in seen:
                continue
            seen.add((r, problem))
            res.violation(case, {"context.variable": _short(ctx["variable"]), "at": list(path)},
                          {"context.variable contains": _short(M.plain(req))},
                          dict(cause, law="description", what=r, problem=problem))
        if not probs:
            res.count("description_exact" if not allp else "description_with_unlisted_keys")
        # variable unchanged
        if before != after1:
            res.violation(case, "changed: %s" % changed_kinds(before, after1), "no variable changes",
                          dict(cause, law="variable-unchanged", after="first-application",
                               nodes=changed_kinds(before, after1)))
        elif after1 != after2:
            res.violation(case, "changed: %s" % changed_kinds(after1, after2), "no variable changes",
                          dict(cause, law="variable-unchanged", after="second-application",
                               nodes=changed_kinds(after1, after2)))
        # repeat
        if not repeat_ok:
            din = _differs_in(keep1, keep2, types) if _wellformed(keep2) else "shape"
            res.violation(case, _short(keep2), _short(keep1),
                          dict(cause, law="repeat", differs_in=din))
        # repeat after the earlier results were modified in place
        if after2 != after3 or not _wellformed(r3) or not M.same(keep1, r3):
            din = "shape" if not _wellformed(r3) else _differs_in(keep1, r3, types)
            res.violation(case, _short(r3), _short(keep1),
                          dict(cause, law="repeat-after-result-mutated", differs_in=din,
                               variable_changed=changed_kinds(after2, after3)),
                          note="the contexts returned by the first two applications were modified in "
                               "place before the third application")
    # differential laws
    if "sequence" in first and "compose" in first and not kw:
        a, b = first["sequence"], first["compose"]
        if not M.same(a, b):
            res.violation(case, {"compose": _short(b)}, {"sequence": _short(a)},
                          dict(base, law="compose-equals-sequence", differs_in=_differs_in(a, b, types)))
    if "flat" in first:
        for side in ("sequence", "compose"):
            if side in first and not M.same(first[side], first["flat"]):
                res.violation(case, {side: _short(first[side])}, {"flat sequence": _short(first["flat"])},
                              dict(base, law="associativity", side=side,
                                   differs_in=_differs_in(first["flat"], first[side], types)))
    outcome = canon(first.get("sequence", first.get("compose")))
    res.case(nontrivial=nontrivial, outcome=outcome, key=json.dumps(case, sort_keys=True))
    res.count("cases_" + group)
    res.count("applications", 3 * len(sides))
    res.maximum("types_kept_apart", n_types)
    return first


# ---------------------------------------------------------------------------------------------------
# law "history-independence": a variable is a function of the value it is given. The same Sequence /
# Compose object is first applied to the values of a prelude (some of which make a getter raise) and then
# to the judged value; it must give what a fresh object gives (which _judge compares with the model).
def _step_kind(st):
    return "fails" if st["data"].startswith(M.OUTSIDE) else \
        ("ok" if st["data"] == "int" else "other-data")


def _fails_at(items, prelude):
    """Where in the order of the getters the (last) failing getter of the prelude stands."""
    idx = [l[1] for s in items for l in M.all_leaves(s)]
    out = "none"
    for st in prelude:
        if _step_kind(st) == "fails":
            i = int(st["data"][len(M.OUTSIDE):])
            k = idx.index(i)
            out = "only" if len(idx) == 1 else ("first" if k == 0 else
                                                ("last" if k == len(idx) - 1 else "inner"))
    return out


def judge_history(res, case):
    items, form = case["items"], case["value"]
    base_case = {"group": "history", "items": items, "compose_kw": None, "value": form}
    first = _judge(res, base_case)
    if first is None:
        return False
    types = M.required_result(M.split_value(_value(form, items))[1].get("variable"),
                              [M.describe(s) for s in items])[1]
    only = case.get("prelude")
    for prelude in ([only] if only is not None else preludes(items)):
        pcase = dict(base_case, prelude=prelude)
        kinds = [_step_kind(st) for st in prelude]
        cause0 = {"group": "history", "pre": PRE_CLASS[form], "prelude": kinds,
                  "fails_at": _fails_at(items, prelude)}
        raised_any, seen = False, []
        for side in ("sequence", "compose"):
            if side not in first:
                continue            # the fresh object already failed (reported by _judge)
            cause = dict(cause0, side=side)
            s = Side(side, items, None)
            before = snapshot(s.nodes)
            steps = []
            for st in prelude:
                try:
                    s.apply(_value(st, items))
                    steps.append("returned")
                except Exception as e:      # outside the domain: recorded, not judged
                    steps.append(type(e).__name__)
                    raised_any = True
            try:
                r = _norm(s.apply(_value(form, items)))
            except Exception as e:
                res.violation(pcase, "raised %s: %s" % (type(e).__name__, str(e)[:200]),
                              _short(first[side]),
                              dict(cause, law="history-independence", differs_in="raised",
                                   exc=type(e).__name__))
                seen.append((side, tuple(steps), "raised"))
                continue
            after = snapshot(s.nodes)
            if not _wellformed(r) or not M.same(r, first[side]):
                din = "shape" if not _wellformed(r) else _differs_in(first[side], r, types)
                res.violation(pcase, _short(r), _short(first[side]),
                              dict(cause, law="history-independence", differs_in=din),
                              note="expected is what a fresh object gives for the same value; the "
                                   "prelude was applied to this object before: %s" % steps)
            if before != after:
                res.violation(pcase, "changed: %s" % changed_kinds(before, after), "no variable changes",
                              dict(cause, law="variable-unchanged", after="history",
                                   nodes=changed_kinds(before, after)))
            seen.append((side, tuple(steps), canon(r) if _wellformed(r) else repr(r)))
        other_value = any(st["form"] != form or st["data"] != "int" for st in prelude)
        res.case(nontrivial=raised_any or other_value, outcome=tuple(seen),
                 key=json.dumps(pcase, sort_keys=True))
        res.count("cases_history_preludes")
        res.count("applications", (len(prelude) + 1) * 2)
        if raised_any:
            res.count("history_failed_applications_first" if kinds[0] == "fails"
                      else "history_failed_applications_later")
    return True


# ---------------------------------------------------------------------------------------------------
# law "shared-variable": one Variable object applied in two chains (values) whose earlier variable has
# the same type but other attributes; a variable is a function of the value it is given
SHARED_FORMS = ("sequence", "direct", "compose")


def _apply_chain(form, first, second, val):
    import lena.core
    import lena.variables
    if form == "sequence":
        return list(lena.core.Sequence(first, second).run(iter([val])))[0]
    if form == "direct":
        return second(first(val))
    return lena.variables.Compose(first, second)(val)


def check_shared_variable(res):
    import lena.variables
    profs = M.PROFILES[:4]
    for ta, tx in (("particle", "coordinate"), ("t.2", "x")):
        for pa in range(len(profs)):
            for pb in range(len(profs)):
                for form1 in SHARED_FORMS:
                    for form2 in SHARED_FORMS:
                        for vform in ("bare", "plain", "typed-variable"):
                            case = {"law": "shared-variable", "types": [ta, tx], "profiles": [pa, pb],
                                    "forms": [form1, form2], "value": vform}

                            def mk(name, typ, prof):
                                return lena.variables.Variable(name, lambda d: (name, d), type=typ,
                                                               **copy.deepcopy(profs[prof]))
                            try:
                                x = mk("x", tx, 1)
                                _apply_chain(form1, mk("first_a", ta, pa), x, M.value(vform))
                                got = _apply_chain(form2, mk("first_b", ta, pb), x, M.value(vform))
                                want = _apply_chain(form2, mk("first_b", ta, pb), mk("x", tx, 1), M.value(vform))
                                ok = canon(got) == canon(want)
                                observed = _short(got)
                            except Exception as e:  # noqa
                                ok, observed, want = False, "raised " + type(e).__name__, None
                            res.case(nontrivial=pa != pb, outcome=(form1, form2, vform, ok))
                            if not ok:
                                res.violation(case, observed, _short(want) if want is not None else "a value",
                                              {"law": "shared-variable", "second_form": form2,
                                               "same_attributes": pa == pb})
    res.sample(case, 1)


def run_shard(p, tier):
    if p.get("group") == "shared-variable":
        res = Result()
        check_shared_variable(res)
        return res
    res = Result()
    limit = 2
    for case in cases_of(p, tier):
        judge(res, case)
        if len(res.samples) < limit and _vspec(case["value"])[0] == "typed-variable":
            res.sample(case, limit)
    if not res.samples:
        for case in cases_of(p, tier):
            res.sample(case, 1)
            break
    return res


def _replay_shared(case):
    res = Result()
    check_shared_variable(res)
    keys = ("types", "profiles", "forms", "value")
    return [v for v in result_violations(res) if all(v["case"].get(k) == case.get(k) for k in keys)]


def replay(case):
    if case.get("law") == "shared-variable":
        return _replay_shared(case)
    res = Result()
    judge(res, case)
    return result_violations(res)
