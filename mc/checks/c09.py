"""C09 - Accumulators yield the documented aggregate; reset() equals a fresh element.

Explicit-state breadth-first search (driver E2) over the real transition function of every framework
element that has a reset method.  A state is the event history that reaches it: the real element is
rebuilt and the history replayed, the next event (fill(v) | compute | reset) applied, the result
judged, and a canonical form of (vars(element), vars(twin), abstract state of the reference model)
hashed for de-duplication.

Oracles
  * aggregate / context: every compute() is judged by an independent reference model of the fills
    since the last reset (mc/ref/c09_models.py: len, left-fold sum, exact Fraction sum, sum/len,
    exact-rational variance within rel 1e-9, per component, the filled objects themselves, a
    cell -> content dictionary, the sorted points) and must carry the context of the last filled value
    extended only by the element's documented keys;
  * reset-equals-fresh (twin): after each reset a newly constructed element receives the same suffix
    and must give the same outcome (values by ==, exception type) for every later event;
  * the number types of what is yielded after a reset (int / float / Decimal) are those a fresh
    element yields for the same suffix (observational equality; only ever compared between the two
    real executions, never with the model);
  * fill and reset themselves must not raise inside the alphabet;
  * two consumers of compute(): list(), and one that takes the values one by one and updates the context
    of each received value in place before it asks for the next (what the elements that follow an
    accumulator in a sequence do); every value is judged as it was when the consumer received it, so
    whatever the consumer did to earlier values - of this compute or of an earlier one - may not show;
  * three families of histories per configuration: from a newly constructed element; after a sibling
    instance of the class has been active (prelude); with the element under test being a deep copy
    of a newly constructed element whose original stays alive, is filled once after the copy was
    taken, and must compute the same before and after every event on the copy (copy-independent).
"""
import copy
import decimal
import fractions

import lena.core
import lena.flow
import lena.math
import lena.structures

from mc.core import Result, result_violations
from mc.instrument import step_budget, StepBudgetExceeded
from mc.ref import c09_models as M

ID = "C09"
LEVEL = "model_checking"
DESIGN_REF = "DESIGN.md section 5, C09"
RULE = ("breadth-first search over histories (fill(v) | compute | compute taken by an updating consumer | "
        "reset)* of every element "
        "configuration, one shard per (configuration, first event) for the plain and the sibling-prelude "
        "family (the two kinds of compute as first event share a shard) and one shard per configuration "
        "for the deep-copy family (prelude and deep-copy: one "
        "level less); a history is extended only if its "
        "canonical state (frozen vars of element and twin + abstract model state) was not seen before in "
        "its shard; every executed transition is one evaluation; it is non-trivial when it is a compute "
        "(or a FillRequest block) judged on at least two values filled since the last reset, or any "
        "observation made after a reset that followed at least one fill; states = distinct canonical "
        "states summed over shards; traces = histories ending in an observation compared with the model")
ASSUMPTIONS = [
    "value pools per element: ints of mixed magnitude (0, 1, -2, 2**53+1 which no float holds), floats of "
    "mixed magnitude (0.1, +-1e16, 2**-1074) and (data, context) "
    "pairs with nested JSON-like contexts; VarianceMeanCount (also inside Vectorize) only on small ints / "
    "dyadic rationals "
    "(naive formula is not judged on catastrophic cancellation), variance within 1e-9 of the sum-of-squares scale",
    "reset() is compared with a fresh element constructed with DEFAULT start values for Sum/DSum/Count "
    "(their reset documents zeroing, not restoring the constructor argument) and with the same "
    "constructor arguments for configuration options (pass_on_empty, corrected, sort, bins, make_bins)",
    "Sum accepts the left fold start+v1+v2... or the builtin sum(); Mean accepts fold/n, sum()/n, fsum/n "
    "or anything within rel 1e-9 of the exact mean; DSum must equal the exact rational sum (a float "
    "result must be its correct rounding)",
    "GroupBy: only the partition of the filled objects is judged against the model (order of groups is "
    "left to the twin comparison); GroupBy('k') / GroupBy('a') are fed only values whose context has that "
    "key; the pools of GroupBy('', merge=()) and GroupBy('a') hold equal (sub)contexts written in "
    "different orders of their items at both levels - equal dictionaries are equal keys; no empty "
    "sub-dictionaries (DESIGN.md section 3, R2)",
    "Zip enters as Zip([FillRequest(Sum()), FillRequest(Mean() | DSum())]) (bufsize 1 / 2, reset False / "
    "True, with and without fields), the only kind of Zip that has a reset method, driven block-aligned "
    "like FillRequest; its branches add no context key of their own, so the zipped value must carry exactly "
    "the context of the last filled value",
    "deep-copy family: copy.deepcopy of a newly constructed element is an accumulator of its own (Split and "
    "Vectorize make their branches and components this way); the original is observed only through "
    "compute(), and only for fill/compute elements",
    "types of yielded numbers are compared only between the element after reset and its fresh twin",
    "Graph: the context may be extended by the keys scale and dim only",
    "Count(name=...): the key the element adds is named by the user; names are non-empty strings of every "
    "shape relative to the filled contexts (dotted with the first part a sub-dictionary / a plain value / "
    "absent in the context, spelling the path of an existing nested item, three parts deep, equal to an "
    "existing plain key or sub-dictionary, containing braces, a slash, a space), with the default and a "
    "non-default start counter; judged by the documented dict.update({name: count}): exactly one flat key "
    "named name, every other item of the last value's context as it was filled; the public attributes "
    "name and count are compared with the fresh twin's; the empty name is left out",
    "FillRequest / FillRequestSeq are driven block-aligned only (bufsize fills, then request()), and "
    "reset() is called only between blocks: their reset documents resetting the wrapped element, not "
    "the adapter's own counters (mid-block behaviour belongs to C16)",
    "outcomes are compared by == on values and by type name on exceptions; object identity of yielded "
    "contexts (aliasing as such) is C04's subject, not judged here - only what a consumer receives is",
    "the updating consumer changes only the context of a received (data, context) pair (sets a key in "
    "every dictionary and appends to every list reachable from it), never the data; a value is judged as "
    "it was at the moment it was received; StoreFilled / GroupBy yield the filled values themselves, so "
    "what the consumer does to them stays on them (judged by identity, and equally done to the twin's); "
    "request() of the FillRequest adapters and of Zip (one value per block) is taken by list() only",
    "accumulators that yield several values per compute: StoreFilled(yield_as_a_group=False), GroupBy, "
    "Vectorize over StoreFilled(yield_as_a_group=False) components (equal numbers of outputs, and unequal "
    "ones next to Sum: the documented padding with None), Mean over a user's sum algorithm that yields "
    "the sum, the number of values and the smallest value (documented: all are yielded, the first is "
    "divided by the count) - fed plain data by Mean, so its further values carry no context of their own",
    "elements needing numpy (NumpyHistogram) are outside the alphabet; the deprecated private _GroupBy "
    "(kept for GroupPlots) is not a framework element",
]
NONTRIVIAL_FLOOR = {"quick": 30000, "thorough": 100000}
BUDGET_S = {"quick": 240, "thorough": 1500}

DEPTH = {"quick": 4, "thorough": 6}

CTX1 = {"a": {"b": 1}, "k": 1}
CTX2 = {"k": 2, "c": [1, 2]}
TINY = 2.0 ** -1074
BIG = 2 ** 53 + 1      # an int that no float holds: integer sums stay exact only in integer arithmetic
NUM = [1, -2, 0.5, 0.1, 1e16, -1e16, TINY, (BIG, CTX1), (0, CTX2)]    # zero is a value like any other
BENIGN = [1, -2, 0.5, 2.25, (3, CTX1), (4, CTX2)]
VEC = [(1, 2), (-2, 0.5), (0.1, 1e16), ((3, -1e16), CTX1), ((4, TINY), CTX2)]
VECB = [(1, 2), (-2, 0.5), (0.5, 2.25), ((3, -1), CTX1), ((4, 0.25), CTX2)]     # benign vectors
STORE = [1, 0.5, (3, CTX1), (4, CTX2), (5, {"k": 1, "o": 2})]
GROUPK = [(1, {"k": 1}), (3, CTX1), (4, CTX2), (5, {"k": 1, "o": 2}), (6, {"k": 3})]
# equal contexts (equal group keys) written in different orders of their items, at both levels
GROUPO = [(1, {"k": 1, "o": 2}), (2, {"o": 2, "k": 1}), (3, {"a": {"b": 1, "c": 2}, "k": 1}),
          (4, {"k": 1, "a": {"c": 2, "b": 1}}), (5, {"k": 1, "o": 3})]
GROUPA = [(1, {"a": {"b": 1, "c": 2}}), (2, {"k": 1, "a": {"c": 2, "b": 1}}), (3, {"a": {"b": 1, "c": 3}}),
          (4, {"k": 2, "a": {"b": 1}}), (5, {"a": {"c": 3, "b": 1}, "k": 1})]
EDGES = [0, 1, 2, 4]
HIST = [-1, 0, 0.5, 1, 3.5, 4, (1.5, CTX1), (5, CTX2)]
EDGES2 = [[0, 1, 2], [0, 1, 2]]
HIST2 = [(0, 0), (1, 1.5), (0.5, 2), (-1, 1), ((1, 0), CTX1), ((2, 2), CTX2)]
GRAPH = [(1, 10), (0, 5), (1, 3), ((2, 7), CTX1), ((0.5, 1), CTX2)]
GRAPH_SCALE = GRAPH[:3] + [((3, 1), {"scale": 2}), ((0.5, 1), CTX2)]
BLOCKS1 = [[1], [0.5], [(3, CTX1)]]
BLOCKS2 = [[1, -2], [0.5, (3, CTX1)], [(4, CTX2), 1]]
ZBLOCKS1 = [[1], [0.5], [(BIG, CTX1)]]
ZBLOCKS2 = [[1, -2], [0.5, (BIG, CTX1)], [(4, CTX2), 1]]
# The key an element adds to the context under a name the USER chooses (Count(name=...)): every shape of
# name relative to the contexts of COUNTN - a dotted name whose first part is a sub-dictionary / a plain
# value / absent in the context of the last value, a dotted name that spells the path of an existing
# nested item, a deep dotted name, a name equal to an existing plain key and to an existing sub-dictionary
# (documented: dict.update with {name: count} - one flat key, an equal key is replaced), names with
# characters that mean something to str.format or to a path ('{n}', 'a/n', 'n events').
COUNT_NAMES = ["a.n", "k.n", "a.b", "x.y.z", "k", "a", "{n}", "a/n", "n events"]
COUNTN = [1, (BIG, CTX1), (0, CTX2), (5, {"a": 7, "x": {"y": 1}})]


def describe(tier):
    return ("all histories of length <= %d over fill(v) | compute | reset for %d element configurations "
            "(value pools of 4..9 values per element; Count under %d user-chosen names of its context key), compute taken by list() or value by value by a "
            "consumer that updates each received context in place, de-duplicated on canonical state; FillRequest "
            "adapters and Zip of FillRequest branches: block | reset histories of the same length; the same "
            "with length <= %d after a sibling instance was active, and for a deep copy of a new element "
            "whose original stays alive"
            % (DEPTH[tier], len(CONFIGS), len(COUNT_NAMES) + 2, DEPTH[tier] - 1))


# ---------------------------------------------------------------------------------------------------
# configurations
# ---------------------------------------------------------------------------------------------------

class Cfg(object):
    def __init__(self, name, element, make, model, pool, twin=None, model_fresh=None,
                 kind="fc", peek=None, bufsize=1, watch=False, sibling=None, refused=()):
        self.sibling = sibling
        # values the element cannot take (fill must raise): a fill that raises is no fill, the aggregate
        # and the current context stay as they were. Events "x0", "x1", ...
        self.refused = list(refused)
        self.name, self.element = name, element
        self.make, self.model = make, model
        self.twin = twin or make
        self.model_fresh = model_fresh or model
        self.pool, self.kind, self.peek = pool, kind, peek
        self.watch = watch
        # "c": compute() taken by list(); "m": compute() taken value by value by a consumer that updates
        # the context of every received value in place before it asks for the next one
        self.events = list(range(len(pool))) + (["c"] if kind == "fc" else []) + ["r"] + \
            ["x%d" % i for i in range(len(self.refused))] + (["m"] if kind == "fc" else [])


class SumCountMin(object):
    """A user's sum algorithm for Mean(sum_seq=...) that yields further values after the sum: the number
    of values and the smallest one (Mean.compute: "if the sum_seq yields several values, they are all
    yielded, but only the first is divided by number of events")."""

    def __init__(self):
        self._sum = lena.math.Sum()
        self._data = []

    def fill(self, value):
        self._sum.fill(value)
        self._data.append(lena.flow.get_data(value))

    def compute(self):
        for val in self._sum.compute():
            yield val
        yield len(self._data)
        if self._data:
            yield min(self._data)

    def reset(self):
        self._sum.reset()
        self._data = []


def _count_min(datas):
    return [len(datas), min(datas)]


def _configs():
    Sum, DSum, Mean = lena.math.Sum, lena.math.DSum, lena.math.Mean
    VMC, Vectorize = lena.math.VarianceMeanCount, lena.math.Vectorize
    Count, StoreFilled, GroupBy = lena.flow.Count, lena.flow.StoreFilled, lena.flow.GroupBy
    Histogram, Graph = lena.structures.Histogram, lena.structures.Graph
    FillRequest, FillRequestSeq = lena.core.FillRequest, lena.core.FillRequestSeq
    FillComputeSeq = lena.core.FillComputeSeq
    total = lambda el: el.total
    out = []
    add = lambda *a, **k: out.append(Cfg(*a, **k))

    add("Count()", "Count", lambda: Count(), lambda: M.CountModel(), NUM, peek=lambda el: el.count,
        sibling=lambda: Count(name="sibling"))
    add("Count(name='n', count=3)", "Count", lambda: Count(name="n", count=3),
        lambda: M.CountModel("n", 3), NUM, twin=lambda: Count(name="n"),
        model_fresh=lambda: M.CountModel("n", 0), peek=lambda el: el.count,
        sibling=lambda: Count(name="sibling", count=7))
    named = lambda el: (el.name, el.count)
    for nm in COUNT_NAMES:
        add("Count(name=%r)" % nm, "Count", (lambda nm=nm: Count(name=nm)),
            (lambda nm=nm: M.CountModel(nm)), COUNTN, peek=named,
            sibling=(lambda nm=nm: Count(name=nm, count=7)))
    add("Count(name='a.n', count=3)", "Count", lambda: Count(name="a.n", count=3),
        lambda: M.CountModel("a.n", 3), COUNTN, twin=lambda: Count(name="a.n"),
        model_fresh=lambda: M.CountModel("a.n", 0), peek=named,
        sibling=lambda: Count(name="a", count=7))
    add("Sum()", "Sum", lambda: Sum(), lambda: M.SumModel(), NUM, peek=total, refused=["s"])
    add("Sum(total=5)", "Sum", lambda: Sum(total=5), lambda: M.SumModel(5), NUM,
        twin=lambda: Sum(), model_fresh=lambda: M.SumModel(), peek=total)
    add("DSum()", "DSum", lambda: DSum(), lambda: M.DSumModel(), NUM, peek=total, refused=[("s", CTX1)])
    add("DSum(total=0.1)", "DSum", lambda: DSum(total=0.1), lambda: M.DSumModel(0.1), NUM,
        twin=lambda: DSum(), model_fresh=lambda: M.DSumModel(), peek=total)
    add("Mean()", "Mean", lambda: Mean(), lambda: M.MeanModel(), NUM, refused=[("s", CTX2)])
    add("Mean(pass_on_empty=True)", "Mean", lambda: Mean(pass_on_empty=True),
        lambda: M.MeanModel(pass_on_empty=True), NUM)
    add("Mean(sum_seq=DSum())", "Mean", lambda: Mean(sum_seq=DSum()),
        lambda: M.MeanModel(exact_sum=True), NUM)
    add("Mean(sum_seq=Sum())", "Mean", lambda: Mean(sum_seq=Sum()), lambda: M.MeanModel(), NUM)
    add("Mean(sum_seq=SumCountMin())", "Mean", lambda: Mean(sum_seq=SumCountMin()),
        lambda: M.MeanModel(extras=_count_min), BENIGN)
    add("VarianceMeanCount()", "VarianceMeanCount", lambda: VMC(), lambda: M.VarianceModel(), BENIGN,
        refused=[(1e200, CTX1)])
    add("VarianceMeanCount(corrected=False)", "VarianceMeanCount", lambda: VMC(corrected=False),
        lambda: M.VarianceModel(corrected=False), BENIGN, refused=["s"])
    add("VarianceMeanCount(pass_on_empty=True)", "VarianceMeanCount", lambda: VMC(pass_on_empty=True),
        lambda: M.VarianceModel(pass_on_empty=True), BENIGN)
    add("Vectorize(Sum(), dim=2)", "Vectorize", lambda: Vectorize(Sum(), dim=2),
        lambda: M.VectorModel([M.SumModel(), M.SumModel()]), VEC)
    add("Vectorize([Sum(), DSum()])", "Vectorize", lambda: Vectorize([Sum(), DSum()]),
        lambda: M.VectorModel([M.SumModel(), M.DSumModel()]), VEC)
    add("Vectorize(FillComputeSeq(Sum()), dim=2)", "Vectorize",
        lambda: Vectorize(FillComputeSeq(Sum()), dim=2),
        lambda: M.VectorModel([M.SumModel(), M.SumModel()]), VEC)
    add("Vectorize(Mean(), dim=2)", "Vectorize", lambda: Vectorize(Mean(), dim=2),
        lambda: M.VectorModel([M.MeanModel(), M.MeanModel()]), VEC)
    add("Vectorize(VarianceMeanCount(corrected=False), dim=2)", "Vectorize",
        lambda: Vectorize(VMC(corrected=False), dim=2),
        lambda: M.VectorModel([M.VarianceModel(corrected=False), M.VarianceModel(corrected=False)]), VECB)
    add("Vectorize(VarianceMeanCount(), dim=2)", "Vectorize", lambda: Vectorize(VMC(), dim=2),
        lambda: M.VectorModel([M.VarianceModel(), M.VarianceModel()]), VECB)
    # components that yield several values per compute (one per filled value), of equal and of unequal
    # number (documented: the longest output is yielded, the others are padded with None)
    add("Vectorize(StoreFilled(yield_as_a_group=False), dim=2)", "Vectorize",
        lambda: Vectorize(StoreFilled(yield_as_a_group=False), dim=2),
        lambda: M.VectorModel([M.StoreModel(False), M.StoreModel(False)]), VEC)
    add("Vectorize([StoreFilled(yield_as_a_group=False), Sum()])", "Vectorize",
        lambda: Vectorize([StoreFilled(yield_as_a_group=False), Sum()]),
        lambda: M.VectorModel([M.StoreModel(False), M.SumModel()]), VEC)
    add("StoreFilled()", "StoreFilled", lambda: StoreFilled(), lambda: M.StoreModel(True), STORE,
        peek=lambda el: el.group)
    add("StoreFilled(yield_as_a_group=False)", "StoreFilled",
        lambda: StoreFilled(yield_as_a_group=False), lambda: M.StoreModel(False), STORE,
        peek=lambda el: el.group)
    add("GroupBy()", "GroupBy", lambda: GroupBy(), lambda: M.GroupModel(lambda c: 0), STORE,
        peek=lambda el: list(el.groups.values()))
    add("GroupBy('k')", "GroupBy", lambda: GroupBy("k"), lambda: M.GroupModel(lambda c: c["k"]),
        GROUPK, peek=lambda el: list(el.groups.values()))
    add("GroupBy('', merge=())", "GroupBy", lambda: GroupBy("", merge=()),
        lambda: M.GroupModel(lambda c: M._fz(c)), GROUPO, peek=lambda el: list(el.groups.values()))
    add("GroupBy('a')", "GroupBy", lambda: GroupBy("a"), lambda: M.GroupModel(lambda c: M._fz(c["a"])),
        GROUPA, peek=lambda el: list(el.groups.values()))
    zeros = lambda: [0, 0, 0]
    add("Histogram(edges)", "Histogram", lambda: Histogram(list(EDGES)),
        lambda: M.HistogramModel(EDGES, zeros()), HIST, refused=[("s", CTX2)])
    add("Histogram(edges, bins=[1,0,2])", "Histogram", lambda: Histogram(list(EDGES), bins=[1, 0, 2]),
        lambda: M.HistogramModel(EDGES, [1, 0, 2]), HIST)
    add("Histogram(edges, make_bins=zeros)", "Histogram",
        lambda: Histogram(list(EDGES), make_bins=zeros),
        lambda: M.HistogramModel(EDGES, zeros()), HIST)
    add("Histogram(edges, make_bins=[10,20,30])", "Histogram",
        lambda: Histogram(list(EDGES), make_bins=lambda: [10, 20, 30]),
        lambda: M.HistogramModel(EDGES, [10, 20, 30]), HIST)
    add("Histogram(edges, initial_value=5)", "Histogram",
        lambda: Histogram(list(EDGES), initial_value=5),
        lambda: M.HistogramModel(EDGES, [5, 5, 5]), HIST)
    add("Histogram(edges2d)", "Histogram", lambda: Histogram(copy.deepcopy(EDGES2)),
        lambda: M.HistogramModel(EDGES2, [[0, 0], [0, 0]]), HIST2)
    add("Graph()", "Graph", lambda: Graph(), lambda: M.GraphModel(), GRAPH)
    add("Graph(sort=False)", "Graph", lambda: Graph(sort=False), lambda: M.GraphModel(sort=False), GRAPH)
    add("Graph() with a scale context", "Graph", lambda: Graph(), lambda: M.GraphModel(), GRAPH_SCALE)
    for b, blocks in ((1, BLOCKS1), (2, BLOCKS2)):
        for r in (False, True):
            for buf in ("buffer_input", "buffer_output"):
                kw = {"bufsize": b, "reset": r, buf: True}
                name = "FillRequest(Sum(), bufsize=%d, reset=%s, %s=True)" % (b, r, buf)
                add(name, "FillRequest", (lambda kw=kw: FillRequest(Sum(), **kw)),
                    (lambda r=r: M.BlockModel(M.SumModel, r)), blocks, kind="fr", watch=True)
    for r in (False, True):
        kw = {"bufsize": 2, "reset": r, "buffer_input": True}
        add("FillRequestSeq(FillRequest(Sum(), bufsize=2, reset=%s, buffer_input=True))" % r,
            "FillRequestSeq",
            (lambda kw=kw: FillRequestSeq(FillRequest(Sum(), **kw), bufsize=2, reset=kw["reset"],
                                          buffer_input=True)),
            (lambda r=r: M.BlockModel(M.SumModel, r)), BLOCKS2, kind="fr", watch=True)
    # Zip of fill-request branches (the only Zip that has a reset method): both branches get every value
    for b, blocks, second, cls, smodel, fields in ((1, ZBLOCKS1, "Mean", Mean, M.MeanModel, ()),
                                                   (2, ZBLOCKS2, "DSum", DSum, M.DSumModel, ("s", "d"))):
        for r in (False, True):
            kw = {"bufsize": b, "reset": r, "buffer_input": True}
            zkw = {"fields": fields} if fields else {}
            name = "Zip([FillRequest(Sum(), bufsize=%d, reset=%s, buffer_input=True), FillRequest(%s(), ...)]%s)" \
                % (b, r, second, ", fields=('s', 'd')" if fields else "")
            add(name, "Zip",
                (lambda kw=kw, cls=cls, zkw=zkw:
                 lena.flow.Zip([FillRequest(Sum(), **kw), FillRequest(cls(), **kw)], **zkw)),
                (lambda r=r, smodel=smodel: M.BlockModel(lambda: M.ZipModel([M.SumModel(), smodel()]), r)),
                blocks, kind="fr", watch=True)
    return out


CONFIGS = _configs()
BY_NAME = {c.name: c for c in CONFIGS}


def shards(tier):
    out = []
    # the histories that begin with a compute (by either consumer) share one shard, hence one set of
    # seen states: a compute that leaves the element as it was is then explored once, not twice
    for c in CONFIGS:
        for k in range(len(c.events)):
            if c.events[k] != "m":
                out.append({"config": c.name, "first": k})
    for c in CONFIGS:
        for k in range(len(c.events)):
            if c.events[k] != "m":
                out.append({"config": c.name, "first": k, "prelude": True})
    for c in CONFIGS:
        # one level less, like the prelude family: one shard holds all first events of a configuration
        out.append({"config": c.name, "first": None, "copy": True})
    return out


def _mode(p):
    """"" | "prelude" | "copy" of a shard descriptor or of a recorded case."""
    if p.get("copy"):
        return "copy"
    return "prelude" if p.get("prelude") else ""


# ---------------------------------------------------------------------------------------------------
# canonical forms
# ---------------------------------------------------------------------------------------------------

def canon(x, depth=0):
    """Observational form of a yielded value: numbers by value, containers structurally, histogram
    and Graph objects by their documented public content."""
    if x is None or isinstance(x, (bool, str)):
        return x
    if isinstance(x, float):
        if x != x or x in (float("inf"), float("-inf")):
            return ("f", repr(x))
        return ("n", fractions.Fraction(x))
    if isinstance(x, (int, fractions.Fraction)):
        return ("n", fractions.Fraction(x))
    if isinstance(x, decimal.Decimal):
        return ("n", fractions.Fraction(x)) if x.is_finite() else ("f", repr(x))
    if depth > 30:
        return ("deep",)
    if isinstance(x, dict):
        return ("d",) + tuple(sorted(((repr(k), canon(v, depth + 1)) for k, v in x.items()),
                                     key=lambda kv: kv[0]))
    if isinstance(x, (list, tuple)):
        return ("l" if isinstance(x, list) else "t",) + tuple(canon(v, depth + 1) for v in x)
    tname = type(x).__name__
    if tname == "histogram":
        return ("histogram", canon(x.edges, depth + 1), canon(x.bins, depth + 1),
                canon(x.n_out_of_range, depth + 1))
    if tname == "Graph":
        return ("Graph", canon(list(x.points), depth + 1))
    return ("o", tname)


def canon_outcome(out):
    if out[0] == "ok":
        return ("ok", canon(out[1]))
    return out


def number_types(x, depth=0):
    """The types of the numbers in a yielded value (int, float, Decimal ...), in place.  Only used to
    compare an element after reset with a fresh one: whatever can be observed counts there, and the
    type of a result is observable (repr, division, exactness of later sums)."""
    if isinstance(x, (int, float, decimal.Decimal, fractions.Fraction)):
        return type(x).__name__
    if depth > 30 or x is None or isinstance(x, (str, bytes)):
        return None
    if isinstance(x, dict):
        return tuple(sorted((repr(k), number_types(v, depth + 1)) for k, v in x.items()))
    if isinstance(x, (list, tuple)):
        return tuple(number_types(v, depth + 1) for v in x)
    tname = type(x).__name__
    if tname == "histogram":
        return number_types(x.bins, depth + 1)
    if tname == "Graph":
        return number_types(list(x.points), depth + 1)
    return None


def types_outcome(out):
    return number_types(out[1]) if out[0] == "ok" else None


def skey(x, seen=None, depth=0):
    """Canonical hashable form of an element's whole state (no addresses, cycles cut)."""
    if seen is None:
        seen = set()
    if x is None or isinstance(x, (bool, int, str, bytes)):
        return (type(x).__name__, x)
    if isinstance(x, float):
        return ("f", repr(x))
    if isinstance(x, (decimal.Decimal, fractions.Fraction, decimal.Context)):
        return ("r", repr(x))
    if isinstance(x, type) or callable(x) and not hasattr(x, "fill"):
        # functions, bound methods, classes: behaviour is fixed by the configuration
        s = getattr(x, "__self__", None)
        name = getattr(x, "__qualname__", getattr(x, "__name__", type(x).__name__))
        if s is not None and hasattr(s, "__dict__"):
            return ("m", name, skey(s, seen, depth + 1))
        return ("fn", name)
    if id(x) in seen:
        return ("cycle", type(x).__name__)
    if isinstance(x, dict):
        seen = seen | {id(x)}
        return ("d",) + tuple(sorted(((repr(k), skey(v, seen, depth + 1)) for k, v in x.items()),
                                     key=lambda kv: kv[0]))
    if isinstance(x, (list, tuple)):
        seen = seen | {id(x)}
        return ("l" if isinstance(x, list) else "t",) + tuple(skey(v, seen, depth + 1) for v in x)
    if hasattr(x, "__dict__"):
        seen = seen | {id(x)}
        return ("o", type(x).__name__, skey(vars(x), seen, depth + 1))
    if hasattr(x, "__iter__"):
        seen = seen | {id(x)}
        return ("it", type(x).__name__) + tuple(skey(v, seen, depth + 1) for v in x)
    return ("t?", type(x).__name__)


# ---------------------------------------------------------------------------------------------------
# the transition function
# ---------------------------------------------------------------------------------------------------

class State(object):
    __slots__ = ("el", "twin", "model", "objs", "resets", "filled_before_reset", "alive", "sibling",
                 "origin", "origin_before")

    def __init__(self, cfg, mode=""):
        self.origin = None
        if mode == "prelude":
            # start from a non-initial state of the process: another instance of the same class has been
            # computed before it was ever filled, then filled, computed and reset, and stays alive.
            # Instances are independent: nothing of this may show in what *this* element yields.
            sib = (cfg.sibling or cfg.make)()
            self.sibling = sib
            try:
                if cfg.kind == "fc":
                    list(sib.compute())
                    sib.fill(copy.deepcopy(cfg.pool[-1]))
                    list(sib.compute())
                else:
                    _block(sib, cfg.pool[-1])
                sib.reset()
            except Exception:  # noqa: what the sibling itself does is judged in its own histories
                pass
        self.el = cfg.make()
        if mode == "copy":
            # the element under test is a deep copy of a newly constructed element (what Split, Vectorize
            # and users do to get independent elements).  The original stays alive and is filled with one
            # value after the copy was taken: a deep copy is an accumulator of its own, and nothing that is
            # done to it may show in what the original yields.
            self.origin = self.el
            self.el = copy.deepcopy(self.origin)
            if cfg.kind == "fc":
                try:
                    self.origin.fill(copy.deepcopy(cfg.pool[-1]))
                except Exception:  # noqa: judged in the ordinary histories
                    pass
                self.origin_before = self.observe_origin(cfg)
        self.twin = None
        self.model = cfg.model()
        self.objs = []
        self.resets = 0
        self.filled_before_reset = False
        self.alive = True

    def observe_origin(self, cfg):
        return canon_outcome(_call(cfg, lambda: list(self.origin.compute())))

    def key(self):
        return (skey(vars(self.el)), None if self.twin is None else skey(vars(self.twin)),
                self.model.abstract(), self.resets > 0, self.filled_before_reset)


def _call(cfg, thunk):
    """("ok", value) | ("exc", type name); never lets a lena exception escape."""
    try:
        if cfg.watch:
            with step_budget(200000):
                return ("ok", thunk())
        return ("ok", thunk())
    except StepBudgetExceeded:
        return ("exc", "StepBudgetExceeded")
    except Exception as e:  # noqa: the type is the outcome
        return ("exc", type(e).__name__)


def _block(el, block):
    for v in block:
        el.fill(copy.deepcopy(v))
    return list(el.request())


def _scribble(c, k):
    """Update a context in place, in every mutable container reachable from it (what elements that
    follow in a sequence do with the context of a value they received: Count.run, UpdateContext,
    Variable, MakeFilename ... set keys at the top level and in nested dictionaries)."""
    if isinstance(c, dict):
        for v in list(c.values()):
            _scribble(v, k)
        c["received_as"] = k
    elif isinstance(c, list):
        for v in c:
            _scribble(v, k)
        c.append("received as %d" % k)


def _take_updating(gen):
    """The consumer of event "m": takes the values one by one; each value is recorded as it arrives
    (a deep copy: what the consumer saw at that moment) and then its context - for a (data, context)
    pair - is updated in place, before the generator is resumed.
    Returns (snapshots at receipt, the received objects themselves)."""
    snaps, reals = [], []
    for k, item in enumerate(gen):
        snaps.append(copy.deepcopy(item))
        reals.append(item)
        if isinstance(item, tuple) and len(item) == 2 and isinstance(item[1], dict):
            _scribble(item[1], k)
    return snaps, reals


def _short(x, limit=400):
    r = repr(x)
    return r if len(r) <= limit else r[:limit] + "..."


def step(cfg, S, e):
    """Apply event e to state S (the real element, its twin, the model).
    Returns (violations, outcome, nontrivial, observed) with violations a list of
    (cause, observed, expected, note)."""
    ret = _step(cfg, S, e)
    if S.origin is not None and cfg.kind == "fc":
        now = S.observe_origin(cfg)
        if now != S.origin_before:
            S.alive = False
            ret[0].append(({"law": "copy-independent", "element": cfg.element, "config": cfg.name,
                            "feature": "original changed by " + ("fill" if isinstance(e, int) else
                                                                   {"c": "compute", "m": "compute", "r": "reset"}.get(e, "refused fill"))},
                           _short(now), _short(S.origin_before),
                           "the element is a deep copy; what the original (filled once, never touched "
                           "again) computes changed through an event on the copy"))
    return ret


def _step(cfg, S, e):
    viols = []
    after = S.resets > 0
    sfx = "-after-reset" if after else ""

    def bad(law, feature, observed, expected, note=""):
        viols.append(({"law": law, "element": cfg.element, "config": cfg.name, "feature": feature},
                      _short(observed), _short(expected), note))

    def peeks(where):
        if cfg.peek is None or S.twin is None:
            return
        a = _call(cfg, lambda: canon(cfg.peek(S.el)))
        b = _call(cfg, lambda: canon(cfg.peek(S.twin)))
        if a != b:
            bad("reset-equals-fresh", "public attribute " + where, a, b,
                "documented public attribute differs from that of a fresh element after the same suffix")

    if e in ("c", "m"):
        if e == "c":
            take = lambda el: list(el.compute())
            judged = lambda o: o
            how = ""
        else:
            # every value is judged as it was when the consumer received it; the models that demand
            # "the filled values themselves" are given the received objects (they judge identity)
            take = lambda el: _take_updating(el.compute())
            judged = lambda o: o if o[0] != "ok" else ("ok", o[1][1] if S.model.by_identity else o[1][0])
            how = " (values taken one by one, context of each updated in place by the consumer)"
        raw = _call(cfg, lambda: take(S.el))
        out = raw if e == "c" or raw[0] != "ok" else ("ok", raw[1][0])
        for kind, feature, want, got in S.model.judge(judged(raw), S.objs):
            bad(kind + sfx, feature + how, got, want,
                "fills since last reset: %s" % _short(S.model.values, 300))
        c = canon_outcome(out)
        if S.twin is not None:
            traw = _call(cfg, lambda: take(S.twin))
            tout = traw if e == "c" or traw[0] != "ok" else ("ok", traw[1][0])
            ct = canon_outcome(tout)
            if c != ct:
                bad("reset-equals-fresh", "compute" + how, c, ct,
                    "compute() after reset differs from a fresh element given the same suffix")
            elif types_outcome(out) != types_outcome(tout):
                bad("reset-equals-fresh", "compute (types of the numbers)" + how,
                    (out[1], types_outcome(out)), (tout[1], types_outcome(tout)),
                    "compute() after reset yields numbers of another type than a fresh element given "
                    "the same suffix")
        nontrivial = S.model.n >= 2 or (after and S.filled_before_reset)
        return viols, (e, c), nontrivial, True

    if e == "r":
        had = S.model.n > 0
        r = _call(cfg, S.el.reset)
        if r[0] == "exc":
            S.alive = False
            bad("reset-equals-fresh", "reset raised " + r[1], r[1], "reset() returns",
                "reset() must leave an element equal to a new one; it raised")
            return viols, ("r", r[1]), False, False
        S.twin = cfg.twin()
        S.model = cfg.model_fresh()
        S.objs = []
        S.resets += 1
        S.filled_before_reset = S.filled_before_reset or had
        peeks("after reset")
        return viols, ("r", "ok"), False, False

    if isinstance(e, str) and e.startswith("x"):
        tmpl = cfg.refused[int(e[1:])]
        r = _call(cfg, lambda: S.el.fill(copy.deepcopy(tmpl)))
        if r[0] != "exc":
            S.alive = False
            bad("refused-value" + sfx, "fill accepted it", "returned", "an exception",
                "value %r cannot be aggregated by this element" % (tmpl,))
        if S.twin is not None:
            rt = _call(cfg, lambda: S.twin.fill(copy.deepcopy(tmpl)))
            if rt[0] != r[0]:
                S.alive = False
                bad("reset-equals-fresh", "fill of a refused value", r, rt, "differs from a fresh element")
        # nothing else changes: the model is not told about this value
        return viols, ("x", r[0]), False, False

    tmpl = cfg.pool[e]
    if cfg.kind == "fr":
        out = _call(cfg, lambda: _block(S.el, tmpl))
        S.model.fill_block(tmpl)
        n_judged = S.model.n
        for kind, feature, want, got in S.model.judge_block(out):
            bad(kind + sfx, feature, got, want, "block-aligned fill/request")
        c = canon_outcome(out)
        if S.twin is not None:
            tout = _call(cfg, lambda: _block(S.twin, tmpl))
            ct = canon_outcome(tout)
            if c != ct:
                bad("reset-equals-fresh", "request", c, ct,
                    "request() after reset differs from a fresh adapter given the same blocks")
            elif types_outcome(out) != types_outcome(tout):
                bad("reset-equals-fresh", "request (types of the numbers)",
                    (out[1], types_outcome(out)), (tout[1], types_outcome(tout)),
                    "request() after reset yields numbers of another type than a fresh adapter")
        if out[0] == "exc":
            S.alive = False
        nontrivial = n_judged > len(tmpl) or (after and S.filled_before_reset)
        return viols, ("b", c), nontrivial, True

    v = copy.deepcopy(tmpl)
    r = _call(cfg, lambda: S.el.fill(v))
    S.model.fill(tmpl)
    S.objs.append(v)
    if r[0] == "exc":
        S.alive = False
        bad("no-exception" + sfx, "fill raised " + r[1], r[1], "fill() returns", "value %r" % (tmpl,))
    if S.twin is not None:
        rt = _call(cfg, lambda: S.twin.fill(copy.deepcopy(tmpl)))
        if rt[0] != r[0] or (r[0] == "exc" and rt[1] != r[1]):
            S.alive = False
            bad("reset-equals-fresh", "fill", r, rt, "fill() after reset differs from a fresh element")
        elif r[0] == "ok":
            peeks("after fill")
    return viols, ("f", r[0]), False, False


def run_history(cfg, hist, mode=""):
    """Rebuild a fresh element and apply the whole history, judging every step.
    Returns (state, list of violations)."""
    S = State(cfg, mode)
    allv = []
    for e in hist:
        if not S.alive:
            break
        allv.extend(step(cfg, S, e)[0])
    return S, allv


def _ckey(cause):
    return tuple(sorted(cause.items()))


def shrink(cfg, hist, cause, mode=""):
    """Greedy: drop single events while a violation with the same cause remains."""
    want = _ckey(cause)
    hist = list(hist)
    changed = True
    while changed:
        changed = False
        for i in range(len(hist)):
            cand = hist[:i] + hist[i + 1:]
            _, vs = run_history(cfg, cand, mode)
            if any(_ckey(v[0]) == want for v in vs):
                hist = cand
                changed = True
                break
    _, vs = run_history(cfg, hist, mode)
    v = [v for v in vs if _ckey(v[0]) == want][0]
    return hist, v


def _readable(cfg, hist):
    out = []
    for e in hist:
        if e == "c":
            out.append("compute")
        elif e == "m":
            out.append("compute, each value taken and its context updated in place before the next is asked for")
        elif e == "r":
            out.append("reset")
        elif isinstance(e, str) and e.startswith("x"):
            out.append("fill (refused) " + repr(cfg.refused[int(e[1:])]))
        else:
            out.append(("block " if cfg.kind == "fr" else "fill ") + repr(cfg.pool[e]))
    return out


def run_shard(p, tier):
    cfg = BY_NAME[p["config"]]
    first = None if p["first"] is None else cfg.events[p["first"]]
    mode = _mode(p)
    depth = DEPTH[tier] - (1 if mode else 0)
    res = Result()
    seen = set()
    shrunk = set()
    frontier = [()]
    for level in range(1, depth + 1):
        nxt = []
        for h in frontier:
            if level == 1 and first is not None:
                events = ["c", "m"] if first == "c" and "m" in cfg.events else [first]
            else:
                events = cfg.events
            for e in events:
                S = State(cfg, mode)
                for pe in h:
                    step(cfg, S, pe)
                viols, outcome, nontrivial, observed = step(cfg, S, e)
                res.transitions += 1
                hist = h + (e,)
                res.case(nontrivial=nontrivial, outcome=outcome if observed else None)
                if observed:
                    res.traces += 1
                    if nontrivial:
                        res.sample({"config": cfg.name, "history": _readable(cfg, hist)}, 2)
                    if S.twin is not None:
                        res.count("observations_compared_with_twin")
                    res.count("observations_compared_with_model")
                for cause, got, want, note in viols:
                    ck = _ckey(cause)
                    if ck in shrunk:
                        res.violation({}, None, None, cause)    # counted; the first one is kept
                        continue
                    shrunk.add(ck)
                    small, v = shrink(cfg, hist, cause, mode)
                    if mode == "prelude":
                        cause = dict(cause, after_sibling_activity=True)
                    elif mode == "copy":
                        cause = dict(cause, element_is_a_deep_copy=True)
                    res.violation({"config": cfg.name, "history": small, "prelude": mode == "prelude",
                                   "copy": mode == "copy",
                                   "readable": _readable(cfg, small)}, v[1], v[2], cause, v[3])
                if S.alive:
                    k = S.key()
                    if k not in seen:
                        seen.add(k)
                        nxt.append(hist)
                else:
                    res.count("dead_branches")
        res.maximum("depth_completed", level)
        res.maximum("frontier_width", len(nxt))
        frontier = nxt
    if not p["first"]:
        # the initial state itself (empty history) belongs to the first shard of the configuration
        res.states += 1
    res.states += len(seen)
    return res


def replay(case):
    cfg = BY_NAME.get(case.get("config"))
    if cfg is None:
        raise ValueError("unknown configuration %r" % (case.get("config"),))
    res = Result()
    _, vs = run_history(cfg, case["history"], _mode(case))
    for cause, got, want, note in vs:
        res.violation(case, got, want, cause, note)
    return result_violations(res)


LEVEL_TEXT = ("explicit-state model checking of the real accumulator objects: breadth-first search over all "
              "histories (fill(v) | compute | reset)* up to depth 4 (quick) / 6 (thorough) for %d element "
              "configurations, de-duplicated on the frozen vars of the element and of its fresh twin; every "
              "compute is compared with an independent reference aggregate and with the twin (values and "
              "number types), under a consumer that takes all values at once and under one that updates the "
              "context of every received value in place before it takes the next; repeated one level "
              "shallower after sibling activity and for deep copies of "
              "the elements (original must stay undisturbed); the key an element adds under a "
              "user-chosen name (Count) over names of every shape relative to the filled contexts"
              % len(CONFIGS))
LEVEL_NOTE = ("bounded: histories up to the stated depth over per-element value pools of 4..9 values; "
              "user-chosen context keys (Count names) from a list of %d shapes, never empty; "
              "FillRequest adapters and Zip of FillRequest branches only block-aligned; NumpyHistogram "
              "outside the alphabet; "
              "the updating consumer touches contexts only and request() of the adapters is taken at once; "
              "object identity (aliasing as such) of yielded contexts is judged by C04, here only its "
              "effect on what a consumer receives" % (len(COUNT_NAMES) + 2))
TECHNIQUE = ("explicit-state BFS over the real transition function with state de-duplication; reference "
             "models (len, fold, Fraction sums, cell dictionary, partition by canonical key), a "
             "reset-vs-fresh twin and an original-vs-deep-copy pair as oracles; consumer schedules of "
             "compute (at once | value by value with in-place context updates, judged at receipt)")
