"""C20 - Advertised names exist, work with only their subpackage imported, and resolve.

Three exhaustive enumerations, each executed in FRESH interpreters (one per import configuration;
mc/ref/c20_child.py is the code that runs there, mc/ref/c20_drivers.py the canned drivers):

 (a) every (subpackage, name in __all__) pair: the name exists in an interpreter that imported only
     that subpackage, and ``from lena.X import *`` succeeds; every advertised Lena* exception derives
     from LenaException.
 (b) every canned driver of every public name (constructed with documented arguments, a few values
     pushed through its main methods), plus every single-argument perturbation of it with every value
     of a pool of unsuitable arguments (thorough: also all pairs of arguments), is executed twice: in
     an interpreter that imported only the element's own subpackage and in one that imported the whole
     framework. The step-by-step outcomes (canonical value or exception type) must be equal, and no
     step may end in NameError (raised inside lena) or AttributeError on a lena module.
 (c) every load site of every code object of every file under lena/ (after folding guards that are
     constant on this interpreter): each name the compiler classified as global must be in the real
     module dictionary or in builtins; each attribute chain rooted at a module object must resolve
     on the real module objects of the only-own-subpackage interpreter; each lena-internal
     ``from m import n`` must find n.
 (d) every error case that a docstring documents with a named exception (all :exc: roles of the
     docstrings under lena/ were gone through; mc/ref/c20_documented.py lists what is left out and why),
     for every argument of a small pool of the documented invalid kind (about 430 calls): the call raises
     an instance of one of the named classes. Where the docstring speaks about the ITEMS of a container
     argument, the invalid item is put at every place (mc/ref/c20_places.py, about 1300 calls more): in
     the first, the second or both of two like containers, at every index, at nesting depth 0, 1, 2, in
     lists and tuples (isclose: 5 kinds of item that are not numbers); the one non-increasing step of
     edges at every position of every axis of 1-, 2- and 3-dimensional edges; the inconvertible item of a
     selector container at every index, flat and nested. The table includes error cases reached through a second
     documented callable (GroupBy.fill with a context that to_string documents as unserializable: 8 kinds
     of item x 3 places in the context x 4 ways of selecting that part), run-time cases (fill, run,
     __call__, fill_into) and exceptions of a user's callable that are documented to pass through.
     Measured with it: which of the except clauses under lena/ that raise (the places where an error is
     translated into the documented one) the table enters.
"""
import json
import os
import subprocess
import sys

from mc import core
from mc.core import Result, result_violations
from mc.instrument import scratch_dir
from mc.ref import c20_drivers as drivers

ID = "C20"
LEVEL = "exploration"
DESIGN_REF = "DESIGN.md section 5, C20"
RULE = ("(a) every (subpackage, advertised name) pair counts; (b) every probe = one canned driver or one "
        "argument perturbation of it, executed in the only-own-subpackage and in the whole-framework "
        "interpreter; it is non-trivial when the element was constructed and at least one method call "
        "returned a value, or when a LenaException subclass was raised (a documented error path ran); a "
        "callable or argument that cannot even be looked up in the configured interpreter (AttributeError "
        "on a lena module, an error raised inside lena) is the observed outcome 'resolve' of the probe; "
        "(c) every load site (global name, module attribute chain, lena-internal from-import) of every "
        "code object counts; it is non-trivial when it resolves in a module dictionary (not builtins) "
        "or walks at least one attribute of a module object; (d) every call of the documented-error "
        "table counts and is non-trivial (the error path it names ran or the call is reported), one call "
        "per (documented case, invalid item, place of the item in its container argument); every "
        "except clause under lena/ whose body raises counts once and is non-trivial when a call of the "
        "table entered it. Cases are distinct by construction")
ASSUMPTIONS = [
    "import configurations: for each of the 9 subpackages 'only lena.X (and what it imports itself)' "
    "in a fresh interpreter, compared with 'all 9 subpackages imported' (alphabetical order; thorough: "
    "also reverse order)",
    "public elements are driven by hand-written canned drivers (documented minimal arguments, two or "
    "three flow values) and by replacing each argument in turn by each value of a fixed pool of "
    "unsuitable arguments; behaviours outside these drivers are not compared dynamically",
    "outcomes are compared as canonical reprs of returned values (no addresses; foreign objects by "
    "repr) and by exception type only; messages are never compared",
    "forbidden outcomes are exactly: NameError (incl. UnboundLocalError) whose raising frame is inside "
    "lena/, and AttributeError whose object is a lena module; plain TypeError/ValueError from unsuitable "
    "arguments are accepted in part (b) (for an arbitrary unsuitable argument the statement forbids only "
    "undefined names); where a docstring names the exception of an error case, part (d) demands it",
    "part (d) is a hand-made table over the :exc: roles of lena's docstrings: an error case is taken only "
    "when the docstring of the called object names the exception, or hands the argument to another lena "
    "callable whose docstring names it (GroupBy.fill -> to_string; Filter -> Selector); invalid values are "
    "small pools (e.g. unserializable context items: set, frozenset, plain object, bytes, complex, "
    "function, Decimal, range - as a value, in a nested dictionary, in a list); placement axis: for "
    "isclose, check_edges_increasing/histogram edges, and the selector containers of Filter/MapBins the "
    "invalid item stands at every leaf of 7 nested shapes (depth <= 3, length <= 3) / every step of every "
    "axis (dimension <= 3, length <= 4) / every index of containers of length <= 3 (flat and once nested), "
    "everything else in the case being valid and equal on both sides, so that every evaluation order has "
    "to reach it; mismatching dimensions are not judged (isclose: 'dimensions are not checked'); "
    "not in the table: ROOT "
    "elements, Cache.drop_cache, deprecated GroupPlots/_GroupBy, external programs. The list of raising "
    "except clauses entered by the table is a measurement (sys.settrace line events), not a verdict",
    "numpy and ROOT are absent: NumpyHistogram is probed only up to its ImportError; the ROOT elements "
    "are additionally driven with a behaviour-free stand-in module named ROOT (classes TFile, TTree, "
    "TGraphErrors) so that the code after 'import ROOT' runs; external programs are never started "
    "(subprocess.Popen raises FileNotFoundError as it does on this machine)",
    "static part: guards built only from sys.version_info and constants are folded with this "
    "interpreter's value (python 2 branches are dead); names are resolved in the real module "
    "dictionary after import (for a module that cannot be imported here: in its statically bound "
    "module-level names); attribute chains are followed only through module objects and only lena "
    "modules are judged; names reached through getattr()/globals() strings are not seen",
]
NONTRIVIAL_FLOOR = {"quick": 5400, "thorough": 21000}
BUDGET_S = {"quick": 240, "thorough": 1500}

CHILD = os.path.join(core.VERIF, "mc", "ref", "c20_child.py")
ORDER = list(drivers.SUBPACKAGES)


def describe(tier):
    if tier == "thorough":
        return ("9 only-X configurations vs whole framework in alphabetical and in reverse import order; "
                "%d canned driver entries; single-argument perturbations with a pool of %d values and "
                "all argument pairs with a pool of %d values; every load site of every file under lena/; "
                "the table of documented error cases (all :exc: roles of the docstrings gone through), "
                "with the invalid item of a container argument at every place (argument, index, depth <= 3)"
                % (len(drivers.ENTRIES), len(drivers.POOL_THOROUGH), len(drivers.POOL_PAIRS)))
    return ("9 only-X configurations vs whole framework (alphabetical import order); %d canned driver "
            "entries; single-argument perturbations with a pool of %d values; every load site of every "
            "file under lena/; the table of documented error cases (all :exc: roles of the docstrings "
            "gone through), with the invalid item of a container argument at every place (argument, "
            "index, depth <= 3)" % (len(drivers.ENTRIES), len(drivers.POOL_QUICK)))


# ------------------------------------------------------------------------------------------------
# shards
# ------------------------------------------------------------------------------------------------

def _lena_files():
    root = core.REPO
    out = {}
    for dp, dns, fns in os.walk(os.path.join(root, "lena")):
        dns.sort()
        for fn in sorted(fns):
            if not fn.endswith(".py"):
                continue
            rel = os.path.relpath(os.path.join(dp, fn), root)
            parts = rel.split(os.sep)
            sp = parts[1] if len(parts) > 2 else "core"   # lena/__init__.py is judged with core
            out.setdefault(sp, []).append(rel)
    return out


def shards(tier):
    out = []
    files = _lena_files()
    for sp in sorted(files):
        out.append({"kind": "static", "sp": sp, "files": files[sp]})
    group = 1
    for sp in ORDER:
        els = drivers.elements_of(sp)
        for i in range(0, len(els), group):
            out.append({"kind": "dyn", "sp": sp, "elements": els[i:i + group]})
    out.append({"kind": "documented"})
    return out


def run_documented(res, only_case=None):
    """(d) error cases that a docstring documents with a named exception (mc/ref/c20_documented.py): every
    listed call with every argument of its pool raises an instance of one of the named classes."""
    from mc.ref import c20_documented
    handlers = c20_documented.raising_handlers(core.REPO)
    cwd = os.getcwd()
    with scratch_dir("lena-verif-c20d-") as wd, c20_documented.HandlerTrace(handlers) as trace:
        os.chdir(wd)        # relative output directories of the table (Write("out")) stay in the scratch
        try:
            for e in c20_documented.entries():
                classes = tuple(c20_documented.exception_class(c) for c in e["exc"])
                for i, thunk in enumerate(e["thunks"]):
                    case = {"part": "d", "sp": "lena", "law": "documented-error", "doc": e["doc"], "case": i}
                    if only_case is not None and (only_case["doc"], only_case["case"]) != (e["doc"], i):
                        continue
                    try:
                        got = "returned " + repr(thunk())[:80]
                        ok = False
                    except Exception as x:  # noqa: judged by type
                        ok = isinstance(x, classes)
                        got = "raised " + type(x).__name__
                    res.case(nontrivial=True, outcome=("documented", e["doc"], i, got))
                    res.count("d_documented_error_cases")
                    if not ok:
                        cause = {"law": "documented-error", "doc": e["doc"].split(" ")[0],
                                 "observed": got if got.startswith("raised") else "returned"}
                        if e.get("place"):
                            cause["place"] = e["place"]     # placement axis (mc/ref/c20_places.py)
                        res.violation(case, got, "raises " + " or ".join(e["exc"]), cause)
        finally:
            os.chdir(cwd)
    if only_case is not None:
        return
    # how much of lena's error translation the table reaches: every except clause under lena/ whose
    # body raises, and whether a case of the table entered it (a measurement, never a verdict)
    missed = []
    for key in sorted(handlers, key=lambda k: handlers[k]):
        entered = key in trace.entered
        res.case(nontrivial=entered, outcome=("handler", handlers[key].split(":")[0], entered))
        res.count("d_raising_except_clauses_under_lena")
        if entered:
            res.count("d_raising_except_clauses_entered_by_the_table")
        else:
            missed.append(handlers[key])
            res.count("d_raising_except_clauses_not_entered[%s]" % handlers[key].split(":")[0])
    res.count("d_exc_roles_in_docstrings", c20_documented.exc_roles(core.REPO))
    res.sample({"part": "d", "raising except clauses not entered by the table": missed}, 3)
    res.sample({"part": "d", "sp": "lena", "law": "documented-error",
                "doc": "math/utils.py:26 clip: interval is not a container", "case": 0}, 3)


# ------------------------------------------------------------------------------------------------
# children
# ------------------------------------------------------------------------------------------------

_child_no = [0]
_SITE = []


def _site_packages():
    if not _SITE:
        import site
        _SITE.extend(p for p in site.getsitepackages() if os.path.isdir(p))
    return list(_SITE)


def run_child(config, jobs, base):
    """One fresh interpreter: set up *config*, run *jobs*, return their results."""
    _child_no[0] += 1
    wd = os.path.join(base, "c%04d" % _child_no[0])
    os.makedirs(wd)
    req = {"workdir": wd, "root": core.REPO, "config": config, "jobs": jobs}
    req_path = os.path.join(wd, "req.json")
    resp_path = os.path.join(wd, "resp.json")
    with open(req_path, "w") as f:
        json.dump(req, f)
    env = dict(os.environ)
    # -S: no site processing (about 0.15 s per interpreter here); the tree under test comes first on
    # sys.path, the interpreter's own site-packages (jinja2) after it; byte code of this run is kept in
    # the shard's scratch directory, never in the repository
    env["PYTHONPATH"] = os.pathsep.join([core.REPO] + _site_packages())
    env["PYTHONPYCACHEPREFIX"] = os.path.join(base, "pycache")
    env["PYTHONHASHSEED"] = "0"
    env.pop("PYTHONDONTWRITEBYTECODE", None)
    env["PYTHONWARNINGS"] = "ignore"
    for k in ("COVERAGE_PROCESS_START", "COVERAGE_PROCESS_CONFIG"):
        env.pop(k, None)
    proc = subprocess.run([sys.executable, "-S", CHILD, req_path, resp_path], env=env, cwd=wd,
                          stdin=subprocess.DEVNULL, stdout=subprocess.DEVNULL, stderr=subprocess.PIPE)
    if not os.path.exists(resp_path):
        raise RuntimeError("C20 child produced no response (rc=%s): %s"
                           % (proc.returncode, proc.stderr.decode("utf-8", "replace")[-2000:]))
    with open(resp_path) as f:
        resp = json.load(f)
    if not resp.get("ok"):
        raise RuntimeError("C20 child failed: %s" % resp.get("error"))
    return resp["results"]


def only(sp):
    return {"kind": "only", "subpackage": sp}


def whole(order):
    return {"kind": "whole", "order": list(order)}


# ------------------------------------------------------------------------------------------------
# part (a) and (c)
# ------------------------------------------------------------------------------------------------

def judge_names(res, names):
    sp = names["subpackage"]
    missing = []
    for n, ok in names["names"]:
        res.case(nontrivial=True, outcome=("name", sp, n, ok))
        res.count("a_advertised_names")
        if not ok:
            missing.append(n)
            res.violation({"part": "a", "sp": sp, "law": "advertised-name-exists", "name": n},
                          "lena.%s.__all__ lists %r, the module has no such attribute" % (sp, n),
                          "every name in __all__ exists",
                          {"law": "advertised-name-exists", "subpackage": sp, "name": n})
    res.case(nontrivial=True, outcome=("star", sp, names["star"]))
    res.count("a_star_imports")
    if names["star"] != "ok" and not missing:
        res.violation({"part": "a", "sp": sp, "law": "star-import"},
                      "from lena.%s import * raised %s" % (sp, names["star"]), "star import succeeds",
                      {"law": "star-import", "subpackage": sp, "exc": names["star"]})
    for n, ok in names["hierarchy"]:
        res.case(nontrivial=True, outcome=("hier", n, ok))
        if not ok:
            res.violation({"part": "a", "sp": sp, "law": "lena-exception-hierarchy", "name": n},
                          "%s is not a subclass of LenaException" % n, "subclass of LenaException",
                          {"law": "lena-exception-hierarchy", "name": n})
    res.sample({"part": "a", "sp": sp, "names": len(names["names"]), "star": names["star"]}, 1)


def judge_static(res, sp, records):
    for rec in records:
        res.count("c_files")
        if not rec["imported"]:
            res.count("c_files_not_importable_here")
        res.count("c_guards_folded", rec["folded"])
        for s in rec["sites"]:
            base = {"part": "c", "sp": sp, "file": rec["file"], "scope": s["scope"], "line": s.get("line")}
            if s["kind"] == "global":
                res.count("c_global_name_sites")
                res.case(nontrivial=s["where"] in ("module", "class"),
                         outcome=(rec["file"], s["scope"], s["name"], s["where"]))
                if not s["resolved"]:
                    res.violation(dict(base, law="global-name-resolves", name=s["name"]),
                                  "global name %r (line %s) is neither in the module dictionary of %s nor "
                                  "in builtins" % (s["name"], s.get("line"), rec["module"]),
                                  "every global name a function loads is defined",
                                  {"law": "global-name-resolves", "file": rec["file"], "scope": s["scope"],
                                   "name": s["name"]})
            elif s["kind"] in ("chain", "local_chain"):
                res.count("c_module_attribute_chains")
                steps = s.get("steps", 0)
                res.case(nontrivial=steps >= 1 or not s.get("ok", True),
                         outcome=(rec["file"], s["scope"], s["root"], tuple(s["attrs"][:steps + 1]),
                                  s.get("ok", True)))
                if not s.get("ok", True) and s.get("lena"):
                    chain = ".".join([s["failed_on"], s["missing"]])
                    res.violation(dict(base, law="module-attribute-resolves", chain=chain),
                                  "with only lena.%s imported, module %s has no attribute %r (line %s: %s.%s)"
                                  % (sp, s["failed_on"], s["missing"], s.get("line"), s["root"],
                                     ".".join(s["attrs"])),
                                  "every attribute chain on a lena module resolves after importing only "
                                  "the file's own subpackage",
                                  {"law": "module-attribute-resolves", "file": rec["file"],
                                   "scope": s["scope"], "chain": chain, "config": "only lena." + sp})
            elif s["kind"] == "from":
                res.count("c_from_import_sites")
                res.case(nontrivial=True, outcome=(rec["file"], s["scope"], s["module"], s["name"],
                                                   s.get("ok", True)))
                if not s.get("ok", True):
                    res.violation(dict(base, law="from-import-resolves", module=s["module"], name=s["name"]),
                                  "from %s import %s cannot be satisfied (%s)"
                                  % (s["module"], s["name"], s.get("exc") or "no such name"),
                                  "every lena-internal from-import finds its name",
                                  {"law": "from-import-resolves", "file": rec["file"], "scope": s["scope"],
                                   "module": s["module"], "name": s["name"]})
        res.sample({"part": "c", "file": rec["file"], "sites": len(rec["sites"]),
                    "imported_here": rec["imported"]}, 2)


def run_static(res, p, base):
    sp = p["sp"]
    names, public, static = run_child(only(sp), [{"job": "names", "subpackage": sp},
                                                  {"job": "public", "subpackage": sp},
                                                  {"job": "static", "files": p["files"]}], base)
    judge_names(res, names)
    judge_static(res, sp, static)
    # the advertised surface also exists (star import works) when the optional dependency jinja2 is not
    # installed - numpy and ROOT are absent on this machine anyway
    cfg = dict(only(sp), without=["jinja2"])
    try:
        (names2,) = run_child(cfg, [{"job": "names", "subpackage": sp}], base)
    except RuntimeError as e:
        res.case(nontrivial=True, outcome=("no-jinja2", sp, "import failed"))
        res.violation({"part": "a", "sp": sp, "law": "import-without-optional-dependency", "without": "jinja2"},
                      str(e)[-400:], "import lena.%s succeeds without jinja2" % sp,
                      {"law": "import-without-optional-dependency", "subpackage": sp, "without": "jinja2"})
    else:
        res.count("a_configurations_without_jinja2")
        before = len(res.viol)
        judge_names(res, names2)
        if len(res.viol) != before:
            for ck in list(res.viol)[before:]:
                res.viol[ck][1]["cause"]["without"] = "jinja2"
                res.viol[ck][1]["case"]["without"] = ["jinja2"]
    driven = set(drivers.elements_of(sp))
    res.count("b_public_names", len(public))
    res.count("b_public_names_without_canned_driver", len([n for n in public if n not in driven]))


# ------------------------------------------------------------------------------------------------
# part (b)
# ------------------------------------------------------------------------------------------------

def _summ(step):
    """(label, kind) where kind is the canonical value or the exception type."""
    label, status, val = step
    if status == "ok":
        return (label, "ok", val)
    return (label, "exc", val["type"])


def _forbidden(steps):
    out = []
    for label, status, val in steps:
        if status == "exc" and val.get("forbidden"):
            out.append((label, val))
    return out


def judge_probe(res, probe, r_only, wholes):
    """*wholes*: list of (order label, result) for the whole-framework configurations."""
    sp = probe["sp"]
    case = {"part": "b", "sp": sp, "probe": probe}
    so = r_only["steps"]
    constructed = bool(so) and so[0][1] == "ok"
    later_ok = any(s[1] == "ok" for s in so[1:])
    lena_exc = any(s[1] == "exc" and s[2].get("lena_exception") for s in so)
    if probe["drive"] in ("result", "none"):
        later_ok = later_ok or constructed
    res.case(nontrivial=(constructed and later_ok) or lena_exc,
             outcome=tuple(_summ(s) for s in so))
    res.count("b_probes")
    if not probe["site"]:
        res.count("b_canned_probes")
    if r_only["imported"]:
        res.count("b_probes_that_lazily_imported_a_lena_module")
    if lena_exc:
        res.count("b_probes_reaching_a_LenaException")
    reported = set()
    for cfg, r in [("only lena." + sp, r_only)] + [("whole framework (%s)" % lab, rw) for lab, rw in wholes]:
        for label, val in _forbidden(r["steps"]):
            fb = val["forbidden"]
            where = val.get("where") or [None, None, None]
            cause = {"law": "no-undefined-name-at-run-time", "exc": fb["exc"],
                     "name": fb.get("name") if fb["exc"] != "AttributeError-on-lena-module"
                     else "%s.%s" % (fb.get("module"), fb.get("name")),
                     "file": where[0], "scope": where[1]}
            key = json.dumps(cause, sort_keys=True)
            if key in reported:
                continue
            reported.add(key)
            res.violation(case, {"config": cfg, "step": label, "raised": val["type"], "at": where,
                                 "forbidden": fb},
                          "no NameError raised inside lena and no AttributeError on a lena module",
                          cause)
    if reported:
        return
    a = [_summ(s) for s in so]
    for lab, rw in wholes:
        b = [_summ(s) for s in rw["steps"]]
        if a == b:
            continue
        # first differing step
        k = 0
        while k < min(len(a), len(b)) and a[k] == b[k]:
            k += 1
        sa = a[k] if k < len(a) else ("<end>", "end", None)
        sb = b[k] if k < len(b) else ("<end>", "end", None)
        kind = lambda s: s[2] if s[1] == "exc" else s[1]
        res.violation(case, {"only lena." + sp: list(sa), "whole framework (%s)" % lab: list(sb)},
                      "the same outcome in both configurations",
                      {"law": "import-independence", "subpackage": sp, "element": probe["element"],
                       "tag": probe["tag"], "step": sa[0] if sa[0] != "<end>" else sb[0],
                       "only": kind(sa), "whole": kind(sb)})
        break


def _pools(tier):
    if tier == "thorough":
        return drivers.POOL_THOROUGH, drivers.POOL_PAIRS
    return drivers.POOL_QUICK, None


def _whole_orders(tier):
    orders = [("alphabetical", ORDER)]
    if tier == "thorough":
        orders.append(("reverse", list(reversed(ORDER))))
    return orders


def run_dyn(res, p, tier, base):
    sp = p["sp"]
    entries = [e for e in drivers.entries_for(sp) if e["element"] in p["elements"]]
    pool, pairs = _pools(tier)
    job = {"job": "expand_run", "entries": entries, "default_flow": drivers.DEFAULT_FLOW, "pool": pool,
           "pool_pairs": pairs}
    # only-X: a probe that made lena import something ends its interpreter; the next probe starts in
    # a new fresh one, so a lazily imported sibling subpackage never hides a missing import later
    r_only = {}
    batches = []
    start = 0
    total = None
    while True:
        out = run_child(only(sp), [dict(job, start=start, stop_on_import=True)], base)[0]
        total = out["total"]
        for r in out["results"]:
            if r["timeout"]:
                raise RuntimeError("C20 probe did not finish within its time limit: %s" % r["id"])
            r_only[r["index"]] = r
        res.count("b_fresh_interpreters")
        nxt = out["next"]
        end = nxt if nxt is not None else total
        batches.append((start, end))
        if nxt is None:
            break
        start = nxt
    if sorted(r_only) != list(range(total)):
        raise RuntimeError("C20: probes missing from the only-%s run" % sp)
    wholes = []
    for lab, order in _whole_orders(tier):
        rw = {}
        for (s, e) in batches:
            out = run_child(whole(order), [dict(job, start=s, end=e, stop_on_import=False)], base)[0]
            res.count("b_fresh_interpreters")
            for r in out["results"]:
                if r["timeout"]:
                    raise RuntimeError("C20 probe did not finish within its time limit: %s" % r["id"])
                rw[r["index"]] = r
        if sorted(rw) != list(range(total)):
            raise RuntimeError("C20: probes missing from the whole-framework run")
        wholes.append((lab, rw))
    for i in range(total):
        probe = r_only[i]["probe"]
        for lab, rw in wholes:
            if rw[i]["probe"]["id"] != probe["id"]:
                raise RuntimeError("C20: probe enumeration differs between configurations")
        judge_probe(res, probe, r_only[i], [(lab, rw[i]) for lab, rw in wholes])
        if not probe["site"]:
            res.sample({"part": "b", "probe": probe["id"],
                        "outcome": [list(_summ(s))[:2] for s in r_only[i]["steps"]][:6]}, 2)


# ------------------------------------------------------------------------------------------------

def run_shard(p, tier):
    res = Result()
    with scratch_dir("lena-verif-c20-") as base:
        if p["kind"] == "static":
            run_static(res, p, base)
        elif p["kind"] == "documented":
            run_documented(res)
        else:
            run_dyn(res, p, tier, base)
    return res


def replay(case):
    res = Result()
    if case.get("part") == "d":
        run_documented(res, only_case=case)
        return result_violations(res)
    with scratch_dir("lena-verif-c20-") as base:
        part = case.get("part")
        sp = case["sp"]
        if part == "a":
            cfg = only(sp)
            if case.get("without"):
                cfg = dict(cfg, without=list(case["without"]))
            try:
                names = run_child(cfg, [{"job": "names", "subpackage": sp}], base)[0]
            except RuntimeError as e:
                if case.get("law") == "import-without-optional-dependency":
                    return [{"case": case, "cause": {"law": case["law"]}, "observed": str(e)[-400:],
                             "expected": "import succeeds"}]
                raise
            judge_names(res, names)
            out = [v for v in result_violations(res)
                   if v["case"].get("law") == case.get("law") and v["case"].get("name") == case.get("name")]
            return out
        if part == "c":
            static = run_child(only(sp), [{"job": "static", "files": [case["file"]]}], base)[0]
            judge_static(res, sp, static)
            keys = ("law", "file", "scope", "name", "chain", "module")
            return [v for v in result_violations(res)
                    if all(v["case"].get(k) == case.get(k) for k in keys)]
        if part == "b":
            probe = case["probe"]
            r_only = run_child(only(sp), [{"job": "probes", "probes": [probe]}], base)[0][0]
            wholes = []
            for lab, order in _whole_orders("thorough"):
                rw = run_child(whole(order), [{"job": "probes", "probes": [probe]}], base)[0][0]
                wholes.append((lab, rw))
            judge_probe(res, probe, r_only, wholes)
            return result_violations(res)
    raise ValueError("unknown C20 case %r" % (case,))


LEVEL_TEXT = ("bounded exhaustive exploration over import configurations and programs: all 9 'only "
              "subpackage X' fresh interpreters against the whole framework; every name of every __all__; "
              "every canned driver of every public name and every single-argument perturbation of it "
              "with a pool of unsuitable values (thorough: all argument pairs, second import order), "
              "executed on the real code in both configurations; every load site (global name, module "
              "attribute chain, from-import) of every code object of every file under lena/ resolved "
              "on the real module objects; every error case that a docstring documents with a named "
              "exception (about 430 calls, also through a second documented callable and at run time; about "
              "1300 more that put the invalid item of a container argument at every place: which argument, "
              "which index, which nesting depth, list or tuple), "
              "with the raising except clauses of lena/ that these calls enter measured")
LEVEL_NOTE = ("part (c) enumerates all load sites on the live interpreter state instead of all paths (the "
              "property's own quantifier: 'checked statically against module scope and builtins'); "
              "part (b) compares only the behaviours reached by the canned drivers and their argument "
              "perturbations; numpy/ROOT code is reached dynamically only through a behaviour-free ROOT "
              "stand-in; names built from strings (getattr, globals()) are not followed; part (d) is a "
              "table made by reading the docstrings: error cases that no docstring names are not judged, "
              "and the except clauses it does not enter are counted per file in the evidence counters")
TECHNIQUE = ("fresh-interpreter differential execution per import configuration plus exhaustive bytecode "
             "load-site resolution against real module dictionaries, plus a table of documented error cases "
             "judged by exception class with traced coverage of lena's raising except clauses")
