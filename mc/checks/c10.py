"""C10 - Elements pass values they do not select through unchanged.

Exhaustive enumeration (driver E1) over the ten selective elements (ToCSV, Write, RenderLaTeX,
LaTeXToPDF, PDFToPNG, HistToGraph, MapBins, IterateBins, RunIf, MapGroup(map_scalars=False)), each in
several configurations:

  flow = an interleaving of a list A of values the element selects (|A| <= 2) with a list B of
  values it does not select (|B| <= 3, from a pool of 16 foreign values per element), ALL
  interleavings, ALL lists; for LaTeXToPDF additionally ALL completion schedules of the (fake)
  converter processes.

The elements that select with a Selector (RunIf, MapBins, IterateBins) are also run in "decline"
configurations: their selector is tolerant (raise_on_error=False, documented: "If an exception occurs
... the result is False") and the user's test FAILS on every value it is not meant for, so the foreign
values are unselected because of an exception. Axis: element x form of the tolerant selector
(Selector(f), Selector([f]), Selector((g, f)), a tolerant Selector as an item of an ordinary one,
SelectContext) x the class of the exception (every class of builtins and lena.core derived from
Exception and a class of the user's own: 74), judged by the same laws.

Settings axis (mc/ref/c10_settings.py): every element documents context keys it reads or writes for
the values it selects (output.duplicate_last_bin, output.filename / dirname / fileext / changed,
output.template, histogram.to_graph, value, variable, bins ...).  Foreign values that CARRY these keys
are enumerated as a product: carrier (why the value is unselected: data of another type - number,
string, bytes, unknown object, another structure -, another file type, other bins, a disabling
context) x fragment (which documented key, with values on both sides of the element's configuration),
all B lists of one and of two such values, all A lists, all interleavings, judged by the same laws.

Shape axis (c10_alphabet.shape_pool): the content of every value the element selects, held by
something that is not a (data, context) tuple - a list [data, context], a one-shot iterator over data
and context - and one-shot iterators of 1, 2 and 3 numbers: plain data that no element selects; it must
pass as the same object and (foreign-unmutated) an iterator must not have been advanced.  MapBins is
also run with the documented option get_example_bin (the user's "arbitrary bin" is the last cell) on
histograms whose first and last cells differ in type.

Every flow is run through a fresh real element in a private directory and judged by the
metamorphic relation run(interleave(A, B)) ~ interleave(run(A), B):

  * foreign-identity   every member of B comes out exactly once, as the very same object (is),
                       in the order of B;
  * foreign-unmutated  no member of B was modified in place;
  * selected-independent  the outputs that are not members of B equal (deep, canonical form, both at
                       the moment they are yielded and after the run) the outputs of running A alone
                       (as a multiset for LaTeXToPDF when processes finish early; as a sequence when no
                       process finishes before it is waited for);
  * exception          no exception that running A alone does not raise (types only);
  * filesystem         the directory tree (directories, files, contents, which files were rewritten)
                       after the run equals the tree after running A alone; for A = [] it equals the
                       initial tree;
  * subprocess-launches  the converter commands launched equal those launched for A alone.
"""
import contextlib
import io
import itertools
import os
import shutil
import warnings

import lena.core
import lena.flow

from mc.core import Result, result_violations
from mc.instrument import scratch_dir
from mc.ref import c10_alphabet as al
from mc.ref import c10_settings as st

freeze = al.canon

ID = "C10"
LEVEL = "exploration"
DESIGN_REF = "DESIGN.md section 5, C10"
RULE = ("every (element configuration, list A of selected values, list B of foreign values, interleaving "
        "of A and B, converter completion schedule) is executed once on a fresh real element in a "
        "private directory and compared with the run of A alone; a case is non-trivial when both A and "
        "B are non-empty and A alone produces at least one output (a real interleaving of selected "
        "and foreign values) - in a decline configuration (the tolerant selector's test raises on the "
        "values it is not meant for) in addition the test must really have failed on a foreign value of "
        "the flow; the B lists of the settings axis (foreign values = carrier x fragment of the "
        "element's documented context keys) and of the shape axis (the content of a selected value in a "
        "list or a one-shot iterator instead of a tuple) are enumerated and judged in the same way; cases are "
        "distinct by construction of the enumeration")
ASSUMPTIONS = [
    "foreign (unselected) values are chosen by the documented selection rule of each element: bare "
    "numbers, None, strings (not for Write), tuples that are not (data, context) pairs, pairs with "
    "empty / unrelated / disabling context (output.write, output.to_csv, histogram.to_graph False), "
    "output not a dictionary, other file types, foreign objects, histograms and graphs where not selected",
    "settings axis: an unselected value may carry any of the context keys the element documents for "
    "the values it selects (a number, a string, an unknown object, another structure, a value of "
    "another file type or with a disabling context, with output.duplicate_last_bin, output.filename, "
    "output.changed, output.template, histogram.to_graph True, value, variable ...); the keys mean "
    "nothing for a value the element leaves alone. Not combined: a disabling carrier with the "
    "fragment that sets the same key; a string or other iterable with a group key (MapGroup)",
    "shape axis: a value with context is a tuple (data, context) (lena.flow.get_context: 'a possible "
    "(data, context) pair'); a list [data, context] and a one-shot iterator are plain data of a type "
    "that none of the ten elements (in the configurations of the alphabet) selects; the state of an "
    "iterator (its position) belongs to the value, so advancing it is modifying the value",
    "MapBins get_example_bin: the user's callable returns the cell with the last index on each axis of "
    "a histogram or an array of bins; a histogram is selected iff select_bins accepts that cell",
    "a string whose context is malformed for Write (output not a dictionary) and a string with a "
    "group context for MapGroup are selected-but-malformed values and are outside the alphabet",
    "pdflatex / pdftoppm are replaced by a fake subprocess.Popen owned by the explorer (writes a digest "
    "file when launched; poll() answers follow an enumerated schedule; return code always 0)",
    "one selected value per output file for LaTeXToPDF / PDFToPNG (no two processes for one file)",
    "file ages are owned by the explorer (sentinel mtimes); 'touching the file system' means creating, "
    "removing, rewriting files or creating directories, not reading",
    "decline configurations: the user's test answers True for the values it is meant for and raises "
    "an exception of one class for every other value; the classes are those derived from Exception "
    "(builtins, lena.core, one user-defined), not BaseException-only classes such as KeyboardInterrupt; "
    "the selector is built with raise_on_error=False (Selector, its list / tuple forms, a tolerant "
    "Selector inside an ordinary one, SelectContext), for which Selector documents the result False",
    "the relative position of a foreign value with respect to the outputs for selected values is "
    "counted (counter positional_deviations) but not judged: the statement fixes the relative order "
    "of the unselected values only",
]
NONTRIVIAL_FLOOR = {"quick": 100000, "thorough": 1000000}
BUDGET_S = {"quick": 200, "thorough": 2400}

MAX_A = 2


def _max_b(tier):
    return 3


def describe(tier):
    if tier == "thorough":
        return ("10 elements in %d configurations; |A| <= 2 (all ordered lists over the element's pool "
                "of selected values), |B| <= 3 (all 16 + 256 + 4096 ordered lists over the element's 16 "
                "foreign values; LaTeXToPDF: |B| = 3 over its 8 most different foreign values, 512 "
                "lists), all interleavings; LaTeXToPDF: all completion schedules of the fake converter "
                "processes; " % _n_cfgs()) + _describe_settings(tier) + _describe_shapes(tier) + _describe_decline(tier)
    return ("10 elements in %d configurations; |A| <= 2, |B| <= 2 over the element's 16 foreign values "
            "(all 16 + 256 lists) and |B| = 3 over its %d most different foreign values (%d lists), all "
            "interleavings; LaTeXToPDF: 3 of its 5 kinds of selected values and all completion schedules "
            "of the fake converter processes; " % (_n_cfgs(), al.SUBPOOL, al.SUBPOOL ** 3)) \
        + _describe_settings(tier) + _describe_shapes(tier) + _describe_decline(tier)


def _describe_shapes(tier):
    n = sum(len(al.shape_pool(k, c, tier)) for k in al.KINDS for c in al.configs(k))
    return ("shape axis: in every configuration the content of every selected value as a list and as "
            "a one-shot iterator, and one-shot iterators of 1-3 numbers (%d values in all), |A| <= 2, "
            "|B| %s, all interleavings; " % (n, "<= 2" if tier == "thorough" else "= 1"))


def _describe_settings(tier):
    n1 = sum(len(st.pool(k, c, tier, 1)) for k in al.KINDS for c in al.configs(k))
    n2 = sum(len(st.pool(k, c, tier, 2)) ** 2 for k in al.KINDS for c in al.configs(k))
    return ("settings axis: in every configuration the foreign values that carry the element's "
            "documented context keys (carrier: 4-5 ways of being unselected x fragment: 2-7 keys / "
            "values per element; %d values in all), |A| <= 2, every B list of one such value and %s"
            "(%d lists), all interleavings; "
            % (n1, "every B list of two " if tier == "thorough" else
               "every B list of two over the first %d carriers " % st.QUICK_CARRIERS_2, n2))


def _describe_decline(tier):
    n = sum(len(al.decline_configs(k, tier)) for k in al.DECLINE_KINDS)
    if tier == "thorough":
        return ("RunIf, MapBins, IterateBins in %d more configurations whose tolerant selector declines "
                "by raising (5 / 4 / 4 forms of the selector x all %d exception classes), |A| <= 2, "
                "|B| <= 2 over a pool of 16 (RunIf) / 8 foreign values, |B| = 3 over its first 3"
                % (n, len(al.DECLINE_EXC_NAMES)))
    return ("RunIf, MapBins, IterateBins in %d more configurations whose tolerant selector declines by "
            "raising (forms Selector(f) and SelectContext x all %d exception classes, the 3 container "
            "forms x Exception and its %d direct subclasses), |A| <= 2, |B| <= 1 over a pool of 16 "
            "(RunIf) / 8 foreign values, |B| = 2 over its first 3"
            % (n, len(al.DECLINE_EXC_NAMES), len(al.DECLINE_EXC_ROOTS) - 1))


def _n_cfgs():
    return sum(len(al.configs(k)) for k in al.KINDS)


# ------------------------------------------------------------------------------------------------
# enumeration
# ------------------------------------------------------------------------------------------------

def a_lists(kind, cfg, tier):
    pool = al.a_pool(kind, cfg, tier)
    out = [()]
    for n in range(1, MAX_A + 1):
        if al.a_repeatable(kind):
            out.extend(itertools.product(pool, repeat=n))
        else:
            out.extend(itertools.permutations(pool, n))
    return out


def patterns(na, nb):
    """All interleavings of na selected and nb foreign values, as strings over 'a', 'b'."""
    n = na + nb
    out = []
    for pos in itertools.combinations(range(n), na):
        s = ["b"] * n
        for p in pos:
            s[p] = "a"
        out.append("".join(s))
    return out


def shards(tier):
    out = []
    for blen in range(0, _max_b(tier) + 1):
        for kind in al.KINDS:
            for cfg in al.configs(kind):
                if blen == 0:
                    out.append({"kind": kind, "cfg": cfg, "blen": 0, "prefix": [],
                                "bound": "|B|<=0"})
                    continue
                pool = al.b_pool_for(kind, cfg, blen, tier)
                plen = 1 if blen <= 2 else 2
                for pre in itertools.product(pool, repeat=plen):
                    out.append({"kind": kind, "cfg": cfg, "blen": blen, "prefix": list(pre),
                                "bound": "|B|<=%d" % blen})
        if 1 <= blen <= SETTINGS_MAX_B:
            out.extend(_setting_shards(blen, tier))
        if blen == _decline_max_b(tier):
            out.extend(_decline_shards(tier))
        if blen == 1:
            out.extend(_shape_shards(tier))
    return out


# the shape axis (c10_alphabet.shape_pool): one shard = one element configuration, all B lists of one
# value (thorough: and of two values)
def _shape_shards(tier):
    out = []
    for kind in al.KINDS:
        for cfg in al.configs(kind):
            for blen in ((1, 2) if tier == "thorough" else (1,)):
                out.append({"kind": kind, "cfg": cfg, "blen": blen, "prefix": [], "shapes": 1,
                            "bound": "|B|<=%d" % blen})
    return out


# the settings axis (mc/ref/c10_settings.py): foreign values that carry the settings the element reads.
# One shard = one element configuration and all B lists of one value / all B lists with one first value
SETTINGS_MAX_B = 2


def _setting_shards(blen, tier):
    out = []
    for kind in al.KINDS:
        for cfg in al.configs(kind):
            pool = st.pool(kind, cfg, tier, blen)
            if not pool:
                continue
            prefixes = [[]] if blen == 1 else [[b] for b in pool]
            for pre in prefixes:
                out.append({"kind": kind, "cfg": cfg, "blen": blen, "prefix": pre, "settings": 1,
                            "bound": "|B|<=%d" % blen})
    return out


# the configurations whose selector declines by raising: one shard = one element, one form of the
# selector, DECLINE_GROUP exception classes, all B lists of the tier
DECLINE_GROUP = {"RunIf": 4, "MapBins": 2, "IterateBins": 8}


def _decline_max_b(tier):
    return 3 if tier == "thorough" else 2


def _decline_shards(tier):
    out = []
    for kind in al.DECLINE_KINDS:
        group = DECLINE_GROUP[kind]
        for form in al.decline_forms(kind):
            names = al.decline_excs(form, tier)
            for i in range(0, len(names), group):
                out.append({"kind": kind, "cfg": "decline:" + form, "excs": names[i:i + group],
                            "blen": _decline_max_b(tier), "prefix": [],
                            "bound": "|B|<=%d" % _decline_max_b(tier)})
    return out


def decline_b_lists(kind, tier):
    """B lists of a decline configuration: |B| <= 1 over the whole pool; quick: |B| = 2 over its first
    three values; thorough: |B| = 2 over the whole pool and |B| = 3 over its first three values."""
    pool = al.decline_b_pool(kind)
    out = [()] + [(b,) for b in pool]
    out.extend(itertools.product(pool if tier == "thorough" else pool[:3], repeat=2))
    if tier == "thorough":
        out.extend(itertools.product(pool[:3], repeat=3))
    return out


def b_lists(p, tier):
    kind, cfg, blen = p["kind"], p["cfg"], p["blen"]
    if blen == 0:
        return [()]
    if p.get("shapes"):
        pool = al.shape_pool(kind, cfg, tier)
    elif p.get("settings"):
        pool = st.pool(kind, cfg, tier, blen)
    else:
        pool = al.b_pool_for(kind, cfg, blen, tier)
    pre = tuple(p["prefix"])
    return [pre + rest for rest in itertools.product(pool, repeat=blen - len(pre))]


# ------------------------------------------------------------------------------------------------
# execution of one flow on the real element
# ------------------------------------------------------------------------------------------------

class _Flow(object):
    """Iterator over the flow that counts how many values were requested."""

    def __init__(self, values):
        self.values = values
        self.pulled = 0

    def __iter__(self):
        return self

    def __next__(self):
        if self.pulled >= len(self.values):
            raise StopIteration
        v = self.values[self.pulled]
        self.pulled += 1
        return v


class _Dirs(object):
    """Working directories of one shard: an empty one that is reused as long as it stays empty
    (elements that must never touch the file system) and a fresh one per case otherwise."""

    def __init__(self, root):
        self.root = root
        self.n = 0
        self.empty = os.path.join(root, "empty")
        os.mkdir(self.empty)

    @contextlib.contextmanager
    def case_dir(self, files, fs_kind):
        if not files and not fs_kind:
            os.chdir(self.empty)
            try:
                yield
            finally:
                os.chdir(self.root)
                if os.listdir(self.empty):
                    shutil.rmtree(self.empty, ignore_errors=True)
                    os.mkdir(self.empty)
            return
        self.n += 1
        d = os.path.join(self.root, "c%d" % self.n)
        os.mkdir(d)
        os.chdir(d)
        try:
            yield
        finally:
            os.chdir(self.root)
            shutil.rmtree(d, ignore_errors=True)


def execute(dirs, kind, cfg, a_names, b_names, pattern, plan):
    """Run the real element on the interleaving; return the observations."""
    files = al.initial_files(kind, cfg, a_names)
    fs_kind = kind in al.FS_KINDS
    with dirs.case_dir(files, fs_kind):
        al.populate(files)
        env = al.FakeEnvironment(plan)
        al.install_fake(env)
        el = al.build(kind, cfg)
        A = [al.make_a(kind, n) for n in a_names]
        B = [st.make_b(n) for n in b_names]
        ia = ib = 0
        flow_vals, flow_names = [], []
        for ch in pattern:
            if ch == "a":
                flow_vals.append(A[ia]); flow_names.append(("selected", a_names[ia])); ia += 1
            else:
                flow_vals.append(B[ib]); flow_names.append(("foreign", b_names[ib])); ib += 1
        b_before = [freeze(b) for b in B]
        declined0 = al.DECLINED[0]
        flow = _Flow(flow_vals)
        outs = []       # (object, frozen at yield, pulled at yield)
        exc = None
        try:
            for r in el.run(flow):
                outs.append((r, freeze(r), flow.pulled))
        except Exception as e:  # noqa: types are compared, never messages
            exc = type(e).__name__
        exc_at = flow_names[flow.pulled - 1] if (exc and flow.pulled) else None
        b_after = [freeze(b) for b in B]
        end_frozen = [freeze(r) for r, _, _ in outs]
        if files or fs_kind:
            snap = al.snapshot(files)
        else:
            snap = al.snapshot(files) if os.listdir(".") else ()
    return {"outs": outs, "end": end_frozen, "exc": exc, "exc_at": exc_at, "pulled": flow.pulled,
            "B": B, "b_before": b_before, "b_after": b_after, "snap": snap,
            "commands": [tuple(c) for c in env.commands], "polls": list(env.polls),
            "flow_names": flow_names, "initial": _initial_snapshot(files),
            "declined": al.DECLINED[0] - declined0}


def _initial_snapshot(files):
    """What the directory looks like before the element runs, computed without the file system."""
    out = set()
    for path, content, rank in files:
        p = os.path.normpath(path)
        out.add((p, "file", content, False))
        d = os.path.dirname(p)
        while d:
            out.add((d, "dir", "", False))
            d = os.path.dirname(d)
    return tuple(sorted(out))


# ------------------------------------------------------------------------------------------------
# the oracle
# ------------------------------------------------------------------------------------------------

def split_outputs(obs):
    """Attribute every output either to a member of B (by identity) or to the selected values.
    Returns (a_outs, a_end, problems, n_matched) where problems is a list of (how, index in B)."""
    B = obs["B"]
    j = 0
    seen = [0] * len(B)
    a_outs, a_end, problems, positional = [], [], [], 0
    # position of the j-th foreign value in the flow
    bpos = [i for i, (k, _) in enumerate(obs["flow_names"]) if k == "foreign"]
    for idx, (r, fr, pulled) in enumerate(obs["outs"]):
        if j < len(B) and r is B[j]:
            seen[j] += 1
            if pulled != bpos[j] + 1:
                positional += 1
            j += 1
            continue
        hit = None
        for k in range(len(B)):
            if r is B[k]:
                hit = k
                break
        if hit is None:
            a_outs.append(fr)
            a_end.append(obs["end"][idx])
        elif hit < j:
            problems.append(("duplicated", hit))
        else:
            problems.append(("reordered", hit))
            seen[hit] += 1
    return a_outs, a_end, problems, seen, positional


def expected_b_count(obs_ref, obs):
    """How many members of B must have come out: all of them, unless running A alone raises, in
    which case only those that precede the selected value at which it raises."""
    nb = sum(1 for k, _ in obs["flow_names"] if k == "foreign")
    if obs_ref["exc"] is None:
        return nb
    # A alone raised while processing its value number ref_pulled (1-based)
    fatal = obs_ref["pulled"]
    seen_a = 0
    count = 0
    for k, _ in obs["flow_names"]:
        if k == "selected":
            seen_a += 1
            if seen_a == fatal:
                return count
        else:
            count += 1
    return count


def _snap_diff(got, want):
    g = dict((p, (k, c, rw)) for p, k, c, rw in got)
    w = dict((p, (k, c, rw)) for p, k, c, rw in want)
    for p in sorted(set(g) | set(w)):
        if p not in w:
            return ("created-directory" if g[p][0] == "dir" else "created-file"), p
        if p not in g:
            return "removed", p
        if g[p][1] != w[p][1] or g[p][0] != w[p][0]:
            return "content", p
        if g[p][2] != w[p][2]:
            return "rewritten", p
    return None, None


def _coarse(cfg):
    """'decline:<form>' for the configurations 'decline:<form>:<exception class>'."""
    return "decline:" + al.decline_parts(cfg)[0] if al.is_decline(cfg) else cfg


def judge(res, case, obs, ref, kind, cfg, all_none_plan):
    """Compare the observations of the interleaved flow with those of A alone."""
    b_names = case["b"]
    found = []

    def report(law, observed, expected, cause, note=""):
        c = {"law": law, "element": kind}
        c.update(cause)
        res.violation(case, observed, expected, c, note)
        found.append(law)

    a_outs, a_end, problems, seen, positional = split_outputs(obs)
    want_b = expected_b_count(ref, obs)

    # the signature of a violation does not name the exception class of a decline configuration
    # (one defect, one cause): only whether the exception that came out is the selector's own
    cause_cfg = _coarse(cfg)
    own = al.decline_parts(cfg)[1] if al.is_decline(cfg) else None

    # exception (types only): nothing that A alone does not raise
    if obs["exc"] != ref["exc"]:
        at = obs["exc_at"] or ref["exc_at"] or ("none", "none")
        cause_exc, cause_at = obs["exc"], at[1]
        if own is not None:
            cause_exc = "the exception of the user's test" if obs["exc"] == own else obs["exc"]
            if at[0] == "foreign":
                cause_at = "a declined value"
        report("exception", {"raised": obs["exc"], "while_processing": list(at)},
               {"raised": ref["exc"]},
               {"cfg": cause_cfg, "exc": cause_exc, "at_kind": at[0], "at": cause_at})
        # the remaining laws are judged on what was yielded before the exception only where
        # that is meaningful: identity / mutation of the values that did come out
        want_b = min(want_b, sum(1 for s in seen if s))

    # identity and order of the foreign values
    for how, k in problems:
        report("foreign-identity", {"how": how, "foreign": b_names[k]},
               "every member of B exactly once, in order",
               {"how": how, "foreign": st.cause_name(b_names[k])})
        break
    if not problems:
        for k in range(want_b):
            if seen[k] != 1:
                report("foreign-identity",
                       {"how": "missing", "foreign": b_names[k],
                        "outputs": [repr(r)[:80] for r, _, _ in obs["outs"]]},
                       "the very same object is yielded",
                       {"how": "missing", "foreign": st.cause_name(b_names[k])})
                break

    # no foreign value modified in place
    for k in range(len(b_names)):
        if obs["b_before"][k] != obs["b_after"][k]:
            report("foreign-unmutated", {"foreign": b_names[k], "after": obs["b_after"][k]},
                   {"before": obs["b_before"][k]}, {"foreign": st.cause_name(b_names[k])})
            break

    # outputs for the selected values
    if "foreign-identity" not in found and "exception" not in found:
        r_outs = [fr for _, fr, _ in ref["outs"]]
        r_end = ref["end"]
        if kind == "LaTeXToPDF" and not all_none_plan:
            same = sorted(map(repr, a_outs)) == sorted(map(repr, r_outs)) and \
                sorted(map(repr, a_end)) == sorted(map(repr, r_end))
            order_only = False
        else:
            same = a_outs == r_outs and a_end == r_end
            order_only = (not same) and sorted(map(repr, a_outs)) == sorted(map(repr, r_outs))
        if not same:
            if len(a_outs) != len(r_outs):
                diff = "count"
            elif order_only:
                diff = "order"
            elif a_outs != r_outs and sorted(map(repr, a_outs)) != sorted(map(repr, r_outs)):
                diff = "content"
            else:
                diff = "content-after-run"
            report("selected-independent", {"outputs": a_outs}, {"outputs_of_A_alone": r_outs},
                   {"cfg": cause_cfg, "diff": diff})

    # the file system
    want_snap = ref["snap"] if case["a"] else obs["initial"]
    if obs["snap"] != want_snap:
        diff, path = _snap_diff(obs["snap"], want_snap)
        report("filesystem", {"diff": diff, "path": path, "tree": obs["snap"]}, {"tree": want_snap},
               {"diff": diff, "foreign_only": not case["a"]})

    # converter processes launched
    if "exception" not in found:
        got_c, want_c = obs["commands"], ref["commands"]
        if got_c != want_c:
            report("subprocess-launches", {"commands": got_c}, {"commands": want_c},
                   {"diff": "extra" if len(got_c) > len(want_c) else "other"})
    return found, positional, a_outs


# ------------------------------------------------------------------------------------------------
# one case (all converter schedules of one interleaving)
# ------------------------------------------------------------------------------------------------

def _plans(polls):
    """All completion schedules given how often each launched process is polled when none of
    them finishes early: process j finishes at its k-th poll (k = 1..polls[j]) or not before it is
    waited for (None)."""
    choices = [[None] + list(range(1, n + 1)) for n in polls]
    return [list(p) for p in itertools.product(*choices)]


def reference(dirs, cache, kind, cfg, a_names):
    key = (kind, cfg, a_names)
    ref = cache.get(key)
    if ref is None:
        ref = execute(dirs, kind, cfg, a_names, (), "a" * len(a_names), ())
        cache[key] = ref
    return ref


def check_case(res, dirs, cache, kind, cfg, a_names, b_names, pattern, only_plan=None):
    ref = reference(dirs, cache, kind, cfg, a_names)
    base = {"kind": kind, "cfg": cfg, "a": list(a_names), "b": list(b_names), "pattern": pattern}
    if only_plan is not None:
        plans = [list(only_plan)]
        first = None
    else:
        first = execute(dirs, kind, cfg, a_names, b_names, pattern, ())
        plans = _plans(first["polls"]) if kind == "LaTeXToPDF" else [[]]
    case = None
    for n, plan in enumerate(plans):
        all_none = all(k is None for k in plan)
        if n == 0 and first is not None and all_none:
            obs = first
        else:
            obs = execute(dirs, kind, cfg, a_names, b_names, pattern, plan)
        declined = obs["declined"]
        case = dict(base)
        case["plan"] = plan
        found, positional, a_outs = judge(res, case, obs, ref, kind, cfg, all_none)
        nontrivial = bool(a_names) and bool(b_names) and len(ref["outs"]) > 0
        if al.is_decline(cfg):
            # ... and the selector was really asked about a foreign value and failed on it
            nontrivial = nontrivial and declined > ref["declined"]
            res.count("selector_calls_declined_by_an_exception", declined)
        outcome = (kind, _coarse(cfg), obs["exc"], hash(obs["snap"]),
                   tuple(_out_signature(obs, b_names)))
        res.case(nontrivial=nontrivial, outcome=outcome)
        if positional:
            res.count("positional_deviations", positional)
        if len(plan) and not all_none:
            res.count("runs_with_a_process_finishing_early")
        if obs["commands"]:
            res.count("runs_launching_converter_processes")
        if obs["exc"]:
            res.count("runs_where_A_alone_raises_too" if obs["exc"] == ref["exc"] else "runs_raising")
        res.count("foreign_values_passed", sum(1 for _ in b_names))
        res.maximum("max_outputs_of_one_run", len(obs["outs"]))
    return case


def _out_signature(obs, b_names):
    B = obs["B"]
    sig = []
    for r, fr, _ in obs["outs"]:
        hit = None
        for k in range(len(B)):
            if r is B[k]:
                hit = k
                break
        sig.append(("B", b_names[hit]) if hit is not None else ("A", hash(fr)))
    return sig


@contextlib.contextmanager
def _quiet():
    with warnings.catch_warnings():
        warnings.simplefilter("ignore")
        with contextlib.redirect_stdout(io.StringIO()):
            yield


def run_shard(p, tier):
    res = Result()
    kind, cfg = p["kind"], p["cfg"]
    cache = {}
    if not os.environ.get("VERIF_TMPDIR") and os.path.isdir("/dev/shm") \
            and os.access("/dev/shm", os.W_OK):
        os.environ["VERIF_TMPDIR"] = "/dev/shm"   # memory-backed scratch space (speed only)
    with scratch_dir(prefix="lena-verif-c10-") as root, _quiet():
        dirs = _Dirs(root)
        if "excs" in p:
            cfgs = ["%s:%s" % (cfg, e) for e in p["excs"]]
            blists = decline_b_lists(kind, tier)
        else:
            cfgs = [cfg]
            blists = b_lists(p, tier)
        for cfg in cfgs:
            alist = a_lists(kind, cfg, tier)
            for b_names in blists:
                for a_names in alist:
                    for pattern in patterns(len(a_names), len(b_names)):
                        case = check_case(res, dirs, cache, kind, cfg, tuple(a_names),
                                          tuple(b_names), pattern)
                if "excs" not in p:
                    res.sample(case, 2)
            if "excs" in p:
                res.sample(case, 2)
    return res


def replay(case):
    res = Result()
    with scratch_dir(prefix="lena-verif-c10-") as root, _quiet():
        dirs = _Dirs(root)
        check_case(res, dirs, {}, case["kind"], case["cfg"], tuple(case["a"]), tuple(case["b"]),
                   case["pattern"], only_plan=case.get("plan") or [])
    return result_violations(res)


LEVEL_TEXT = ("bounded exhaustive exploration: for each of the ten selective elements (several "
              "configurations each) every interleaving of every list of <= 2 selected values with every "
              "list of <= 3 foreign values from a pool of 16 (quick: <= 2 from 16, 3 from 3) is run on the "
              "real element in a private directory - for LaTeXToPDF under every completion schedule of "
              "the fake converter processes - and compared with the run of the selected values alone; "
              "RunIf, MapBins and IterateBins also with tolerant selectors (raise_on_error=False, 5 "
              "forms) whose test raises on the foreign values, for each of 74 exception classes; every "
              "element also with foreign values that carry the context keys the element itself reads "
              "(way of being unselected x documented key: %d values, lists of one and of two), and with "
              "the content of its selected values held by a list or a one-shot iterator instead of a "
              "tuple (must pass as the same object, iterators not advanced); MapBins also with a "
              "user's get_example_bin on histograms with cells of different types"
              % st.n_values())
LEVEL_NOTE = ("holds for the enumerated alphabet only; pdflatex / pdftoppm are replaced by an "
              "explorer-owned fake Popen; the position of foreign values relative to outputs for selected "
              "values is measured, not judged")
TECHNIQUE = ("exhaustive enumeration of interleavings on the real elements with the metamorphic oracle "
             "run(interleave(A, B)) = interleave(run(A), B): identity and order of foreign values, deep "
             "equality of outputs for selected values, directory snapshots, launched commands; the way "
             "a value is left unselected is an axis too (selector answers False / test raises an "
             "exception of every class under a tolerant selector), and so is what an unselected value "
             "carries in its context (product of the ways of being unselected with the element's own "
             "documented settings) and the container that holds it (tuple / list / one-shot iterator)")
