"""C04 - Context non-interference between Split/Zip branches and across accumulators.

Part A (branches, differential): every ordered list of 2..3 branches built from in-place mutators
(user element, Variable, UpdateContext, MakeFilename, Count) and an observer / accumulator terminal - or
a Source, the branch that generates its own flow and does not read the Split's, at every position of
the list - is put into a real Split (copy_buf=True) or Zip and driven by run, by fill+compute, by
fill+request, with a plain and with a *hostile* consumer (edits in place everything it receives before
it asks for the next value). What leaves branch i (snapshot taken by a Tap at the end of the branch) must equal what
the same branch yields when it is the only branch of a Split over a fresh equal flow (for Zip: when the
other branches carry no mutators); no dict or list may be reachable from the outputs of two different
branches, and the values that leave one branch may have a mutable object in common only where they have
it when the branch is alone. Two further dimensions: the flow's values are all different or all EQUAL
(always made of their own objects), and the container is used as built or is a DEEP COPY, taken before
any value, of a template that is driven next to it over an equal flow (what SplitIntoBins / MapBins do
with their sequences): template and copy must each behave like a container built for the purpose and
share nothing. Two more: a branch may be a bare nested Zip (the container gets the Zip object itself;
each of its sequences has its own mutators, StoreFilled and a Tap), and the contexts of the flow may be
lena.context.Context objects (the documented dict subclass the element Context() puts into the flow)
instead of plain dicts.

Part B (accumulators, explicit-state exploration of event histories): every history over
{fill a fresh value, compute/request, poison everything yielded so far} up to a bound is executed on
every framework accumulator that keeps the context of the last filled value, bare and behind
FillComputeSeq / FillRequest / Split / Zip. After the last event of every history: the containers
reachable from every yielded context are disjoint from those of every filled value's context and from
those of every other yielded context (of an earlier compute or of the same one: accumulators that yield
several values at one compute are in the alphabet); a poison leaves the filled values as they were; a compute gives
what an un-poisoned twin gives. The contexts of the filled values are plain dicts or lena.context.Context
objects (one shard each).
"""
import itertools

import lena.core

from mc.core import Result, result_violations, digest
from mc.ref import c04_lib as L

ID = "C04"
LEVEL = "model_checking"
DESIGN_REF = "DESIGN.md section 5, C04"
RULE = ("Part A: one evaluation = one (container, drive mode, ordered branch list - flow-reading branches "
        "and, under Split.run, Source branches at every position; also branches that are a bare nested "
        "Zip -, bufsize, flow length, "
        "consumer, flow of different / of equal values / with lena.context.Context contexts, container as built / deep copy next to its "
        "template) executed on a fresh Split/Zip plus the cached single-branch reference runs; it is "
        "non-trivial when there are >= 2 branches, the flow is not empty and at least one branch, run "
        "alone, really changed its input values in place (measured by comparing the flow before and "
        "after). Part B: one evaluation = one event history (last event judged) on a fresh accumulator "
        "and its un-poisoned twin, the contexts of the filled values being plain dicts or "
        "lena.context.Context objects; histories contain >= 1 compute (any number of fills, also none), 'poison' occurs only "
        "when something was yielded since the last poison; it is non-trivial when at its end at least one "
        "context had been yielded and at least one value filled. states = distinct canonical "
        "(address-free) forms of the real element's attributes reached, transitions = judged final "
        "events, traces = histories compared with the twin. Cases are distinct by construction")
ASSUMPTIONS = [
    "flows have no pre-existing aliasing: every value has its own list data and its own nested context "
    "(also in the flows whose values are all equal)",
    "deep copy: the container is copied once, before it has seen a value, together with its observers; "
    "template and copy get equal fresh flows and take turns value by value (run: one result each in "
    "turn; fill: template first; results: copy first); a branch list is judged as a deep copy only when "
    "each of its branches can be deep-copied as the only branch of such a container (UpdateContext with a "
    "format string keeps a compiled jinja2 Template, which copy.deepcopy refuses with a TypeError on the "
    "unchanged tree: the mutator 'upd' is outside this dimension)",
    "branch elements: a user callable editing data and context in place, Variable (typed), "
    "UpdateContext (format string reading the key it writes; context value copy), MakeFilename (prefix; "
    "filename consuming the prefix), Count (as run / fill_into element); terminals: none (Sequence "
    "branch), StoreFilled (group and one by one), Count as FillCompute, FillRequest(StoreFilled, "
    "bufsize=1, reset=True, buffer_input=True)",
    "Source branches (Split.run only; Zip and the common-type fill of Split have none): a generator of "
    "2 values made anew at every call, then the mutators as run elements; the Source alone is the Source "
    "as the only member of the Split, which calls it once whatever the flow",
    "nested container branch: a bare lena.flow.Zip of 2 FillCompute sequences (own instances of the "
    "branch's mutators, StoreFilled, a Tap each) given to the Split / Zip as it is; what leaves the branch "
    "is what leaves its sequences, sequence by sequence",
    "contexts that are lena.context.Context objects (legal: Context is a dict subclass and the element "
    "Context() makes them) have ordinary dicts and lists as nested items; the values a Source branch "
    "generates keep plain dict contexts",
    "'a branch alone' is, for Split, the same branch as the only member of a Split with the same "
    "bufsize, drive mode and consumer over a fresh equal flow (the block schedule itself is C03's); "
    "for Zip it is the same branch at the same position among the same terminals with the other "
    "branches' mutators removed, because Zip stops at the shortest branch and does not resume the "
    "generators of later branches, so the rounds a branch sees depend on the other terminals "
    "(schedule, not interference)",
    "cases whose construction raises (e.g. F20: bufsize=None forwarded to FillRequestSeq) or in which "
    "a branch raises when run alone are not judged",
    "framework accumulators = elements that keep _cur_context (Sum, DSum, Mean, VarianceMeanCount, "
    "Vectorize, Count, Histogram, SplitIntoBins, Graph), and those of them whose compute() may yield "
    "several values also in a configuration that does (Mean over a sum sequence with two results, "
    "Vectorize over components that yield one result per filled value, SplitIntoBins over an analysis "
    "with two results): the yields of one compute() are 'earlier yields' for each other; StoreFilled/GroupBy yield the filled values "
    "themselves by design (rule R1) and NumpyHistogram needs numpy",
    "only *contexts* are judged in Part B (Histogram and Graph yield their own data object by design); "
    "in-place updates an accumulator itself makes to the stored context of the last filled value "
    "(Count.compute adds its key there) are not judged: the statement speaks of what is yielded",
    "FillRequest wrappers use bufsize=1, buffer_input=True (F14 concerns other settings); a history in "
    "which element and twin raise the same non-lena exception (F9: Histogram.reset) is not judged",
]
NONTRIVIAL_FLOOR = {"quick": 20000, "thorough": 100000}
BUDGET_S = {"quick": 240, "thorough": 1500}


# ---------------------------------------------------------------------------------------------------
# bounds

def _dom(tier):
    """src2 / src3: mutators of the Source branches that 2- / 3-branch lists may contain;
    same2 / same3: flow lengths for which 2- / 3-branch lists are also run over a flow of EQUAL values;
    copy2 / copy3: (flow length, hostile consumer) for which they are also run as a deep copy next to
    its template; ctx2 / ctx3: (flow length, hostile consumer) for which they are also run over a
    flow whose contexts are lena.context.Context objects; nest2 / nest3: mutators of the branches that are
    a bare nested Zip; hist_ctx: history bound of Part B for filled values whose context is a Context."""
    if tier == "thorough":
        return dict(pre2=L.PRE_TOKENS, terms2=L.TERM_TOKENS, pairs_of_mutators=True, nmax2=3,
                    pre3=L.PRE_TOKENS, terms3=L.TERM_TOKENS, nmax3=3, bufs3=None, hist=7,
                    src2=L.SRC_PRE, src3=("none", "usr"), same2=(2, 3), same3=(2, 3),
                    copy2=tuple((n, h) for n in (1, 2, 3) for h in (False, True)),
                    copy3=((2, False),), nest2=L.NEST_PRE, nest3=("none", "usr"),
                    ctx2=tuple((n, h) for n in (1, 2, 3) for h in (False, True)),
                    ctx3=((2, False), (2, True)), hist_ctx=6)
    return dict(pre2=L.PRE_TOKENS[:7] + ("usrsl",), terms2=L.TERM_TOKENS[:4], pairs_of_mutators=False, nmax2=3,
                pre3=("none", "usr", "upd", "mkf", "cnt", "usrsl"), terms3=L.TERM_TOKENS[:4], nmax3=2,
                bufs3=(1, 2, None), hist=5, src2=("none", "usr"), src3=("none",),
                same2=(2, 3), same3=(), copy2=((1, False), (2, False), (2, True)), copy3=(),
                nest2=("none", "usr", "var"), nest3=(), ctx2=((2, False),), ctx3=(), hist_ctx=4)


def describe(tier):
    d = _dom(tier)
    def copies(c):
        return ", ".join("%d (%s consumer)" % (n, "hostile" if h else "plain") for n, h in c) or "none"

    return ("Part A: branch = mutator(s) + terminal, or a Source (generator + mutator; Split.run only). "
            "2-branch lists: one mutator of %s%s, terminal of %s, Source with a mutator of %s, "
            "flows 0..%d, bufsize in {1, 2, n+1, 1000, None}. 3-branch lists: one mutator of %s, terminal "
            "of %s, Source with a mutator of %s, flows 0..%d, bufsize in %s. All ordered lists (a Source "
            "at every position); Split by run / fill+compute / "
            "fill+request (request at the end, after every fill), Zip by fill+compute / fill+request; "
            "plain and hostile consumer. Also over flows of equal values: 2-branch lists for flow lengths "
            "%s, 3-branch lists for %s; also as a deep copy next to its template: 2-branch lists for flow "
            "lengths %s, 3-branch lists for %s. Part B: accumulators %s x wrappers %s, all histories over "
            "fill/compute/poison of length <= %d. Further branch kind: a bare nested Zip of 2 sequences "
            "with a mutator of %s (in 3-branch lists: %s). Further flows, with lena.context.Context "
            "contexts: 2-branch lists for flow lengths %s, 3-branch lists for %s; Part B also with filled "
            "contexts that are Context objects: histories of length <= %d"
            % (list(d["pre2"]), " or an ordered pair of two different mutators"
               if d["pairs_of_mutators"] else "", list(d["terms2"]), list(d["src2"]), d["nmax2"],
               list(d["pre3"]), list(d["terms3"]), list(d["src3"]), d["nmax3"],
               "{1, 2, n+1, 1000, None}" if d["bufs3"] is None else list(d["bufs3"]),
               list(d["same2"]), list(d["same3"]) or "none", copies(d["copy2"]), copies(d["copy3"]),
               list(L.ACCS), list(L.WRAPS), d["hist"],
               list(d["nest2"]), list(d["nest3"]) or "none", copies(d["ctx2"]), copies(d["ctx3"]),
               d["hist_ctx"]))


def _kinds3(tier):
    d = _dom(tier)
    return ([[p, t] for p in d["pre3"] for t in d["terms3"]] + [[p, L.SRC_TOKEN] for p in d["src3"]]
            + [[p, L.NEST_TOKEN] for p in d["nest3"]])


def _terms3(tier):
    """The terminals by which the second branch of a 3-branch list selects its shard."""
    d = _dom(tier)
    return (list(d["terms3"]) + ([L.SRC_TOKEN] if d["src3"] else [])
            + ([L.NEST_TOKEN] if d["nest3"] else []))


def _kinds2(tier):
    """Branch kinds allowed in 2-branch lists."""
    d = _dom(tier)
    out = [[p, t] for p in d["pre2"] for t in d["terms2"]]
    if d["pairs_of_mutators"]:
        muts = [p for p in d["pre2"] if p != "none"]
        for a, b in itertools.permutations(muts, 2):
            for t in d["terms2"]:
                out.append([a, b, t])
    out.extend([p, L.SRC_TOKEN] for p in d["src2"])
    out.extend([p, L.NEST_TOKEN] for p in d["nest2"])
    return out


def _bufsizes(n, allowed=None):
    out = []
    for b in (1, 2, n + 1, 1000, None):
        if b not in out and (allowed is None or b in allowed):
            out.append(b)
    return out


def shards(tier):
    out = []
    for tok in L.ACCS:
        for wrap in L.WRAPS:
            for ctx in L.CTXS:
                out.append({"part": "B", "acc": tok, "wrap": wrap, "ctx": ctx})
    k2 = _kinds2(tier)
    k3 = _kinds3(tier)
    # 2-branch lists: one shard per first branch (all containers and modes)
    # (two halves: second branches of even / of odd index)
    for i in range(len(k2)):
        for half in (0, 1):
            out.append({"part": "A", "n_branches": 2, "first": i, "half": half})
    # 3-branch lists: one shard per (first branch, second branch's terminal)
    for i in range(len(k3)):
        for t in _terms3(tier):
            out.append({"part": "A", "n_branches": 3, "first": i, "second_term": t})
    return out


# ---------------------------------------------------------------------------------------------------
# Part A

_ALONE = {}


def _alone(container, kind, bufsize, n, mode, hostile, flow="distinct"):
    """The branch as the only member of the container (cached: construction is deterministic)."""
    key = (container, tuple(kind), bufsize, n, mode, hostile, flow)
    o = _ALONE.get(key)
    if o is None:
        o = L.drive(container, [kind], bufsize, n, mode, hostile, want_mutated=True, flow=flow)
        o.objs = None
        o.received = None
        _ALONE[key] = o
    return o


_NEUTRAL = {}


def _neutral_others(container, kinds, i, bufsize, n, mode, hostile, flow="distinct"):
    """Branch i among the *same terminals* with all other branches' mutators removed: the reference
    for Zip, whose output rounds (and so how far each branch's generator is advanced) depend on the
    other branches' terminals, which is a matter of schedule and not of interference."""
    neutral = [list(k) if j == i else ["none", k[-1]] for j, k in enumerate(kinds)]
    key = (container, i, tuple(tuple(k) for k in neutral), bufsize, n, mode, hostile, flow)
    o = _NEUTRAL.get(key)
    if o is None:
        o = L.drive(container, neutral, bufsize, n, mode, hostile, flow=flow)
        o.objs = None
        o.received = None
        _NEUTRAL[key] = o
    return o


def _references(container, kinds, bufsize, n, mode, hostile, flow="distinct"):
    """-> list of (exception or None, expected tap log, expected alias pattern) per branch: always
    from a container built for the purpose, never from a copy."""
    out = []
    for i, k in enumerate(kinds):
        if container == "split":
            o = _alone(container, k, bufsize, n, mode, hostile, flow)
            j = 0
        else:
            o = _neutral_others(container, kinds, i, bufsize, n, mode, hostile, flow)
            j = i
        out.append((o.exc or o.construct_exc, o.taps[j] if o.taps else None,
                    o.alias[j] if o.taps else None))
    return out


_COPYABLE = {}


def _copyable_alone(container, kind, bufsize):
    """Can a container holding only this branch be deep-copied? (UpdateContext with a format string
    keeps a compiled jinja2 Template and cannot; that is not a matter of interference.)"""
    key = (container, tuple(kind), bufsize is None)
    r = _COPYABLE.get(key)
    if r is None:
        o = L.drive(container, [kind], bufsize, 0, "run" if container == "split" else
                    {"fill_compute": "fill_compute"}.get(L.TERM_TYPE[kind[-1]], "fill_request_end"),
                    False, origin="copy")
        r = _COPYABLE[key] = not (o.construct_exc or o.exc)
    return r


def _branch_laws(problems, who, kinds, taps, objs, refs, alias=None):
    """The laws of one driven container: every branch against its reference, and no sharing between
    branches. *who* = "" or "template:" (prefix of the law names)."""
    for i in range(len(kinds)):
        if taps[i] != refs[i][1]:
            problems.append((who + "branch-output-differs-from-alone", i, taps[i], refs[i][1]))
        else:
            al = alias[i] if alias is not None else L.alias_pattern(objs[i])
            if al != refs[i][2]:
                problems.append((who + "branch-values-alias-each-other", i,
                                 "pairs of values of the branch that have a dict/list/object in common: "
                                 "%s" % (list(al),), "as when alone: %s" % (list(refs[i][2]),)))
    ids = [set(L.container_ids(tuple(o))) for o in objs]
    for i in range(len(kinds)):
        for j in range(i + 1, len(kinds)):
            s = len(ids[i] & ids[j])
            if s:
                problems.append((who + "branches-share-container", (i, j),
                                 "%d dict/list object(s) reachable from the outputs of branch %d "
                                 "and of branch %d" % (s, i, j), "none"))
    return ids


def _judge_a_once(container, kinds, bufsize, n, mode, hostile, flow="distinct", origin="fresh"):
    """-> (status, problems, outcome digest source). problems: list of (law, index, observed, expected)."""
    o = L.drive(container, kinds, bufsize, n, mode, hostile, flow=flow, origin=origin)
    if o.construct_exc:
        return "construct_raised", [], ("construct", o.construct_exc)
    refs = _references(container, kinds, bufsize, n, mode, hostile, flow)
    if any(r[0] for r in refs):
        return "branch_raises_alone", [], ("alone-raises",)
    if origin == "copy" and not all(_copyable_alone(container, k, bufsize) for k in kinds):
        return "branch_not_copyable_alone", [], ("alone-not-copyable",)
    problems = []
    if o.exc:
        problems.append(("raises-only-with-other-branches" if origin == "fresh" else
                         "raises-only-next-to-its-deep-copy", None, "raised " + o.exc, "no exception"))
    else:
        ids = _branch_laws(problems, "", kinds, o.taps, o.objs, refs, o.alias)
        if o.taps_t is not None:
            ids_t = _branch_laws(problems, "template:", kinds, o.taps_t, o.objs_t, refs)
            s = len(set().union(*ids) & set().union(*ids_t)) if ids else 0
            if s:
                problems.append(("copy-shares-container-with-template", None,
                                 "%d dict/list object(s) reachable both from the outputs of the "
                                 "template and from those of its deep copy" % s, "none"))
    return "judged", problems, (o.taps, o.taps_t) if o.taps_t is not None else o.taps


def check_a(res, container, kinds, bufsize, n, mode, hostile, flow="distinct", origin="fresh"):
    case = {"part": "A", "container": container, "mode": mode, "kinds": kinds, "bufsize": bufsize,
            "n": n, "hostile": hostile, "flow": flow, "origin": origin}
    status, problems, osrc = _judge_a_once(container, kinds, bufsize, n, mode, hostile, flow, origin)
    if status != "judged":
        res.count("A_" + status)
        res.case(nontrivial=False, outcome=osrc)
        return case
    mutators = 0
    if n > 0:
        for k in kinds:
            if _alone("split", k, bufsize, n, mode, False, flow).mutated_input:
                mutators += 1
    nontrivial = len(kinds) >= 2 and n > 0 and mutators >= 1
    res.case(nontrivial=nontrivial, outcome=osrc)
    res.count("A_judged")
    res.count("A_%s_%s" % (container, mode))
    if hostile:
        res.count("A_hostile_consumer")
    if any(k[-1] == L.SRC_TOKEN for k in kinds):
        res.count("A_with_a_source_branch")
    if flow == "same":
        res.count("A_flow_of_equal_values")
    if flow == "ctxobj":
        res.count("A_flow_with_Context_objects")
    if any(k[-1] == L.NEST_TOKEN for k in kinds):
        res.count("A_with_a_nested_Zip_branch")
    if origin != "fresh":
        res.count("A_deep_copy_next_to_its_template")
    plain = {}

    def law_without(**changed):
        """Is the law also broken when one dimension of the case is put back to its simplest value?"""
        args = dict(hostile=hostile, flow=flow, origin=origin)
        args.update(changed)
        key = tuple(sorted(args.items()))
        if key not in plain:
            _, pr, _ = _judge_a_once(container, kinds, bufsize, n, mode, args["hostile"], args["flow"],
                                     args["origin"])
            plain[key] = set(p[0] for p in pr)
        return plain[key]

    for law, where, observed, expected in problems:
        cause = {"part": "A", "law": law, "container": container,
                 "drive": "run" if mode == "run" else "fill"}
        if law.endswith("branch-output-differs-from-alone") or law.endswith("branch-values-alias-each-other"):
            cause["victim"] = "last-branch" if where == len(kinds) - 1 else "earlier-branch"
            cause["victim_type"] = L.TERM_TYPE[kinds[where][-1]]
        # which of the non-default dimensions are needed to see it?
        cause["needs_hostile_consumer"] = bool(hostile) and law not in law_without(hostile=False)
        if flow == "same":
            cause["needs_equal_values"] = law not in law_without(flow="distinct")
        if flow == "ctxobj":
            cause["needs_context_objects"] = law not in law_without(flow="distinct")
        if origin != "fresh":
            # (laws about the template or the pair cannot show without the copy)
            cause["needs_deep_copy"] = law not in law_without(origin="fresh")
        res.violation(case, {"branch": where, "got": observed}, {"reference": expected}, cause,
                      note="kinds are [mutators..., terminal] per branch (terminal 'zipn' = the branch is a "
                           "bare Zip of 2 sequences mutators + StoreFilled); flow 'same' = all values equal, "
                           "each made of its own objects; flow 'ctxobj' = the contexts of the flow are "
                           "lena.context.Context objects; origin 'copy' = the container is a deep copy, "
                           "made before any value, of a template that is driven next to it over an equal "
                           "flow (laws 'template:...' speak of the template); see mc/ref/c04_lib.py")
    return case


def _variants(d, two, n, hostile):
    """The (flow, origin) pairs of one (branch list, n, consumer): the plain one first."""
    out = [("distinct", "fresh")]
    if n in d["same2" if two else "same3"]:
        out.append(("same", "fresh"))
    if (n, hostile) in d["copy2" if two else "copy3"]:
        out.append(("distinct", "copy"))
    if (n, hostile) in d["ctx2" if two else "ctx3"]:
        out.append(("ctxobj", "fresh"))
    return out


def _iter_a_cases(tier, kinds_lists):
    """All (container, mode, bufsize, n, hostile, flow, origin) for each branch list, simplest first."""
    d = _dom(tier)
    for kinds in kinds_lists:
        two = len(kinds) == 2
        nmax = d["nmax2"] if two else d["nmax3"]
        allowed = None if two else d["bufs3"]
        for n in range(nmax + 1):
            for hostile in (False, True):
                for flow, origin in _variants(d, two, n, hostile):
                    for bufsize in _bufsizes(n, allowed):
                        yield ("split", "run", kinds, bufsize, n, hostile, flow, origin)
                    for mode in L.MODES[1:]:
                        if n == 0 and mode == "fill_request_each":
                            continue        # identical to fill_request_end for an empty flow
                        if L.mode_applicable("split", mode, kinds):
                            yield ("split", mode, kinds, 1000, n, hostile, flow, origin)
                        if L.mode_applicable("zip", mode, kinds):
                            yield ("zip", mode, kinds, 1000, n, hostile, flow, origin)
                            if n > 0 and any("usr" in k for k in kinds):
                                # the same with data that are user objects (mutable, and hashable like
                                # any object): only a branch that edits the data can tell
                                yield ("zip-obj", mode, kinds, 1000, n, hostile, flow, origin)


def run_a(res, p, tier):
    if p["n_branches"] == 2:
        k2 = _kinds2(tier)
        lists = [[k2[p["first"]], b] for j, b in enumerate(k2) if j % 2 == p["half"]]
    else:
        k3 = _kinds3(tier)
        seconds = [k for k in k3 if k[-1] == p["second_term"]]
        lists = [[k3[p["first"]], b, c] for b in seconds for c in k3]
    last = None
    for container, mode, kinds, bufsize, n, hostile, flow, origin in _iter_a_cases(tier, lists):
        last = check_a(res, container, kinds, bufsize, n, mode, hostile, flow, origin)
        if hostile and n == 2 and bufsize == 2:
            res.sample(last, 3)
    if last is not None:
        res.sample(last, 3)


# ---------------------------------------------------------------------------------------------------
# Part B

def histories(maxlen):
    """All judged histories, shortest first."""
    out = []

    def rec(h, yielded_since_poison):
        if "c" in h:
            out.append(h)
        if len(h) == maxlen:
            return
        rec(h + "f", yielded_since_poison)
        rec(h + "c", True)
        if yielded_since_poison:
            rec(h + "p", False)

    rec("", False)
    out.sort(key=lambda s: (len(s), s))
    return out


def _call(f, *args):
    try:
        return ("ok", f(*args))
    except lena.core.LenaException as e:
        return ("lena-exc", type(e).__name__)
    except Exception as e:
        return ("foreign-exc", type(e).__name__)


def exec_history(tok, wrap, hist, ctx="dict"):
    """Execute *hist* on a fresh machine and its un-poisoned twin; judge after the last event.
    -> dict(status, problems=[(law, observed, expected)], nontrivial, state, events, outcome)"""
    m = L.Machine(tok, wrap)
    twin = L.Machine(tok, wrap)
    filled = []          # the filled value objects (kept alive)
    keep = []            # every yielded value (kept alive: ids must not be recycled)
    yields = []          # (compute number, index in that compute, context object)
    problems = []
    events = 0
    ncompute = 0
    j = 0
    last = len(hist) - 1
    for idx, ev in enumerate(hist):
        if ev == "f":
            v = L.make_value(tok, j, ctx)
            tv = L.make_value(tok, j, ctx)
            j += 1
            r = _call(m.fill, v)
            tr = _call(twin.fill, tv)
            events += 2
            filled.append(v)
        elif ev == "c":
            r = _call(m.result)
            tr = _call(twin.result)
            events += 2
            ncompute += 1
            if r[0] == "ok":
                for k, val in enumerate(r[1]):
                    keep.append(val)
                    for c in L.yielded_contexts(tok, val):
                        yields.append((ncompute, k, c))
        else:
            before = [L.canon(v) for v in filled]
            seen = set()
            changed = 0
            for _, _, c in yields:
                changed += L.poison(c, seen)
            r = tr = ("ok", None)
            if idx == last:
                after = [L.canon(v) for v in filled]
                for n_, (b, a) in enumerate(zip(before, after)):
                    if a != b:
                        problems.append(("poison-corrupts-filled-value",
                                         "filled value #%d changed when the yielded contexts were "
                                         "edited in place" % n_, "unchanged"))
                        break
        # same kind of outcome on both sides?
        if r[0] != "ok" or tr[0] != "ok":
            if (r[0], r[1] if r[0] != "ok" else None) != (tr[0], tr[1] if tr[0] != "ok" else None):
                if idx == last:
                    problems.append(("poison-corrupts-later-result",
                                     "event %d (%s): %s" % (idx, ev, r[:2] if r[0] != "ok" else "ok"),
                                     "twin: %s" % (tr[:2] if tr[0] != "ok" else "ok",)))
                    break
                return dict(status="diverged_earlier", problems=[], nontrivial=False, state=None,
                            events=events, outcome=("diverged",))
            if r[0] == "foreign-exc":
                return dict(status="aborted_foreign_exception", problems=[], nontrivial=False,
                            state=None, events=events, outcome=("foreign", r[1]))
        elif ev == "c" and idx == last:
            a, b = L.canon(r[1]), L.canon(tr[1])
            if a != b:
                problems.append(("poison-corrupts-later-result", a, b))
    # state invariants after the last event
    filled_ids = {}
    for n_, v in enumerate(filled):
        for i in L.container_ids(v[1]):
            filled_ids.setdefault(i, n_)
    inv = []
    seen_y = {}
    for (cn, k, c) in yields:
        ids = L.container_ids(c)
        hit = [i for i in ids if i in filled_ids]
        if hit and not any(p[0] == "yielded-context-shares-with-filled-context" for p in inv):
            inv.append(("yielded-context-shares-with-filled-context",
                        "the context yielded by compute/request #%d (yield %d) shares %d dict/list "
                        "object(s) with the context of filled value #%d%s"
                        % (cn, k, len(hit), filled_ids[hit[0]],
                           " (it is the same object)" if id(c) in filled_ids else ""),
                        "no shared mutable object"))
        hit2 = [i for i in ids if i in seen_y]
        if hit2 and not any(p[0] == "yielded-context-shares-with-earlier-yield" for p in inv):
            inv.append(("yielded-context-shares-with-earlier-yield",
                        "the context yielded by compute/request #%d (yield %d) shares %d dict/list "
                        "object(s) with the one yielded by compute/request #%d (yield %d)"
                        % ((cn, k, len(hit2)) + seen_y[hit2[0]]), "no shared mutable object"))
        for i in ids:
            seen_y.setdefault(i, (cn, k))
    # the structural laws come first: they name the root of the behavioural ones
    problems = inv + problems
    state = L.canon(m.el)
    return dict(status="judged", problems=problems, nontrivial=bool(yields) and bool(filled),
                state=state, events=events,
                outcome=(tok, wrap, ctx, len(filled), len(yields), tuple(p[0] for p in problems),
                         digest(state)))


def check_b(res, tok, wrap, hist, states, ctx="dict"):
    case = {"part": "B", "acc": tok, "wrap": wrap, "history": hist, "ctx": ctx}
    r = exec_history(tok, wrap, hist, ctx)
    res.count("B_events_executed", r["events"])
    if r["status"] != "judged":
        res.count("B_" + r["status"])
        res.case(nontrivial=False, outcome=r["outcome"])
        return case
    res.case(nontrivial=r["nontrivial"], outcome=r["outcome"])
    res.count("B_judged")
    if ctx != "dict":
        res.count("B_filled_contexts_are_Context_objects")
    res.transitions += 1
    res.traces += 1
    states.add(digest(r["state"]))
    res.maximum("B_history_length", len(hist))
    if r["problems"]:
        # one defect shows under several laws; report the first (structural) one
        law, observed, expected = r["problems"][0]
        via = "accumulator"
        if wrap != "bare":
            rb = exec_history(tok, "bare", hist, ctx)
            if not (rb["status"] == "judged" and any(p[0] == law for p in rb["problems"])):
                via = wrap
        cause = {"part": "B", "law": law, "accumulator": L.ACC_CLASS.get(tok, tok), "via": via}
        if ctx != "dict":
            rd = exec_history(tok, wrap, hist, "dict")
            cause["needs_context_objects"] = not (rd["status"] == "judged"
                                                  and any(p[0] == law for p in rd["problems"]))
        res.violation(case, observed, expected, cause,
                      note="history: f = fill a fresh value, c = compute/request (all yields consumed), "
                           "p = edit in place every context yielded so far; ctx = class of the contexts of the "
                           "filled values (dict / lena.context.Context); all laws broken: %s"
                           % sorted(set(p[0] for p in r["problems"])))
    return case


def run_b(res, p, tier):
    states = set()
    try:
        L.Machine(p["acc"], p["wrap"])
    except lena.core.LenaTypeError:
        # e.g. FillRequest(reset=True) around an accumulator without a reset method
        res.count("B_wrapper_not_applicable")
        return
    ctx = p.get("ctx", "dict")
    hs = histories(_dom(tier)["hist" if ctx == "dict" else "hist_ctx"])
    case = None
    for h in hs:
        case = check_b(res, p["acc"], p["wrap"], h, states, ctx)
        if len(h) == 4 and h.endswith("pc"):
            res.sample(case, 2)
    res.sample(case, 3)
    res.states = len(states)


# ---------------------------------------------------------------------------------------------------

def run_shard(p, tier):
    res = Result()
    if p["part"] == "B":
        run_b(res, p, tier)
    else:
        run_a(res, p, tier)
    return res


def replay(case):
    res = Result()
    if case.get("part") == "B":
        check_b(res, case["acc"], case["wrap"], case["history"], set(), case.get("ctx", "dict"))
    else:
        check_a(res, case["container"], [list(k) for k in case["kinds"]], case["bufsize"], case["n"],
                case["mode"], case["hostile"], case.get("flow", "distinct"), case.get("origin", "fresh"))
    return result_violations(res)


LEVEL_TEXT = ("explicit-state exploration of the real accumulators: every history over {fill a fresh "
              "value, compute/request, edit in place everything yielded so far} up to length 5 (thorough: "
              "7) on 14 accumulator configurations (3 of them yield several values per compute) x 6 "
              "wrappers, with an id-graph invariant and an "
              "un-poisoned twin, for filled contexts that are plain dicts and (length 4, thorough: 6) "
              "lena.context.Context objects; plus bounded exhaustive enumeration of all ordered lists of 2..3 "
              "mutating branches of every sequence type Split accepts (Sequence, FillCompute, FillRequest, "
              "Source, and a bare nested Zip) x bufsize x flow length x drive mode x consumer for Split and Zip (also "
              "over flows of equal values, over flows with lena.context.Context contexts and for a deep copy driven next to its template), each branch "
              "compared with the same branch alone")
LEVEL_NOTE = ("holds for the enumerated alphabet and bounds only; 'alone' keeps the container's block "
              "schedule (C03 owns the schedule); only contexts are judged for accumulators; "
              "NumpyHistogram (needs numpy), StoreFilled and GroupBy are outside the alphabet")
TECHNIQUE = ("breadth-first enumeration of event histories on the real objects with canonical-state "
             "hashing, object-identity graphs and differential twins; exhaustive product enumeration of "
             "branch lists against single-branch reference runs")
