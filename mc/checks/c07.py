"""C07 - Nested-dictionary algebra: intersection, difference, update_recursively, update_nested.

Exhaustive enumeration (driver E1) of whole families of nested dictionaries:

  * every ordered pair (d1, d2) of a family and every recursion level in {-1, 0, 1, 2, 3}:
      intersection(d1, d2, level) == greatest lower bound (reference), == intersection(d2, d1, level),
      shares no dict/list object with d1 or d2;  difference(d1, d2, level) == reference ("items of d1
      not contained in d2", falsy ones included);  update_recursively(intersection, difference) == d1;
      d1 and d2 are unchanged by intersection and difference;
    once per pair: update_recursively(d1, d2) == reference merge (d2 contained in the result, every item
      of d1 that d2 does not overwrite kept), and for every key update_nested(key, d1, d2) leaves the
      previous d1[key] reachable (same object) along the key chain of the new d1[key];
  * every d: intersection(d) == intersection(d, d) == d (idempotent) and a deep copy;
  * every ordered triple of a smaller family and every level: intersection(a, b, c) == reference ==
    intersection(intersection(a, b), c) == intersection(a, intersection(b, c)), deep copy, arguments
    unchanged; intersection() == {};
  * typed arguments: every ordered pair of a small family with lists among the leaves is run through the
    same laws with one or both arguments made of a subtype of dict (lena.context.Context, a bare user
    subclass, OrderedDict, and collections.defaultdict - the dictionary with the __missing__ hook, where
    item access with an absent key creates the item instead of raising KeyError; only the outermost
    dictionary or every dictionary): same values, a deep copy (the id-graph follows subtypes), arguments
    unchanged including the types of their containers;
  * string form: update_recursively(d, "a.b", value) == update_recursively(d, {"a": {"b": value}}) (the
    reference merge) for every d of two families, every key string of 1..3 components and every kind of
    explicit value (falsy and truthy scalars, containers, strings that read like a key or a dotted
    path, dictionaries), and the form without a value ("a.b.x": the last part is the value);
  * update histories over two dictionaries with string and dictionary forms of *other*.

The reference model is mc/ref/c07c08_dicts.py (containment, greatest lower bound, difference in two
independent formulations that are cross-checked in a self-check shard, merge).
"""
import itertools
import json

import lena.core
from lena.context import intersection, difference, update_recursively, update_nested

from mc.core import Result, result_violations
from mc.ref import c07c08_dicts as R
from mc.ref import c07_types as T

ID = "C07"
LEVEL = "exploration"
DESIGN_REF = "DESIGN.md section 5, C07"
RULE = ("every ordered pair (and, for the smaller families, every ordered triple) of every family of "
        "nested dictionaries is built fresh and run through the real functions once per recursion "
        "level; one case = one (pair or triple, level) or one (key, pair) for update_nested; a case is "
        "non-trivial when the dictionaries have at least one common key that holds different values "
        "(update_nested: the key is present in d and in other); the pairs of the typed family are run "
        "again for every (dict subtype, outermost/every dictionary, which arguments) combination, one "
        "case per (pair, combination, level); one case per (dictionary, key string, explicit value) of "
        "the string form, non-trivial when the first key component is a key of the dictionary; cases "
        "are distinct by construction")
ASSUMPTIONS = [
    "dictionaries have string keys from {a, b}; leaves are 0, 1, None, '', 'x', False, [] and [0] "
    "(lists are leaves), plus empty dictionaries; depth <= 3",
    "values are compared with Python's == (so 0 and False are the same leaf), as the functions' "
    "docstrings do",
    "level semantics are the documented ones: level n looks n levels of keys deep and treats deeper "
    "dictionaries as atomic values; level 0 compares whole dictionaries; negative is unlimited",
    "update_nested with an 'other' whose key chain other[key][key]... ends in a non-dictionary has no "
    "documented result (there is no dictionary to put the previous value into without dropping "
    "other's scalar): any exception is accepted there, a normal return must still keep the previous "
    "value reachable",
    "arguments are pairwise unshared (no aliasing between d1 and d2 before the call)",
    "a dictionary is any instance of dict: intersection documents 'a dictionary or its subtype (copied "
    "from dicts[0])'; the type of the result is recorded as an outcome, not judged; results are "
    "compared with the reference by ==, so an OrderedDict counts as the dictionary with its items",
    "the items of a collections.defaultdict (a dict subtype whose item access creates absent items through "
    "__missing__) are the ones it holds - what 'in', iteration and == say; a default that was never stored "
    "is not an item, and looking into the dictionary must not store one. Subtypes whose __missing__ "
    "answers without storing (collections.Counter, whose own == counts an absent key as 0) are not in the "
    "alphabet: whether such a default is an item is an open point",
    "key strings of the string form have non-empty components from {a, b} (empty components have no "
    "documented meaning); the explicit value is arbitrary and is never interpreted",
]
NONTRIVIAL_FLOOR = {"quick": 200000, "thorough": 2000000}
BUDGET_S = {"quick": 240, "thorough": 1500}

LEVELS = (-1, 0, 1, 2, 3)
AB = ("a", "b")

LEAVES_ALL = [0, 1, None, "", "x", False, [], [0]]


LV4 = (-1, 0, 1, 2)   # for dictionaries of depth <= 2 level 3 cannot differ from level 2


def _families(tier):
    """name -> (keys_by_depth, leaves, levels, number of pair shards)."""
    if tier == "thorough":
        return {
            "chain3": ([("a",)] * 3, LEAVES_ALL, LEVELS, 1),
            "ab1": ([AB], LEAVES_ALL, LV4, 2),
            "ab2": ([AB, AB], [0, 1, None, "", []], LV4, 112),
            "ab3-a": ([AB, AB, ("a",)], [0, 1], LEVELS, 32),
        }
    return {
        "chain3": ([("a",)] * 3, LEAVES_ALL, LEVELS, 1),
        "ab1": ([AB], LEAVES_ALL, LV4, 2),
        "ab2": ([AB, AB], [0, 1, []], LEVELS, 32),
        "ab3-a": ([AB, AB, ("a",)], [0], LEVELS, 24),
    }


def _triple_families(tier):
    if tier == "thorough":
        return {
            "chain3": ([("a",)] * 3, LEAVES_ALL, LEVELS, 3),
            "ab2-01": ([AB, AB], [0, 1], LV4, 72),
        }
    return {
        "chain3": ([("a",)] * 3, LEAVES_ALL, LEVELS, 9),
        "ab2-0": ([AB, AB], [0], LEVELS, 18),
    }


def _typed_families(tier):
    """Families whose pairs are also run with arguments made of subtypes of dict (mc.ref.c07_types):
    name -> (keys_by_depth, leaves, levels, number of shards). Lists among the leaves: the deep copy
    must reach every mutable value, whatever the type of the dictionary that holds it."""
    if tier == "thorough":
        return {"t-ab2": ([AB, AB], [0, [0]], LV4, 48)}
    return {"t-ab.a": ([AB, ("a",)], [0, [0]], LV4, 9)}


def _strform_families(tier):
    """Families of the dictionaries that are updated through the string form of *other*."""
    if tier == "thorough":
        return {"chain3": ([("a",)] * 3, LEAVES_ALL), "ab2": ([AB, AB], [0, "", "x", []])}
    return {"chain3": ([("a",)] * 3, LEAVES_ALL), "ab2": ([AB, AB], [0, ""])}


_FAM_CACHE = {}


def _family(spec):
    key = repr(spec[:2])
    if key not in _FAM_CACHE:
        _FAM_CACHE[key] = R.family(spec[0], spec[1])
    return _FAM_CACHE[key]


def describe(tier):
    out = []
    for name, spec in sorted(_families(tier).items()):
        out.append("pairs of family %s (keys per depth %s, leaves %r): %d dictionaries, levels %s"
                   % (name, [list(k) for k in spec[0]], spec[1], len(_family(spec)), list(spec[2])))
    for name, spec in sorted(_triple_families(tier).items()):
        out.append("triples of family %s (leaves %r): %d dictionaries, levels %s"
                   % (name, spec[1], len(_family(spec)), list(spec[2])))
    for name, spec in sorted(_typed_families(tier).items()):
        out.append("pairs of family %s (keys per depth %s, leaves %r): %d dictionaries, levels %s, with one or "
                   "both arguments made of %s (outermost dictionary only / every dictionary)"
                   % (name, [list(k) for k in spec[0]], spec[1], len(_family(spec)), list(spec[2]),
                      ", ".join(T.KINDS)))
    for name, spec in sorted(_strform_families(tier).items()):
        out.append("string form of update_recursively on family %s (leaves %r): %d dictionaries x %d key "
                   "strings x %d explicit values, %d strings without a value"
                   % (name, spec[1], len(_family(spec)), len(STR_KEYS), len(STR_VALUES), len(STR_NOVALUE)))
    return "; ".join(out)


def shards(tier):
    out = [{"kind": "selfcheck", "bound": "reference-selfcheck"}, {"kind": "nary", "bound": "small"}]
    for start in range(len(HIST_STARTS)):
        out.append({"kind": "histories", "start": start, "bound": "update-histories"})
    for name in sorted(_strform_families(tier)):
        out.append({"kind": "strform", "fam": name, "bound": "string-form-" + name})
    for name, spec in sorted(_typed_families(tier).items()):
        n = len(_family(spec))
        k = spec[3]
        for i in range(k):
            lo, hi = n * i // k, n * (i + 1) // k
            if lo < hi:
                out.append({"kind": "typed", "fam": name, "lo": lo, "hi": hi, "bound": "typed-" + name})
    fams = _families(tier)
    order = ["chain3", "ab1", "ab3-a", "ab2"]
    for name in order:
        if name not in fams:
            continue
        spec = fams[name]
        n = len(_family(spec))
        k = spec[3]
        for i in range(k):
            lo, hi = n * i // k, n * (i + 1) // k
            if lo < hi:
                out.append({"kind": "pairs", "fam": name, "lo": lo, "hi": hi, "bound": "pairs-" + name})
    tf = _triple_families(tier)
    for name in ["chain3", "ab2-0", "ab2-01"]:
        if name not in tf:
            continue
        spec = tf[name]
        n = len(_family(spec))
        k = spec[3]
        for i in range(k):
            lo, hi = n * i // k, n * (i + 1) // k
            if lo < hi:
                out.append({"kind": "triples", "fam": name, "lo": lo, "hi": hi,
                            "bound": "triples-" + name})
    return out


# -- helpers ---------------------------------------------------------------------------------------

def _common_differing(d1, d2):
    for k, v in d1.items():
        if k in d2 and d2[k] != v:
            return True
    return False


def _truth(v):
    return "absent" if v is R.ABSENT else ("truthy" if v else "falsy")


def _diff_cause(law, got, exp, d1, d2, level):
    """Structural signature of a wrong dictionary result: the first item (followed down to a leaf
    or an empty dictionary) that the result lacks, has in excess or holds with another value, and
    what d1 and d2 hold there."""
    fd = R.first_difference(got, exp)
    if fd is None:
        return {"law": law, "diff": "none"}
    path, knd = fd
    whole = exp if knd == "missing" else got
    sub = R.lookup(whole, path, R.ABSENT)
    if R.isdict(sub) and sub:
        for p, _ in R.atoms(sub):
            path = path + p
            break
    v1 = R.lookup(d1, path, R.ABSENT)
    v2 = R.lookup(d2, path, R.ABSENT)
    return {"law": law, "diff": knd, "d1_value": _truth(v1),
            "d2_has_key": v2 is not R.ABSENT,
            "both_dicts": R.isdict(v1) and R.isdict(v2)}


def _canon(x):
    """Canonical typed string of a JSON-like value (false is not 0, key order ignored)."""
    try:
        return json.dumps(x, sort_keys=True)
    except (TypeError, ValueError):
        return repr(R.tfreeze(x))


def _outcome(res, tag, value):
    """Feed the distinct-outcome counter; a per-Result cache avoids hashing repeats."""
    seen = res.__dict__.setdefault("_c07_seen", set())
    key = (tag, _canon(value) if R.isdict(value) else repr(value))
    if key not in seen:
        seen.add(key)
        res.outcome(key)


def _exc_name(e):
    return type(e).__name__


def _shared(result, args):
    """(kind, argument index) of the first dict/list object of *result* that also belongs to an
    argument, or None."""
    mine = T.containers(result)
    for i, a in enumerate(args):
        theirs = T.containers(a)
        for ident in mine:
            if ident in theirs:
                return type(mine[ident]).__name__, i + 1
    return None


# -- one pair ----------------------------------------------------------------------------------------

def _makers(p1, p2, variant):
    """Two functions that build fresh arguments from the prototypes: plain dictionaries (None), with
    equal sub-dictionaries stored as one object ('aliased'), or made of a subtype of dict
    ((kind, depth, positions) of mc.ref.c07_types)."""
    if variant is None:
        return (lambda: R.fresh(p1)), (lambda: R.fresh(p2))
    if variant == "aliased":
        return (lambda: R.aliased(p1)[0]), (lambda: R.aliased(p2)[0])
    kind, depth, pos = variant

    def maker(p, i):
        if i in pos:
            return lambda: T.wrap(p, kind, depth)
        return lambda: R.fresh(p)
    return maker(p1, 1), maker(p2, 2)


def _lacks_key_of(pa, pb, deep):
    """The dictionary pa lacks a key that pb has (deep: also a nested dictionary of pa against the
    dictionary pb holds at the same place)."""
    for k, w in pb.items():
        if k not in pa:
            return True
        if deep and R.isdict(pa[k]) and R.isdict(w) and _lacks_key_of(pa[k], w, True):
            return True
    return False


def _hook_matters(p1, p2, tv):
    """Non-vacuity of the __missing__ kinds: an argument made of such a type lacks a key of the other
    argument, i.e. an item access instead of a membership test would create an item there."""
    if tv[0] not in T.MISSING_HOOK_KINDS:
        return False
    deep = tv[1] == "all"
    return (1 in tv[2] and _lacks_key_of(p1, p2, deep)) or (2 in tv[2] and _lacks_key_of(p2, p1, deep))


def _typed_case(case, cause, tv):
    if tv:
        return dict(case, typed=[tv[0], tv[1], list(tv[2])]), dict(cause, argument_type=tv[0])
    return case, cause


def check_pair(res, p1, p2, levels, keys, commut=True, only=None, typed=()):
    """All laws for the ordered pair of prototypes (p1, p2). *only*: restrict to one law family
    ('level', 'update_recursively', 'update_nested', 'typed') - used by replay and by the shards of
    typed arguments. *typed*: the (kind, depth, positions) variants of mc.ref.c07_types to run."""
    nontriv = _common_differing(p1, p2)
    f1, f2 = _canon(p1), _canon(p2)
    variants = []
    if only in (None, "level"):
        variants.append(None)
        # the same laws when equal sub-dictionaries of an argument are one object (a value does not
        # depend on whether equal parts of it are stored once or twice)
        if R.aliased(p1)[1] or R.aliased(p2)[1]:
            variants.append("aliased")
    if only in (None, "typed"):
        # the same laws when the arguments are made of a subtype of dict
        variants.extend(tuple(v) for v in typed)
    for variant in variants:
        alias = variant == "aliased"
        tv = variant if isinstance(variant, tuple) else None
        mk1, mk2 = _makers(p1, p2, variant)
        hook = bool(tv) and _hook_matters(p1, p2, tv)

        def _viol(c, observed, expected, cause):
            if alias:
                c = dict(c, aliased=True)
                cause = dict(cause, shared_subdictionaries=True)
            if tv:
                c = dict(c, typed=[tv[0], tv[1], list(tv[2])])
                cause = dict(cause, argument_type=tv[0])
            res.violation(c, T.plain(observed), expected, cause)
        d1, d2 = mk1(), mk2()
        for level in levels:
            case = {"kind": "pair", "d1": p1, "d2": p2, "level": level}
            if alias:
                case["aliased"] = True
            if tv:
                case["typed"] = [tv[0], tv[1], list(tv[2])]
            fin = level >= 0
            # ---- intersection
            inter = None
            try:
                inter = intersection(d1, d2, level=level)
            except Exception as e:
                _viol(dict(case, law="intersection-glb"), "raised " + _exc_name(e), "a dictionary",
                              {"law": "intersection-glb", "raised": _exc_name(e)})
            if inter is not None:
                exp = R.glb([p1, p2], level)
                _outcome(res, "I", inter)
                if not (R.isdict(inter) and inter == exp):
                    cause = _diff_cause("intersection-glb", inter, exp, p1, p2, level)
                    cause["n"] = 2
                    _viol(dict(case, law="intersection-glb"), inter, exp, cause)
                sh = _shared(inter, (d1, d2))
                if sh is not None:
                    _viol(dict(case, law="intersection-deepcopy"),
                                  "result shares a %s with argument %d" % sh, "no shared mutable object",
                                  {"law": "intersection-deepcopy", "shared": sh[0], "n": 2})
                elif len(T.containers(inter)) > 1:
                    res.count("deepcopy_checked_with_nested_containers")
                if commut:
                    try:
                        inter2 = intersection(d2, d1, level=level)
                    except Exception as e:
                        inter2 = "raised " + _exc_name(e)
                    if (T.plain(inter2) != T.plain(inter)) if tv else (inter2 != inter):
                        _viol(dict(case, law="intersection-commutative"), [inter, inter2],
                                      "equal results",
                                      {"law": "intersection-commutative", "finite_level": fin})
            # ---- difference
            dif = None
            try:
                dif = difference(d1, d2, level=level)
            except Exception as e:
                _viol(dict(case, law="difference-ref"), "raised " + _exc_name(e), "a dictionary",
                              {"law": "difference-ref", "raised": _exc_name(e)})
            if dif is not None:
                exp = R.diff(p1, p2, level)
                _outcome(res, "D", dif)
                if not (R.isdict(dif) and dif == exp):
                    _viol(dict(case, law="difference-ref"), R.fresh(dif), exp,
                                  _diff_cause("difference-ref", dif, exp, p1, p2, level))
            # ---- arguments unchanged (cheap test here, typed test below)
            if d1 != p1 or d2 != p2:
                which = 1 if d1 != p1 else 2
                _viol(dict(case, law="argument-unchanged"), [R.fresh(d1), R.fresh(d2)], [p1, p2],
                              {"law": "argument-unchanged", "functions": "intersection/difference",
                               "arg": which})
                d1, d2 = mk1(), mk2()
            # ---- reconstruct d1 from the two parts, with the real update_recursively
            if R.isdict(inter) and R.isdict(dif):
                try:
                    update_recursively(inter, dif)
                    rec = inter
                except Exception as e:
                    rec = "raised " + _exc_name(e)
                if rec != p1:
                    if R.isdict(rec):
                        cause = _diff_cause("reconstruct", rec, p1, p1, p2, level)
                    else:
                        cause = {"law": "reconstruct", "raised": rec}
                    _viol(dict(case, law="reconstruct"), R.fresh(rec), p1, cause)
                if d1 != p1:  # update_recursively wrote through an alias into d1
                    _viol(dict(case, law="argument-unchanged"), R.fresh(d1), p1,
                                  {"law": "argument-unchanged", "functions": "difference+update_recursively",
                                   "arg": 1})
                    d1 = mk1()
            res.case(nontrivial=nontriv)
            if alias:
                res.count("pairs_with_shared_subdictionaries")
            if tv:
                res.count("level_cases_with_arguments_of_a_dict_subtype")
                if hook:
                    res.count("level_cases_where_a_defaultdict_argument_lacks_a_key_of_the_other")
                if R.isdict(inter):
                    _outcome(res, "T", type(inter).__name__)
        # the arguments survived all levels: typed comparison once more
        if _canon(d1) != f1 or _canon(d2) != f2:
            _viol({"kind": "pair", "d1": p1, "d2": p2, "level": levels[-1],
                           "law": "argument-unchanged"}, [R.fresh(d1), R.fresh(d2)], [p1, p2],
                          {"law": "argument-unchanged", "functions": "intersection/difference",
                           "arg": 1 if _canon(d1) != f1 else 2})
        elif tv and levels:
            # ... and no container of an argument became a container of another type
            t1, t2 = T.tcanon(mk1()), T.tcanon(mk2())
            if T.tcanon(d1) != t1 or T.tcanon(d2) != t2:
                which = 1 if T.tcanon(d1) != t1 else 2
                _viol({"kind": "pair", "d1": p1, "d2": p2, "level": levels[-1],
                       "law": "argument-unchanged"}, repr([T.tcanon(d1), T.tcanon(d2)]), repr([t1, t2]),
                      {"law": "argument-unchanged", "functions": "intersection/difference",
                       "arg": which, "what": "container-type"})

    if only in (None, "update_recursively"):
        check_update_recursively(res, p1, p2, nontriv)
    if only in (None, "update_nested"):
        for key in keys:
            check_update_nested(res, key, p1, p2)
    if only in (None, "typed"):
        for tv in typed:
            tv = tuple(tv)
            check_update_recursively(res, p1, p2, nontriv, tv)
            for key in keys:
                check_update_nested(res, key, p1, p2, tv)


def check_update_recursively(res, p1, p2, nontriv, tv=None):
    case = {"kind": "pair", "d1": p1, "d2": p2, "law": "update_recursively"}
    mk1, mk2 = _makers(p1, p2, tv)
    d, other = mk1(), mk2()
    try:
        ret = update_recursively(d, other)
        err = None
    except Exception as e:
        ret, err = None, _exc_name(e)
    exp = R.merge(p1, p2)
    res.case(nontrivial=nontriv)
    _outcome(res, "U", d)
    if err is not None:
        case, cause = _typed_case(case, {"law": "update_recursively", "raised": err}, tv)
        res.violation(case, "raised " + err, exp, cause)
        return
    if d != exp or ret is not None:
        if not R.contained(p2, d):
            sub = "other-not-contained"
        elif any(R.lookup(exp, p, R.ABSENT) == v and R.lookup(d, p, R.ABSENT) != v
                 for p, v in R.atoms(p1)):
            sub = "item-of-d-lost"
        elif ret is not None:
            sub = "returned-a-value"
        else:
            sub = "result-differs"
        fd = R.first_difference(d, exp)
        case, cause = _typed_case(case, {"law": "update_recursively", "sublaw": sub,
                                         "diff": fd[1] if fd else "none"}, tv)
        res.violation(case, T.plain(d), exp, cause)


def _chain_end(other, key):
    """Follow other[key][key]... : ('dict', n) when it ends in a dictionary without the key after n
    steps, ('nondict', n) when a value on the chain is not a dictionary."""
    cur, n = other, 0
    while True:
        if not R.isdict(cur):
            return "nondict", n
        if key not in cur:
            return "dict", n
        cur = cur[key]
        n += 1


def check_update_nested(res, key, p1, p2, tv=None):
    case = {"kind": "pair", "d1": p1, "d2": p2, "key": key, "law": "update_nested"}
    case = _typed_case(case, {}, tv)[0]
    mk1, mk2 = _makers(p1, p2, tv)
    d, other = mk1(), mk2()
    had = key in d
    prev = d.get(key)
    others_before = {k: v for k, v in d.items() if k != key}
    end, n = _chain_end(p2, key)
    try:
        update_nested(key, d, other)
        err = None
    except Exception as e:
        err = e
    res.case(nontrivial=had and n > 0)
    _outcome(res, "N", d if err is None else _exc_name(err))
    undefined = had and end == "nondict"
    if undefined:
        res.count("update_nested_other_chain_ends_in_nondict")
    if err is not None:
        if undefined:
            # outside the documented domain (rule R1/R3: C07 names no exception types): the call cannot
            # keep both other's scalar and the previous value, any exception is accepted
            return
        res.violation(case, "raised " + _exc_name(err), "previous d[key] reachable under the new d[key]",
                      _typed_case(case, {"law": "update_nested", "raised": _exc_name(err),
                                         "other_key_chain": "ends-in-" + end, "key_in_d": had}, tv)[1])
        return
    problems = []
    new = d.get(key, R.ABSENT)
    if new is R.ABSENT:
        problems.append("key-missing")
    elif had:
        # the statement: the previous d[key] stays reachable under the new one
        cur, found = new, False
        for _ in range(12):
            if not R.isdict(cur) or key not in cur:
                break
            cur = cur[key]
            # the same object, or (a copying implementation) an equal value; the exact shape of
            # the result is judged separately below
            if cur is prev or (type(cur) is type(prev) and cur == p1[key]):
                found = True
                break
        if not found:
            problems.append("previous-value-unreachable")
    # the other items of d are the same objects with the same values
    for k, v in others_before.items():
        if k not in d or d[k] is not v or v != p1[k]:
            problems.append("other-item-of-d-changed")
            break
    if set(d) - set(others_before) - {key}:
        problems.append("foreign-key-added")
    if not problems and not undefined:
        # docstring: d[key] becomes other, whose data are preserved, with the previous value inserted
        # at the deepest other.key.key...
        exp = R.fresh(p2)
        if had:
            cur = exp
            while key in cur:
                cur = cur[key]
            cur[key] = R.fresh(p1[key])
        if new != exp:
            problems.append("data-of-other-not-preserved")
    if problems:
        res.violation(case, T.plain(d), "see law",
                      _typed_case(case, {"law": "update_nested", "problem": problems[0],
                                         "other_key_chain": "ends-in-" + end, "key_in_d": had}, tv)[1])


# -- single dictionaries, triples ----------------------------------------------------------------

def check_single(res, p, levels, tv=None):
    """*tv*: (kind, depth) of mc.ref.c07_types - the dictionary is made of that subtype of dict."""
    def mk():
        return T.wrap(p, tv[0], tv[1]) if tv else R.fresh(p)
    extra = {"argument_type": tv[0]} if tv else {}
    for level in levels:
        case = {"kind": "single", "d1": p, "level": level}
        if tv:
            case["typed"] = [tv[0], tv[1]]
        d = mk()
        for form, args in (("one-argument", (d,)), ("same-argument-twice", (d, d)),
                           ("equal-arguments", (d, mk()))):
            try:
                got = intersection(*args, level=level)
            except Exception as e:
                got = "raised " + _exc_name(e)
            if got != p or not R.isdict(got):
                res.violation(dict(case, law="intersection-idempotent", form=form), T.plain(got), p,
                              dict(extra, law="intersection-idempotent", form=form, finite_level=level >= 0))
            elif _shared(got, args) is not None:
                res.violation(dict(case, law="intersection-deepcopy", form=form), "shares %s with argument %d"
                              % _shared(got, args), "no shared mutable object",
                              dict(extra, law="intersection-deepcopy", shared=_shared(got, args)[0],
                                   n=len(args)))
            try:
                got = difference(d, args[-1], level=level)
            except Exception as e:
                got = "raised " + _exc_name(e)
            if got != {}:
                res.violation(dict(case, law="difference-self", form=form), T.plain(got), {},
                              dict(extra, law="difference-self", form=form))
        if T.tcanon(d) != T.tcanon(mk()):
            res.violation(dict(case, law="argument-unchanged"), T.plain(d), p,
                          dict(extra, law="argument-unchanged", functions="intersection/difference", arg=1))
        res.case(nontrivial=len(R.containers(p)) > 1)


def check_triple(res, pa, pb, pc, levels):
    nontriv = _common_differing(pa, pb) or _common_differing(pb, pc) or _common_differing(pa, pc)
    a, b, c = R.fresh(pa), R.fresh(pb), R.fresh(pc)
    fa, fb, fc = _canon(pa), _canon(pb), _canon(pc)
    for level in levels:
        case = {"kind": "triple", "d1": pa, "d2": pb, "d3": pc, "level": level}
        fin = level >= 0
        exp = R.glb([pa, pb, pc], level)
        try:
            flat = intersection(a, b, c, level=level)
            left = intersection(intersection(a, b, level=level), c, level=level)
            right = intersection(a, intersection(b, c, level=level), level=level)
        except Exception as e:
            res.violation(dict(case, law="intersection-glb"), "raised " + _exc_name(e), exp,
                          {"law": "intersection-glb", "raised": _exc_name(e), "n": 3})
            res.case(nontrivial=nontriv)
            continue
        _outcome(res, "I3", flat)
        if not (R.isdict(flat) and flat == exp):
            fd = R.first_difference(flat, exp)
            res.violation(dict(case, law="intersection-glb"), flat, exp,
                          {"law": "intersection-glb", "n": 3, "diff": fd[1] if fd else "none",
                           "at_level_limit": bool(fd) and level > 0 and len(fd[0]) == level})
        if not (left == flat and right == flat):
            res.violation(dict(case, law="intersection-associative"), {"flat": flat, "left": left, "right": right},
                          "three equal results",
                          {"law": "intersection-associative", "finite_level": fin,
                           "left_differs": left != flat, "right_differs": right != flat})
        sh = _shared(flat, (a, b, c))
        if sh is not None:
            res.violation(dict(case, law="intersection-deepcopy"),
                          "result shares a %s with argument %d" % sh, "no shared mutable object",
                          {"law": "intersection-deepcopy", "shared": sh[0], "n": 3})
        if a != pa or b != pb or c != pc:
            res.violation(dict(case, law="argument-unchanged"), [R.fresh(a), R.fresh(b), R.fresh(c)],
                          [pa, pb, pc],
                          {"law": "argument-unchanged", "functions": "intersection", "n": 3})
            a, b, c = R.fresh(pa), R.fresh(pb), R.fresh(pc)
        res.case(nontrivial=nontriv)
    if _canon(a) != fa or _canon(b) != fb or _canon(c) != fc:
        res.violation({"kind": "triple", "d1": pa, "d2": pb, "d3": pc, "level": levels[-1],
                       "law": "argument-unchanged"}, [R.fresh(a), R.fresh(b), R.fresh(c)], [pa, pb, pc],
                      {"law": "argument-unchanged", "functions": "intersection", "n": 3})


def check_nary(res):
    """intersection() == {}; four and five arguments against the reference on a tiny family."""
    try:
        got = intersection()
    except Exception as e:
        got = "raised " + _exc_name(e)
    res.case(nontrivial=True, outcome=("I0", repr(got)))
    if got != {} or not R.isdict(got):
        res.violation({"kind": "nary", "law": "intersection-empty"}, got, {}, {"law": "intersection-empty"})
    fam = R.family([AB], [0, 1])  # 9 dictionaries
    import itertools
    for n in (4, 5):
        for combo in itertools.product(range(len(fam)), repeat=n):
            ps = [fam[i] for i in combo]
            for level in (-1, 0, 1):
                args = [R.fresh(p) for p in ps]
                exp = R.glb(ps, level)
                try:
                    got = intersection(*args, level=level)
                except Exception as e:
                    got = "raised " + _exc_name(e)
                res.case(nontrivial=any(_common_differing(x, y) for x in ps for y in ps))
                if got != exp:
                    res.violation({"kind": "nary", "law": "intersection-glb", "ds": ps, "level": level},
                                  got, exp, {"law": "intersection-glb", "n": n})
    res.sample({"kind": "nary", "ds": [fam[1], fam[2], fam[3], fam[4]], "level": -1}, 1)


# -- reference self-check ---------------------------------------------------------------------------

class ReferenceDisagreement(Exception):
    """My two formulations of the reference disagree: an error of the harness, never a verdict."""


def selfcheck(res, tier):
    """(1) recursive and path-set formulations of the difference agree; (2) glb() really is the
    greatest lower bound (brute force over a downward-closed family); (3) the reference itself
    satisfies the reconstruct law."""
    fams = [R.family([AB, AB], [0, 1]), R.family([("a",)] * 3, LEAVES_ALL)]
    if tier == "thorough":
        fams.append(R.family([AB, AB, ("a",)], [0]))
    n = 0
    for fam in fams:
        for p1 in fam:
            for p2 in fam:
                for level in LEVELS:
                    d_rec = R.diff(p1, p2, level)
                    if d_rec != R.diff_by_atoms(p1, p2, level):
                        raise ReferenceDisagreement(("diff", p1, p2, level))
                    g = R.glb([p1, p2], level)
                    if not (R.contained(g, p1, level) and R.contained(g, p2, level)):
                        raise ReferenceDisagreement(("glb not contained", p1, p2, level))
                    if g != R.glb([p2, p1], level):
                        raise ReferenceDisagreement(("glb not symmetric", p1, p2, level))
                    if R.merge(g, d_rec) != p1:
                        raise ReferenceDisagreement(("reference reconstruct", p1, p2, level))
                    if not R.contained(d_rec, p1):
                        raise ReferenceDisagreement(("diff not within d1", p1, p2, level))
                    n += 1
    small = R.family([AB, AB], [0])  # 36 dictionaries, downward closed
    chain = R.family([("a",)] * 3, [0, ""])
    for fam in (small, chain):
        for p1 in fam:
            for p2 in fam:
                for level in LEVELS:
                    g = R.glb([p1, p2], level)
                    for x in fam:
                        if R.contained(x, p1, level) and R.contained(x, p2, level) \
                                and not R.contained(x, g, level):
                            raise ReferenceDisagreement(("glb not greatest", p1, p2, level, x))
                        n += 1
    res.count("reference_selfcheck_comparisons", n)
    res.case(nontrivial=False)


# -- operation histories over two dictionaries ----------------------------------------------------------
# update_recursively accepts a dot-separated string (with or without an explicit value) for *other*.
# The string form must mean the same as the dictionary it denotes, whatever was done before with other
# dictionaries: every sequence of updates of two dictionaries c1, c2 is compared, after every step, with
# the reference merge applied to plain copies (start from non-initial states; calls that share a parser).

HIST_STARTS = [({}, {}), ({"a": 0}, {"b": {"a": 1}}), ({"a": {"b": 1}}, {"a": {}})]
HIST_OTHERS = [("s", "a.b"), ("s", "a.b.c"), ("s", "b.a"), ("sv", "a.b", 7), ("sv", "a.b", {"c": 1}),
               ("sv", "a", 0), ("d", {"a": {"b": "x", "c": 2}}), ("d", {"a": {"b": {"c": 1}}}), ("d", {"b": 5}),
               # dictionary values that leave items of an existing a.b alone
               ("sv", "a.b", {"d": 2}), ("sv", "a.b", {})]


def _denoted(o):
    """The dictionary a form of *other* denotes (own parser)."""
    if o[0] == "d":
        return R.fresh(o[1])
    parts = o[1].split(".")
    val = R.fresh(o[2]) if o[0] == "sv" else parts.pop()
    for k in reversed(parts):
        val = {k: val}
    return val


def _fails_in_fresh_process(case):
    """Replay *case* through `./check C07 --replay` in a new interpreter: True iff it is a violation
    there. A failure that depends on what this worker process did before (module-level state in the
    code under test) is not trusted until it is reproduced from a fresh interpreter."""
    import os
    import subprocess
    import sys
    import tempfile
    fd, path = tempfile.mkstemp(prefix="lena-verif-c07-", suffix=".json")
    try:
        with os.fdopen(fd, "w") as f:
            json.dump({"case": dict(case, in_process=True)}, f)
        root = os.path.dirname(os.path.dirname(os.path.dirname(os.path.abspath(__file__))))
        p = subprocess.run([sys.executable, "-m", "mc.core", "C07", "--replay", path], cwd=root,
                           stdout=subprocess.DEVNULL, stderr=subprocess.DEVNULL)
        return p.returncode == 1
    finally:
        os.remove(path)


def _self_contained(start, prefix, hist):
    """A short list of histories, ending with *hist*, whose last history fails when the list is
    executed from a fresh interpreter, or None. The polluting earlier history is located by bisection
    over the histories this worker executed before; every trial is a fresh interpreter."""
    def seq(hs):
        return {"kind": "history-seq", "law": "update-history", "start": start,
                "hists": [[list(e) for e in h] for h in hs]}

    def trial(hs):
        return _fails_in_fresh_process(seq(hs))

    import os
    if os.environ.get("VERIF_DEBUG_NO_SHRINK"):      # self-test of the runner's shard-replay fallback
        return None

    if trial([hist]):
        return seq([hist])
    if not trial(list(prefix) + [hist]):
        return None
    lo, hi = 0, len(prefix)          # smallest k such that prefix[:k] + [hist] fails
    while lo < hi:
        mid = (lo + hi) // 2
        if trial(list(prefix[:mid]) + [hist]):
            hi = mid
        else:
            lo = mid + 1
    keep = list(prefix[:lo])
    if keep and trial([keep[-1], hist]):
        return seq([keep[-1], hist])
    i = 0
    while i < len(keep) - 1 and len(keep) <= 40:      # one-at-a-time removal (the last one is needed)
        rest = keep[:i] + keep[i + 1:]
        if trial(rest + [hist]):
            keep = rest
        else:
            i += 1
    return seq(keep + [hist])


def check_history(res, start, hist, prefix=None):
    """hist: list of (target index, index into HIST_OTHERS). Judges every step."""
    real = [R.fresh(HIST_STARTS[start][0]), R.fresh(HIST_STARTS[start][1])]
    model = [R.fresh(HIST_STARTS[start][0]), R.fresh(HIST_STARTS[start][1])]
    case = {"kind": "history", "law": "update-history", "start": start, "hist": [list(h) for h in hist]}
    for step, (t, oi) in enumerate(hist):
        o = HIST_OTHERS[oi]
        model[t] = R.merge(model[t], _denoted(o))
        try:
            if o[0] == "d":
                update_recursively(real[t], R.fresh(o[1]))
            elif o[0] == "s":
                update_recursively(real[t], o[1])
            else:
                update_recursively(real[t], o[1], R.fresh(o[2]))
            err = None
        except Exception as e:
            err = _exc_name(e)
        last = step == len(hist) - 1
        if last:
            res.case(nontrivial=len(hist) >= 2 and any(HIST_OTHERS[i][0] != "d" for _, i in hist))
            _outcome(res, "H", real)
        if err is not None or real != model:
            if last:      # shorter prefixes are judged as their own histories
                cause = {"law": "update-history", "form": o[0],
                         "wrong": "raised" if err else
                         ("updated" if real[t] != model[t] else "the-other-dictionary"),
                         "earlier_string_updates": any(HIST_OTHERS[i][0] != "d" for _, i in hist[:-1])}
                ckey = json.dumps(cause, sort_keys=True)
                seen = res.__dict__.setdefault("_c07_shrunk", {})
                if prefix is not None and ckey in seen:
                    cause = seen[ckey]          # counted with the first failure of this kind
                elif prefix is not None:
                    # first failure of this kind in this worker: make it self-contained (it may depend
                    # on histories executed earlier in this process)
                    sc = _self_contained(start, prefix, hist)
                    if sc is not None:
                        case = sc
                        cause["needs_earlier_histories"] = len(sc["hists"]) - 1
                    seen[ckey] = cause
                res.violation(case, {"raised": err} if err else {"c1": R.fresh(real[0]), "c2": R.fresh(real[1])},
                              {"c1": model[0], "c2": model[1]}, cause)
            return
    return


def run_histories(res, start, maxlen):
    events = [(t, oi) for t in (0, 1) for oi in range(len(HIST_OTHERS))]
    done = []
    for n in range(1, maxlen + 1):
        for hist in itertools.product(events, repeat=n):
            check_history(res, start, hist, prefix=done)
            done.append(hist)
    res.sample({"kind": "history", "start": start, "hist": [[0, 1], [0, 6], [1, 1]]}, 1)


# -- the string form of *other*, every kind of explicit value -------------------------------------------
# update_recursively(d, "a.b", value) means update_recursively(d, {"a": {"b": value}}) - "the value becomes
# the value of the deepest key" - for every value: falsy ones, containers, strings that read like a key or
# like a dotted path. Without a value the last dot-separated part is the value. Key components are
# non-empty (empty components have no documented meaning).

STR_KEYS = T.key_strings(AB, 3)
STR_VALUES = [0, 1, None, "", "x", False, True, 0.0, [], [0], (), {}, "a", "a.b", ".", " ",
              {"a": 0}, {"b": {}}, {"a": {"b": ""}}]
STR_NOVALUE = [k + "." + v for k in T.key_strings(AB, 2) for v in ("a", "b", "x", "c d")]


def check_strform(res, p, s, vi):
    """vi: index into STR_VALUES, or None for the form without an explicit value."""
    case = {"kind": "strform", "law": "update-string-form", "d1": p, "s": s, "vi": vi}
    if vi is None:
        den = T.denoted_novalue(s)
        value = s.split(".")[-1]
    else:
        value = STR_VALUES[vi]
        den = T.denoted(s, R.fresh(value))
    exp = R.merge(p, den)
    d = R.fresh(p)
    try:
        if vi is None:
            ret = update_recursively(d, s)
        else:
            ret = update_recursively(d, s, R.fresh(value))
        err = None
    except Exception as e:
        ret, err = None, _exc_name(e)
    res.case(nontrivial=s.split(".")[0] in p)
    _outcome(res, "S", d if err is None else err)
    cause = {"law": "update-string-form", "form": "no-value" if vi is None else "value",
             "value_kind": R.kind(value), "value_type": type(value).__name__}
    if err is not None:
        res.violation(case, "raised " + err, exp, dict(cause, raised=err))
    elif d != exp or ret is not None:
        if not R.contained(den, d):
            sub = "other-not-contained"
        elif any(R.lookup(exp, q, R.ABSENT) == v and R.lookup(d, q, R.ABSENT) != v for q, v in R.atoms(p)):
            sub = "item-of-d-lost"
        elif ret is not None:
            sub = "returned-a-value"
        else:
            sub = "result-differs"
        res.violation(case, T.plain(d), exp, dict(cause, sublaw=sub))


def run_strform(res, fam):
    for p in fam:
        for s in STR_KEYS:
            for vi in range(len(STR_VALUES)):
                check_strform(res, p, s, vi)
        for s in STR_NOVALUE:
            check_strform(res, p, s, None)
    res.sample({"kind": "strform", "law": "update-string-form", "d1": fam[len(fam) // 2], "s": "a.b", "vi": 3}, 1)


def run_typed(res, fam, lo, hi, levels, keys):
    for i in range(lo, hi):
        p1 = fam[i]
        for kind in T.KINDS:
            for depth in T.DEPTHS:
                if depth == "all" and not T.has_nested_dict(p1):
                    continue
                check_single(res, p1, levels, (kind, depth))
        for j, p2 in enumerate(fam):
            check_pair(res, p1, p2, levels, keys, commut=(i <= j), only="typed", typed=T.variants(p1, p2))
        res.sample({"kind": "pair", "d1": p1, "d2": fam[(i * 7 + 3) % len(fam)], "level": -1,
                    "typed": ["Context", "top", [1]]}, 1)


# -- runner interface ---------------------------------------------------------------------------------

def run_shard(p, tier):
    res = Result()
    kind = p["kind"]
    if kind == "selfcheck":
        selfcheck(res, tier)
    elif kind == "nary":
        check_nary(res)
    elif kind == "pairs":
        spec = _families(tier)[p["fam"]]
        fam = _family(spec)
        keys = sorted(set(k for ks in spec[0] for k in ks))
        for i in range(p["lo"], p["hi"]):
            p1 = fam[i]
            check_single(res, p1, spec[2])
            for j, p2 in enumerate(fam):
                check_pair(res, p1, p2, spec[2], keys, commut=(i <= j))
            res.sample({"kind": "pair", "d1": p1, "d2": fam[(i * 7 + 3) % len(fam)], "level": -1}, 3)
    elif kind == "histories":
        run_histories(res, p["start"], 4 if tier == "thorough" else 3)
    elif kind == "strform":
        run_strform(res, _family(_strform_families(tier)[p["fam"]]))
    elif kind == "typed":
        spec = _typed_families(tier)[p["fam"]]
        keys = sorted(set(k for ks in spec[0] for k in ks))
        run_typed(res, _family(spec), p["lo"], p["hi"], spec[2], keys)
    elif kind == "triples":
        spec = _triple_families(tier)[p["fam"]]
        fam = _family(spec)
        for i in range(p["lo"], p["hi"]):
            for pb in fam:
                for pc in fam:
                    check_triple(res, fam[i], pb, pc, spec[2])
            res.sample({"kind": "triple", "d1": fam[i], "d2": fam[(i * 5 + 1) % len(fam)],
                        "d3": fam[(i * 3 + 2) % len(fam)], "level": -1}, 2)
    return res


_LEVEL_LAWS = ("intersection-glb", "intersection-deepcopy", "intersection-commutative", "difference-ref",
               "argument-unchanged", "reconstruct")


def replay(case):
    res = Result()
    kind = case.get("kind")
    law = case.get("law")
    if kind == "pair":
        p1, p2 = R.fresh(case["d1"]), R.fresh(case["d2"])
        if case.get("typed"):
            tv = (case["typed"][0], case["typed"][1], tuple(case["typed"][2]))
            check_pair(res, p1, p2, (case["level"],) if "level" in case else (),
                       (case["key"],) if "key" in case else (), commut=True, only="typed", typed=[tv])
            return [v for v in result_violations(res)
                    if v["case"].get("law") == law and v["case"].get("typed") == case["typed"]]
        elif law == "update_recursively":
            check_pair(res, p1, p2, (), (), only="update_recursively")
        elif law == "update_nested":
            check_pair(res, p1, p2, (), (case["key"],), only="update_nested")
        else:
            check_pair(res, p1, p2, (case["level"],), (), commut=True, only="level")
    elif kind == "single":
        check_single(res, R.fresh(case["d1"]), (case["level"],),
                     tuple(case["typed"]) if case.get("typed") else None)
    elif kind == "strform":
        check_strform(res, R.fresh(case["d1"]), case["s"], case["vi"])
    elif kind == "triple":
        check_triple(res, R.fresh(case["d1"]), R.fresh(case["d2"]), R.fresh(case["d3"]), (case["level"],))
    elif kind == "nary":
        check_nary(res)
    elif kind == "history":
        check_history(res, case["start"], [tuple(h) for h in case["hist"]])
    elif kind == "history-seq":
        if case.get("in_process"):
            for h in case["hists"]:
                res = Result()          # only the last history is judged; the others set the scene
                check_history(res, case["start"], [tuple(e) for e in h])
            out = result_violations(res)
            for v in out:
                v["case"] = {k: v2 for k, v2 in case.items() if k != "in_process"}
            return out
        # always from a fresh interpreter: the point of such a case is the state earlier histories left
        import os
        import subprocess
        import sys
        import tempfile
        fd, path = tempfile.mkstemp(prefix="lena-verif-c07-", suffix=".json")
        try:
            with os.fdopen(fd, "w") as f:
                json.dump({"case": dict(case, in_process=True)}, f)
            root = os.path.dirname(os.path.dirname(os.path.dirname(os.path.abspath(__file__))))
            pr = subprocess.run([sys.executable, "-m", "mc.core", "C07", "--replay", path], cwd=root,
                                stdout=subprocess.PIPE, stderr=subprocess.STDOUT, text=True)
        finally:
            os.remove(path)
        if pr.returncode == 1:
            return [{"case": case, "cause": {"law": "update-history"}, "observed": pr.stdout[-1500:],
                     "expected": "every history equals the reference merge when executed in this order "
                                 "from a fresh interpreter"}]
        return []
    return [v for v in result_violations(res) if v["case"].get("law") == law]


LEVEL_TEXT = ("bounded exhaustive exploration: every ordered pair of every nested dictionary over keys {a, b} "
              "up to depth 2 with truthy, falsy and list leaves (quick 900, thorough 3136 dictionaries), of "
              "depth-3 families and of a one-key chain family with all leaf kinds, at every recursion level in "
              "{-1, 0, 1, 2, 3}, plus every ordered triple of the 144-dictionary family, is executed on the "
              "real intersection / difference / update_recursively / update_nested and judged against a "
              "containment / greatest-lower-bound / merge reference and the algebraic laws; the pairs of a "
              "36-dictionary family (thorough 144) also with arguments made of five subtypes of dict "
              "(lena's Context, a bare subclass, OrderedDict, collections.defaultdict with the factories "
              "dict and int - item access creates absent items there), and the string form of update_recursively "
              "for 14 key strings x 19 kinds of explicit value on 171 dictionaries (thorough 927)")
LEVEL_NOTE = ("holds for the enumerated families only (two keys, depth <= 3, eight leaf values); arguments "
              "whose equal sub-dictionaries are one object are included; arguments made of a dict subtype "
              "(Context, a bare subclass, OrderedDict, defaultdict) are included for a small family of pairs only, "
              "not for triples; dictionaries that alias each other across arguments before the call, non-string "
              "keys, subtypes that override dictionary methods or answer for absent keys without storing them "
              "(Counter), key strings with empty components, and the state of d after a call that raised "
              "(update_nested with a recursive other) are outside the alphabet")
TECHNIQUE = ("exhaustive enumeration of dictionary families on the real code against an independent reference "
             "model and differential laws (commutativity, associativity, idempotence, reconstruction, string form "
             "= dictionary form, dict subtype - with and without a __missing__ hook - = dict)")
