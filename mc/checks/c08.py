"""C08 - Context addressing, formatting and update elements touch exactly the named item.

Exhaustive enumeration (driver E1) on the real lena.context functions and elements, judged by the
path-lookup / template / edit reference of mc/ref/c08_model.py:

  * lookup: every (context of a family, key path of length 0..4 - present, absent, through a scalar):
    get_recursively in every notation (dotted string, list, one-key-per-level dictionary in both
    spellings), with and without a default, returns the addressed object itself / the default object
    itself / LenaKeyError; str_to_list gives the list notation; contains agrees with the lookup (plus
    the documented comparison of a scalar with the last component); DeleteContext in its string, list
    and tuple forms removes exactly that item; nothing else changes, the data is the same object;
  * round trip: get_recursively(str_to_dict(s, v), s) is v for every path and value, str_to_dict builds
    exactly the one-key-per-level dictionary;
  * templates: every string of up to N tokens from {literals, fields, '{{', '}}', '{', '}'}: a
    well-formed one renders as literal/field concatenation or raises LenaKeyError when a field is
    absent; an ill-formed one may only raise LenaValueError (construction) / LenaKeyError / ValueError;
  * format_update_with: d afterwards == reference merge of {key: rendered value}; LenaKeyError and d
    untouched when a field is missing;
  * to_string: one string per dictionary whatever the key order, different dictionaries different
    strings, over whole families;
  * UpdateContext: the whole option matrix (update kind x value x default x skip_on_missing x
    raise_on_missing x recursively) x subcontexts x contexts: constructor outcome from a decision table
    written from the docstring, the context after the call == reference edit of a fresh copy, data the
    same object, a copied context item shares no container with its source, the configured value stays
    the configured value after a consumer edited an earlier result;
  * value shapes: every constructible UpdateContext configuration and every DeleteContext key x every
    shape of the value (mc/ref/c08_values.py): (data, context) pairs by the documented rule (plain,
    named tuple, a dict subclass as context, data that itself looks like a pair or holds a dictionary
    with the addressed keys) and data without context that merely resembles a pair (lists, deques,
    tuples of other lengths, a second item that is not a dict, one-shot iterators): the context of a
    pair gets exactly the reference edit, everything that is data stays as it was built;
  * element forms: the same matrix with the element deep-copied, shallow-copied, sent through pickle,
    used before on another context, deep-copied after use: every form acts as a new element does;
  * malformed arguments (a notation the callee does not take, empty or ill-formed dotted strings) end
    in LenaTypeError / LenaValueError or are handled as the same path - never in a foreign exception.
"""
import itertools

import lena.core
from lena.context import (contains, format_context, format_update_with, get_recursively,
                          str_to_dict, str_to_list, to_string, UpdateContext, DeleteContext)

from mc.core import Result, result_violations
from mc.ref import c07c08_dicts as R
from mc.ref import c08_model as M
from mc.ref import c08_values as V

ID = "C08"
LEVEL = "exploration"
DESIGN_REF = "DESIGN.md section 5, C08"
RULE = ("one case = one (context, key path) with all notations and all DeleteContext forms, one (path, "
        "value) round trip, one (template string, context), one (key, value, context) of "
        "format_update_with, one dictionary with all its key orders for to_string, or one (UpdateContext "
        "configuration, subcontext, context) - the latter also per shape of the value (pairs and "
        "look-alikes of pairs) and per life-cycle form of the element (new, deepcopy, copy, pickle, used "
        "before), as (DeleteContext key, context) is; every case is built fresh and executed on the real code. "
        "Non-trivial: a lookup whose path has >= 2 components and starts at a key of the context; a "
        "well-formed template with >= 1 field; a dictionary with >= 2 key orders; an update or deletion "
        "that changes a non-empty context, or that meets a value without context whose data holds a "
        "non-empty dictionary. Template strings are de-duplicated, so cases are distinct by "
        "construction")
ASSUMPTIONS = [
    "contexts are JSON-like trees with keys from {a, b}, depth <= 3, leaves from 0, 1, 'c', '1', None, '', "
    "[], [0] (no booleans next to 0/1, no aliasing inside a context); path components from {a, b, c, 1}",
    "the dictionary notation is accepted in both spellings {'a': {'b': 'c'}} (what str_to_dict builds) and "
    "{'a': {'b': {'c': {}}}} ('at most one key at each level')",
    "the empty path is excluded from the contains/get_recursively agreement (documented todo); dotted "
    "strings with empty components and templates with stray, single or nested braces are judged only by "
    "the exception contract (LenaValueError at construction, LenaKeyError or ValueError when formatting)",
    "template fields are plain dotted paths (format_context: also the !r conversion); key names that are "
    "attributes of Python objects (items, keys...) are outside the alphabet (jinja2 would resolve them)",
    "for a given simple value, a default, or format_update_with's value only equality is demanded (not a "
    "copy); a context item copied by UpdateContext(value=True) must share no container with its source "
    "unless the two paths overlap",
    "UpdateContext(value=True) with a non-string update is not documented: constructing or LenaValueError "
    "are both accepted; DeleteContext with the empty key may clear the context, leave it or raise "
    "LenaTypeError/LenaValueError",
    "a value is a (data, context) pair exactly when it is a tuple (or subclass) of length 2 whose second "
    "item is a dict (or subclass) - the rule documented in lena.flow.functions; every other value is data "
    "without context and the elements work on an empty context for it. Data counts as untouched when it "
    "compares equal (types included) to a newly built one and a one-shot iterator still delivers all items",
    "a copy of an element (copy.deepcopy, copy.copy, pickle round trip) or an element called before is "
    "demanded to act like a new one only where copying succeeds: elements holding a jinja2.Template can "
    "be neither deep-copied nor pickled on the unchanged tree (counter element_form_does_not_exist)",
]
NONTRIVIAL_FLOOR = {"quick": 60000, "thorough": 1500000}
BUDGET_S = {"quick": 240, "thorough": 2400}

AB = ("a", "b")
LENA_EXC = (lena.core.LenaKeyError, lena.core.LenaTypeError, lena.core.LenaValueError)
ARG_EXC_NAMES = ("LenaTypeError", "LenaValueError")


# -- bounds ----------------------------------------------------------------------------------------

def _dom(tier):
    if tier == "thorough":
        return dict(
            lookup_fams=[("chain3", [("a",)] * 3, [0, 1, "c", "1", None, "", [], [0], "ca", ["c"]], 1),
                         ("ab3", [AB, AB, AB], [0], 12),
                         ("ab3a", [AB, AB, ("a",)], [0, 1, "c"], 36),
                         ("ab2", [AB, AB], [0, 1, "c", None, "", [], "1"], 40)],
            paths=M.paths(("a", "b", "c", "1"), range(0, 5)),
            rt_alphabet=("a", "b", "c", "1"),
            tokens=["x", "_a", "{{a}}", "{{a.b}}", "{{c}}", "{{b!r}}", "{{a.b.a}}", "{{", "}}", "{", "}"],
            max_tokens=5, template_shards=32,
            fuw_tokens=3,
            ts_fams=[("ab2-wide", [AB, AB], [0, 1, "c", "", None, [], [0], [0, 1], [1, 0], "0", 1.5]),
                     ("ab3a", [AB, AB, ("a",)], [0, "0", None]),
                     ("ab2-bool", [AB, AB], [True, False, None, "true", "True", []])],
            uc_ctx=[("ab2", [AB, AB], [0, [0]]), ("ab3a", [AB, AB, ("a",)], [0])],
            uc_subs=[p for p in M.paths(AB, range(1, 4))] +
                    [("c",), ("a", "c"), ("c", "a"), ("a", "b", "c"), ("c", "c", "c"), ("a", "a", "a", "a"),
                     ("a", "b", "a", "b"), ("b", "c", "a", "c")],
            uc_simple=[0, None, {}, {"a": 1}, {"b": {"a": [0]}}, [0], 1.5, {"a": {}}],
            uc_ctxvalue=["{{a}}", "{{a.b}}", "{{b}}", "{{c}}", "{{a.b.a}}", "{{b.a}}"],
            uc_templates=["", "x", "{{a}}", "x{{a.b}}_{{c}}", "{{b}}{{a}}", "{{c}}", "{{a.b.a}}-", "a.b",
                          "{{a.a}}{{a.b}}{{b}}", "{{b.a}}"],
            uc_junk=["{{", "{{a}}}}", "{a}", "{{a}}{b}", "}}{{", "{{a", "{{}}"],
            uc_shards=48,
            vs_ctx=VS_CTX + [{"a": 0}] + UC_EXTRA_CTX, vs_shards=12,
            vs_subs=[p for p in M.paths(AB, range(1, 3))] + [("c",), ("a", "c"), ("c", "a"), ("a", "b", "a")],
            ef_ctx="uc", ef_shards=6, ef_forms=EF_FORMS,
            ef_subs=[p for p in M.paths(AB, range(1, 3))] + [("c",), ("a", "c"), ("c", "a"), ("a", "b", "a")],
        )
    return dict(
        lookup_fams=[("chain3", [("a",)] * 3, [0, 1, "c", "1", None, "", [], [0], "ca", ["c"]], 1),
                     ("ab3a", [AB, AB, ("a",)], [0], 4),
                     ("ab2", [AB, AB], [0, 1, "c", None], 12)],
        paths=M.paths(("a", "b", "c"), range(0, 5)) + [p + ("1",) for p in M.paths(AB, range(0, 4))],
        rt_alphabet=("a", "b", "c"),
        tokens=["x", "_a", "{{a}}", "{{a.b}}", "{{c}}", "{{b!r}}", "{{", "}}", "{", "}"],
        max_tokens=4, template_shards=4,
        fuw_tokens=2,
        ts_fams=[("ab2-wide", [AB, AB], [0, 1, "c", "", None, [], [0, 1], [1, 0], "0"]),
                 ("ab2-bool", [AB, AB], [True, False, None, "true"])],
        uc_ctx=[("ab2", [AB, AB], [0])],
        uc_subs=[p for p in M.paths(AB, range(1, 3))] +
                [("c",), ("a", "c"), ("c", "a"), ("a", "b", "a"), ("a", "b", "c"), ("a", "a", "a", "a")],
        uc_simple=[0, None, {}, {"a": 1}, {"b": {"a": [0]}}, [0]],
        uc_ctxvalue=["{{a}}", "{{a.b}}", "{{b}}", "{{c}}"],
        uc_templates=["", "x", "{{a}}", "x{{a.b}}_{{c}}", "{{b}}{{a}}"],
        uc_junk=["{{", "{{a}}}}", "{a}", "}}{{"],
        uc_shards=12,
        vs_ctx=VS_CTX, vs_shards=4, vs_subs=[("a",), ("a", "b")],
        ef_ctx=[{}] + UC_EXTRA_CTX + [{"a": {"a": 0, "b": 0}, "b": {"a": 0}}, {"a": 0, "b": 0}], ef_shards=1,
        ef_subs=[("a",), ("a", "b")],
        ef_forms=["deepcopy", "copy", "pickle", "used-on-full", "deepcopy-of-used"],
    )


UC_EXTRA_CTX = [{"a": [0]}, {"a": {"b": [0]}}, {"a": {"a": {"a": 0}}}, {"a": {"b": {"a": [0]}}, "b": ""},
                {"a": None}, {"a": "c", "b": {"a": None}}, {"a": {"b": {"a": {"a": 1}}}},
                # a scalar that reads like the next component of an addressed key (a.b is missing there)
                {"a": "b"}, {"a": {"b": "a"}, "b": "a"}]
# dictionaries a value of every shape is built from (value-shape law)
VS_CTX = [{}, {"a": {"b": 0}, "b": 1}, {"a": {"b": {"a": [0]}}, "b": ""}]
VS_SHAPES = [s for s in V.SHAPES if s not in ("pair", "bare-list")]     # these two: the update matrix, check_bare
EF_FORMS = [f for f in V.FORMS if f != "new"]
DELETE_VARIANT_PATHS = M.paths(AB, range(1, 4)) + [("c",), ("a", "c")]
UC_DEFAULTS = [[], [None], [0], [{"a": [0]}]]
UC_BAD_CTXVALUE = ["x{{a}}", "{{a}}{{b}}", "{{}}", "a", "{{a}}x", "{{a}"]

TEMPLATE_CTX = [{}, {"b": 2}, {"a": 0}, {"a": "", "b": 2}, {"a": None}, {"a": "c", "b": "x"}, {"a": [0]},
                {"a": {}}, {"a": {"b": 1}, "b": 2}, {"a": {"b": ""}}, {"a": {"b": {"a": 0}}, "b": {"a": 1}},
                {"a": {"a": 1}, "c": 3}, {"a": {"b": None}, "b": [], "c": "{{a}}"},
                {"a": {"b": {"a": "x"}}, "b": 0, "c": {"a": 1}}]

ROUNDTRIP_VALUES = [0, 1, "", "c", "a.b", None, [], [0], {}, {"a": 1}, {"a": {"b": []}}, 1.5]

FUW_VALUES = [0, None, "", "x", "a.b", [0], {}, {"a": 1}, {"b": {"a": [0]}}]

ILLFORMED = ["a..b", ".a", "a.", ".", "..", "a.b.", "a...b", ".a.b"]

_CACHE = {}


def _family(keys_by_depth, leaves):
    key = repr((keys_by_depth, leaves))
    if key not in _CACHE:
        _CACHE[key] = R.family(keys_by_depth, leaves)
    return _CACHE[key]


def _templates(tier):
    """Sorted list of the distinct strings that are concatenations of at most max_tokens tokens."""
    key = ("templates", tier)
    if key not in _CACHE:
        d = _dom(tier)
        seen = set()
        for n in range(0, d["max_tokens"] + 1):
            for combo in itertools.product(d["tokens"], repeat=n):
                seen.add("".join(combo))
        _CACHE[key] = sorted(seen, key=lambda s: (len(s), s))
    return _CACHE[key]


def _fuw_strings(tier):
    d = _dom(tier)
    seen = set()
    for n in range(1, d["fuw_tokens"] + 1):
        for combo in itertools.product(d["tokens"], repeat=n):
            seen.add("".join(combo))
    return sorted(seen, key=lambda s: (len(s), s))


def _uc_contexts(tier):
    key = ("uc_ctx", tier)
    if key not in _CACHE:
        out, seen = [], set()
        for _, kbd, leaves in _dom(tier)["uc_ctx"]:
            for p in _family(kbd, leaves):
                f = R.tfreeze(p)
                if f not in seen:
                    seen.add(f)
                    out.append(p)
        for p in UC_EXTRA_CTX:
            f = R.tfreeze(p)
            if f not in seen:
                seen.add(f)
                out.append(p)
        _CACHE[key] = out
    return _CACHE[key]


def _ef_contexts(tier):
    c = _dom(tier)["ef_ctx"]
    return _uc_contexts("quick") if c == "uc" else c


def _uc_raw_configs(tier):
    d = _dom(tier)
    updates = d["uc_simple"] + d["uc_ctxvalue"] + d["uc_templates"] + d["uc_junk"] + UC_BAD_CTXVALUE
    seen, ups = set(), []
    for u in updates:
        if repr(u) not in seen:
            seen.add(repr(u))
            ups.append(u)
    for upd in ups:
        for value in (False, True):
            for default in UC_DEFAULTS:
                for skip in (False, True):
                    for rais in (False, True):
                        for rec in (True, False):
                            yield {"sub": "a", "update": upd, "value": value, "default": default,
                                   "skip": skip, "raise": rais, "rec": rec}


def _uc_split(tier):
    """(configurations that must construct, the others) for a well-formed subcontext."""
    key = ("uc_split", tier)
    if key not in _CACHE:
        good, bad = [], []
        for cfg in _uc_raw_configs(tier):
            e = M.uc_expect_ctor(cfg)
            (bad if e["errors"] else good).append(cfg)
        _CACHE[key] = (good, bad)
    return _CACHE[key]


def describe(tier):
    d = _dom(tier)
    fams = ["%s (keys per depth %s, leaves %r): %d contexts" % (n, [list(k) for k in kbd], lv, len(_family(kbd, lv)))
            for n, kbd, lv, _ in d["lookup_fams"]]
    good, bad = _uc_split(tier)
    return ("lookup/DeleteContext: families %s; %d key paths of length 0..4; round trip: paths of length 1..4 "
            "over %s x %d values; templates: %d distinct strings of <= %d tokens from %r x %d contexts; "
            "format_update_with: %d keys x %d values x %d contexts; to_string: families %s with every key "
            "order; UpdateContext: %d constructible + %d rejected configurations x %d subcontexts x %d contexts; "
            "value shapes: %d shapes %r x constructible configurations x %d subcontexts x %d dictionaries (+ %d "
            "DeleteContext paths); element forms: %r x constructible configurations x %d subcontexts x %d contexts "
            "(+ the DeleteContext paths)"
            % ("; ".join(fams), len(d["paths"]), list(d["rt_alphabet"]), len(ROUNDTRIP_VALUES),
               len(_templates(tier)), d["max_tokens"], d["tokens"], len(TEMPLATE_CTX),
               len(_fuw_keys()), len(FUW_VALUES) + len(_fuw_strings(tier)), len(_fuw_contexts()),
               [n for n, _, _ in d["ts_fams"]], len(good), len(bad), len(d["uc_subs"]),
               len(_uc_contexts(tier)),
               len(VS_SHAPES), VS_SHAPES, len(d["vs_subs"]), len(d["vs_ctx"]), len(DELETE_VARIANT_PATHS),
               d["ef_forms"], len(d["ef_subs"]), len(_ef_contexts(tier))))


def shards(tier):
    d = _dom(tier)
    out = [{"kind": "roundtrip", "bound": "small"}, {"kind": "malformed", "bound": "small"},
           {"kind": "uc-ctor", "bound": "small"}]
    for name, kbd, lv in d["ts_fams"]:
        out.append({"kind": "tostring", "fam": name, "bound": "small"})
    for i in range(4):
        out.append({"kind": "fuw", "i": i, "k": 4, "bound": "small"})
    for i in range(d["template_shards"]):
        out.append({"kind": "template", "i": i, "k": d["template_shards"], "bound": "templates"})
    for name, kbd, lv, k in d["lookup_fams"]:
        n = len(_family(kbd, lv))
        for i in range(k):
            lo, hi = n * i // k, n * (i + 1) // k
            if lo < hi:
                out.append({"kind": "lookup", "fam": name, "lo": lo, "hi": hi, "bound": "lookup-" + name})
    for i in range(d["uc_shards"]):
        out.append({"kind": "update", "i": i, "k": d["uc_shards"], "bound": "update-matrix"})
    for i in range(d["vs_shards"]):
        out.append({"kind": "shapes", "i": i, "k": d["vs_shards"], "bound": "value-shapes"})
    for form in d["ef_forms"]:
        for i in range(d["ef_shards"]):
            out.append({"kind": "forms", "form": form, "i": i, "k": d["ef_shards"], "bound": "element-forms"})
    return out


# -- helpers ---------------------------------------------------------------------------------------

def _ename(e):
    return type(e).__name__


def _split(ret):
    """(data, context, had_context) of a returned value (the documented (data, context) pair rule)."""
    if isinstance(ret, tuple) and len(ret) == 2 and isinstance(ret[1], dict):
        return ret[0], ret[1], True
    return ret, {}, False


def _teq(x, y):
    return R.tfreeze(x) == R.tfreeze(y)


def _path_status_cause(proto, path):
    st, obj = M.find(proto, tuple(path))
    return st, (R.kind(obj) if st == "present" else "none")


# -- lookup: get_recursively, str_to_list, contains ---------------------------------------------------

def check_lookup(res, proto, path, d=None):
    path = tuple(path)
    if d is None:
        d = R.fresh(proto)
    status, obj = M.find(d, path)
    present = status == "present"
    case = {"law": "lookup", "ctx": proto, "path": list(path)}
    base = {"path_status": status, "value": R.kind(obj) if present else "none", "empty_path": not path}
    for name, keys in M.notations(path):
        keys_repr = repr(keys)
        # -- no default: the item itself or LenaKeyError
        try:
            got = get_recursively(d, keys)
            if present:
                o = "ok" if got is obj else ("equal-but-other-object" if _teq(got, obj) else "wrong-value")
            else:
                o = "returned-a-value"
        except lena.core.LenaKeyError:
            o = "LenaKeyError" if present else "ok"
        except Exception as e:
            o = "raised " + _ename(e)
        if o != "ok":
            res.violation(dict(case, notation=name, default="none"), o,
                          "the addressed object" if present else "LenaKeyError",
                          dict(base, law="get_recursively", notation=name, default="none", observed=o))
        # -- a default: the item itself or the default itself
        for dname, dflt in (("object", ["default"]), ("None", None)):
            try:
                got = get_recursively(d, keys, default=dflt)
                want = obj if present else dflt
                if got is want:
                    o = "ok"
                elif present and got is dflt:
                    o = "returned-default-for-present-item"
                elif present:
                    o = "equal-but-other-object" if _teq(got, obj) else "wrong-value"
                else:
                    o = "returned-other-than-default"
            except Exception as e:
                o = "raised " + _ename(e)
            if o != "ok":
                res.violation(dict(case, notation=name, default=dname), o,
                              "the addressed object" if present else "the default object",
                              dict(base, law="get_recursively", notation=name, default="given", observed=o))
        if repr(keys) != keys_repr:
            res.violation(dict(case, notation=name), repr(keys), keys_repr,
                          {"law": "get_recursively-keys-unchanged", "notation": name})
    s = M.dotted(path)
    # -- the list notation of the string
    try:
        got = str_to_list(s)
        o = "ok" if (type(got) is list and got == list(path)) else "wrong-list"
    except Exception as e:
        got, o = None, "raised " + _ename(e)
    if o != "ok":
        res.violation(dict(case, function="str_to_list"), got if got is not None else o, list(path),
                      {"law": "str_to_list", "observed": o, "empty_path": not path})
    # -- contains agrees with the lookup
    exp_c = None
    if path:
        exp_c = M.contains_ref(d, path)
        try:
            got = contains(d, s)
            o = "ok" if (got is True or got is False) and got == exp_c else "disagrees"
        except Exception as e:
            got, o = None, "raised " + _ename(e)
        if o != "ok":
            pst, parent = M.find(d, path[:-1])
            res.violation(dict(case, function="contains"), got if o == "disagrees" else o, exp_c,
                          dict(base, law="contains-agrees", observed=o, expected=exp_c,
                               parent=(R.kind(parent) if pst == "present" else pst)))
    if d != proto:
        res.violation(dict(case, function="all"), R.fresh(d), proto, {"law": "lookup-argument-unchanged"})
    res.case(nontrivial=len(path) >= 2 and path[0] in proto,
             outcome=(status, repr(obj) if present else None, exp_c))
    return case


# -- DeleteContext -------------------------------------------------------------------------------------

def _run_delete(key, proto, bare=False, shape=None, form="new"):
    """-> (outcome, returned data is the given data, returned context, data intact).
    *shape*: the shape of the value (mc/ref/c08_values.py), *form*: the life-cycle form of the element."""
    shape = shape or ("bare-list" if bare else "pair")
    value, data, ctxobj = V.make(shape, proto)
    try:
        el = DeleteContext(key)
    except Exception as e:
        return "ctor " + _ename(e), None, None, None
    el = V.element_in_form(form, el)
    if el is None:
        return "no-such-form", None, None, None
    try:
        ret = el(value)
    except Exception as e:
        return "call " + _ename(e), None, V.plain(ctxobj), V.data_intact(shape, data, proto)
    if ctxobj is None:
        # data without context: the value itself comes back
        return "ok", ret is value, {}, V.data_intact(shape, data, proto)
    rd, rc, _ = _split(ret)
    return "ok", rd is data, V.plain(rc), V.data_intact(shape, data, proto)


def check_delete(res, proto, path, forms=("string", "list", "tuple")):
    path = tuple(path)
    st, vkind = _path_status_cause(proto, path)
    expected = M.delete_path(proto, path)
    case = {"law": "delete", "ctx": proto, "path": list(path)}
    for form in forms:
        key = {"string": M.dotted(path), "list": list(path), "tuple": tuple(path)}[form]
        out, same_data, rc, intact = _run_delete(key, proto)
        problem = None
        if not path:
            # the empty key: clearing, ignoring or rejecting are all accepted
            if out == "ok":
                if not (_teq(rc, {}) or _teq(rc, proto)):
                    problem = "context-neither-cleared-nor-kept"
                elif not (same_data and intact):
                    problem = "data-touched"
            elif out.split()[-1] not in ARG_EXC_NAMES:
                problem = out
        elif out != "ok":
            problem = out
        elif not _teq(rc, expected):
            if _teq(rc, proto):
                problem = "item-not-deleted"
            else:
                fd = R.first_difference(rc, expected)
                problem = "other-item-%s" % (fd[1] if fd else "differs-in-type")
        elif not (same_data and intact):
            problem = "data-touched"
        if problem:
            res.violation(dict(case, form=form), {"problem": problem, "context": rc}, expected,
                          {"law": "delete-exactly-the-item", "form": form, "path_status": st, "value": vkind,
                           "empty_path": not path, "problem": problem})
    res.case(nontrivial=bool(path) and bool(proto) and not _teq(expected, proto),
             outcome=("del", repr(R.tfreeze(expected))))
    return case


def check_delete_variant(res, proto, path, shape="pair", form="new"):
    """DeleteContext called with a value of another *shape* (mc/ref/c08_values.py) or in another
    life-cycle *form* of the element: the item leaves the context of a (data, context) pair and nothing
    else changes; a value that is no pair by the documented rule is data and comes back as it is."""
    path = tuple(path)
    eff = proto if shape in V.PAIR_SHAPES else {}
    expected = M.delete_path(eff, path)
    case = {"law": "delete-variant", "ctx": proto, "path": list(path), "shape": shape, "form": form}
    for kform in ("string", "list"):
        key = {"string": M.dotted(path), "list": list(path)}[kform]
        out, same_data, rc, intact = _run_delete(key, proto, shape=shape, form=form)
        if out == "no-such-form":
            res.count("element_form_does_not_exist:" + form)
            continue
        problem = None
        if out != "ok":
            problem = out
        elif not (same_data and intact):
            problem = "data-touched"
        elif not _teq(rc, expected):
            problem = "item-not-deleted" if _teq(rc, eff) else "other-item-changed"
        if problem:
            res.violation(dict(case, key_form=kform), {"problem": problem, "context": rc}, expected,
                          {"law": "delete-value-shape" if shape != "pair" else "delete-element-form",
                           "shape": shape, "form": form, "problem": problem})
    res.case(nontrivial=bool(proto) and (eff is not proto or not _teq(expected, proto)),
             outcome=("delv", shape in V.PAIR_SHAPES, repr(R.tfreeze(expected))))
    return case


# -- round trip ----------------------------------------------------------------------------------------

def check_roundtrip(res, path, vspec):
    path = tuple(path)
    s = M.dotted(path)
    v = R.fresh(vspec)
    case = {"law": "roundtrip", "path": list(path), "value": vspec}
    vk = R.kind(v)
    try:
        d = str_to_dict(s, v)
    except Exception as e:
        res.violation(case, "str_to_dict raised " + _ename(e), M.nest(path, vspec),
                      {"law": "roundtrip", "step": "str_to_dict", "raised": _ename(e), "value": vk})
        res.case(nontrivial=True)
        return case
    exp = M.nest(path, vspec)
    if not (R.isdict(d) and _teq(d, exp)):
        res.violation(case, d, exp, {"law": "str_to_dict-shape", "value": vk, "components": min(len(path), 2)})
    else:
        for name, keys in M.notations(path):
            try:
                got = get_recursively(d, keys)
                o = "ok" if got is v else ("equal-but-other-object" if _teq(got, v) else "wrong-value")
            except Exception as e:
                o = "raised " + _ename(e)
            if o != "ok":
                res.violation(dict(case, notation=name), o, "is v",
                              {"law": "roundtrip", "step": "get_recursively", "notation": name,
                               "observed": o, "value": vk})
        try:
            c = contains(d, s)
        except Exception as e:
            c = "raised " + _ename(e)
        if c is not True:
            res.violation(dict(case, function="contains"), c, True,
                          {"law": "roundtrip", "step": "contains", "value": vk})
    # the dictionary notation produced by str_to_dict itself (no value)
    if len(path) >= 2:
        try:
            k = str_to_dict(s)
            ok = R.isdict(k) and _teq(k, M.nest(path[:-1], path[-1]))
        except Exception as e:
            k, ok = "raised " + _ename(e), False
        if not ok:
            res.violation(dict(case, function="str_to_dict-without-value"), k, M.nest(path[:-1], path[-1]),
                          {"law": "str_to_dict-shape", "value": "none", "components": 2})
    res.case(nontrivial=True, outcome=("rt", s, repr(vspec)))
    return case


# -- templates: format_context ----------------------------------------------------------------------------

def check_template(res, t, proto):
    parts = M.parse_template(t, conversions=True)
    case = {"law": "template", "template": t, "ctx": proto}
    ctx = R.fresh(proto)
    stage, out = "ctor", None
    try:
        f = format_context(t)
        stage = "call"
        out = f(ctx)
        o = "ok"
    except Exception as e:
        o = _ename(e)
        exc = e
    nfields = len(M.fields_of(parts)) if parts is not None else 0
    if parts is not None:
        ok, text = M.render(parts, proto)
        if ok:
            want = text
            good = o == "ok" and type(out) is str and out == text
        else:
            want = "LenaKeyError"
            good = stage == "call" and o == "LenaKeyError"
        if not good:
            st, vk = ("none", "none")
            if ok:
                # the first field whose rendering differs is not searched for: signature by shape
                pass
            res.violation(case, out if o == "ok" else "%s raised %s" % (stage, o), want,
                          {"law": "format_context", "well_formed": True, "fields": min(nfields, 2),
                           "conversion": any(p[2] for p in M.fields_of(parts)),
                           "all_fields_present": ok, "observed": "wrong-text" if o == "ok" else stage + " " + o})
        res.case(nontrivial=nfields >= 1, outcome=("t", want))
    else:
        # ill-formed: only the exception contract
        if o == "ok":
            good = type(out) is str
        elif stage == "ctor":
            good = isinstance(exc, lena.core.LenaValueError)
        else:
            good = isinstance(exc, (lena.core.LenaKeyError, ValueError))
        if not good:
            res.violation(case, out if o == "ok" else "%s raised %s" % (stage, o),
                          "a string, LenaValueError at construction, LenaKeyError or ValueError when formatting",
                          {"law": "format_context", "well_formed": False, "observed": stage + " " + o})
        res.case(nontrivial=False, outcome=("ti", stage, o if o != "ok" else out))
    if ctx != proto:
        res.violation(dict(case, function="context-unchanged"), R.fresh(ctx), proto,
                      {"law": "format_context-context-unchanged"})
    return case


def check_template_reuse(res, t, protos):
    """One formatter object applied to a sequence of contexts (some of which lack a field): every call
    gives what a formatter made for that call alone gives - the template is parsed once, the fields
    are looked up at call time, nothing of an earlier (also a failed) call remains."""
    case = {"law": "template-reuse", "template": t, "ctxs": list(protos)}

    def one(f, proto):
        try:
            return ("ok", f(R.fresh(proto)))
        except Exception as e:
            return ("exc", _ename(e))

    try:
        shared = format_context(t)
    except Exception:
        return case         # what construction does is check_template's business
    got = [one(shared, proto) for proto in protos]
    want = [one(format_context(t), proto) for proto in protos]
    res.case(nontrivial=len(set(w[0] for w in want)) > 1, outcome=None)
    if got != want:
        i = [k for k in range(len(got)) if got[k] != want[k]][0]
        res.violation(case, got, want,
                      {"law": "format_context-reuse", "after_failed_call": any(w[0] == "exc" for w in want[:i]),
                       "observed": "wrong-text" if got[i][0] == "ok" else "raised"})
    return case


# -- format_update_with ---------------------------------------------------------------------------------

def _fuw_keys():
    return [p for p in M.paths(AB, range(1, 4))] + [("c",), ("a", "c"), ("c", "b"), ("a", "b", "c", "a")]


def _fuw_contexts():
    return _family([AB, AB], [0]) + [{"a": [0]}, {"a": {"b": {"a": 1}}}, {"a": "", "b": None}]


def check_fuw(res, path, vspec, proto):
    path = tuple(path)
    d = R.fresh(proto)
    v = R.fresh(vspec)
    case = {"law": "format_update_with", "key": list(path), "value": vspec, "ctx": proto}
    braces = isinstance(v, str) and ("{" in v or "}" in v)
    parts = M.parse_template(v, conversions=True) if braces else None
    illformed = braces and parts is None
    try:
        format_update_with(M.dotted(path), v, d)
        o = "ok"
    except Exception as e:
        o, exc = _ename(e), e
    st, vk = _path_status_cause(proto, path)
    sig = {"law": "format_update_with", "value_is": "template" if braces else R.kind(v),
           "well_formed": not illformed, "key_status": st, "old_value": vk}
    nontrivial = False
    if illformed:
        if o == "ok":
            st2, item = M.find(d, path)
            good = st2 == "present" and type(item) is str and _teq(d, R.merge(proto, M.nest(path, item)))
            problem = "other-item-changed"
        else:
            good = isinstance(exc, LENA_EXC + (ValueError,)) and _teq(d, proto)
            problem = ("raised " + o) if _teq(d, proto) else "changed-d-and-raised"
        if not good:
            res.violation(case, R.fresh(d), "only d[key] set, or a Lena error/ValueError with d untouched",
                          dict(sig, problem=problem))
    else:
        if parts is not None:
            ok, text = M.render(parts, proto)
        else:
            ok, text = True, vspec
        if ok:
            exp = R.merge(proto, M.nest(path, text))
            good = o == "ok" and _teq(d, exp)
            nontrivial = bool(proto)
            if not good:
                if o != "ok":
                    problem = "raised " + o
                else:
                    st2, item = M.find(d, path)
                    st3, eitem = M.find(exp, path)
                    problem = "other-item-changed" if (st2 == "present" and _teq(item, eitem)) else "wrong-item"
                res.violation(case, R.fresh(d) if o == "ok" else o, exp, dict(sig, problem=problem))
        else:
            good = o == "LenaKeyError" and _teq(d, proto)
            if not good:
                res.violation(case, R.fresh(d) if o == "ok" else o, "LenaKeyError, d untouched",
                              dict(sig, problem="missing-field: " + ("changed-d" if not _teq(d, proto) else o)))
    if not _teq(v, vspec):
        res.violation(dict(case, function="value-unchanged"), v, vspec,
                      {"law": "format_update_with-value-unchanged"})
    res.case(nontrivial=nontrivial, outcome=("fuw", o, repr(R.tfreeze(d))))
    return case


# -- to_string ---------------------------------------------------------------------------------------------

def check_tostring_orders(res, orders):
    """All *orders* are the same dictionary with different key orders. Returns the common string."""
    strings = []
    for od in orders:
        try:
            s = to_string(od)
            if type(s) is not str:
                s = ("not-a-string", repr(s))
        except Exception as e:
            s = ("raised", _ename(e))
        strings.append(s)
    first = strings[0]
    for od, s in zip(orders, strings):
        if s != first or not isinstance(s, str):
            res.violation({"law": "to_string-order", "orders": [M.encode_ordered(orders[0]), M.encode_ordered(od)]},
                          [first, s], "one string for every key order",
                          {"law": "to_string-order",
                           "observed": "differs" if isinstance(s, str) and isinstance(first, str) else repr(s)})
            break
    return first


def check_tostring_pair(res, d1, d2):
    """Two different dictionaries must give different strings."""
    try:
        s1, s2 = to_string(R.fresh(d1)), to_string(R.fresh(d2))
    except Exception as e:
        s1, s2 = "raised " + _ename(e), None
    if s1 == s2 and not _teq(d1, d2):
        res.violation({"law": "to_string-injective", "d1": d1, "d2": d2}, s1, "two different strings",
                      {"law": "to_string-injective"})


def check_tostring_family(res, fam):
    seen = {}
    for proto in fam:
        orders = list(M.all_orders(proto))
        s = check_tostring_orders(res, orders)
        if isinstance(s, str):
            if s in seen:
                check_tostring_pair(res, seen[s], proto)
            else:
                seen[s] = proto
        res.case(nontrivial=len(orders) > 1, outcome=s)
    res.count("to_string_distinct_strings", len(seen))


# -- UpdateContext ------------------------------------------------------------------------------------------

def _build_uc(cfg, upd_obj):
    kw = dict(value=cfg["value"], skip_on_missing=cfg["skip"], raise_on_missing=cfg["raise"],
              recursively=cfg["rec"])
    if cfg["default"]:
        kw["default"] = R.fresh(cfg["default"][0])
    return UpdateContext(R.fresh(cfg["sub"]), upd_obj, **kw)


def _uc_sig(cfg, exp):
    if cfg["default"]:
        missing = "default"
    elif cfg["skip"]:
        missing = "skip"
    elif cfg["raise"]:
        missing = "raise"
    else:
        missing = "unset"
    if sum([bool(cfg["default"]), bool(cfg["skip"]), bool(cfg["raise"])]) > 1:
        missing = "several"
    return {"update_kind": exp["kind"], "subcontext": exp["sub"], "value": bool(cfg["value"]),
            "on_missing": missing, "recursively": bool(cfg["rec"])}


def check_update(res, cfg, proto, bare=False, shape=None, form="new"):
    """*proto* is the dictionary the value is built from: its context when the value's *shape* is a
    (data, context) pair, otherwise a dictionary somewhere inside data that has no context (then the
    element works on the empty context and the dictionary belongs to the data that must not change).
    *form* is the life-cycle form of the element (new, copied, used before ...)."""
    shape = shape or ("bare-list" if bare else "pair")
    given = proto
    if shape not in V.PAIR_SHAPES:
        proto = {}
    exp = M.uc_expect_ctor(cfg)
    case = {"law": "update", "cfg": cfg, "ctx": given, "bare": bare}
    if shape not in ("pair", "bare-list"):
        case["shape"] = shape
    if form != "new":
        case["form"] = form
    sig = _uc_sig(cfg, exp)
    upd_obj = R.fresh(cfg["update"])
    try:
        el = _build_uc(cfg, upd_obj)
        ctor = "ok"
    except Exception as e:
        ctor = _ename(e)
    if exp["errors"]:
        good = ctor in exp["errors"] or ctor in exp["optional"]
        want = sorted(exp["errors"])
    else:
        good = ctor == "ok" or ctor in exp["optional"]
        want = "constructs" + (" (or %s)" % sorted(exp["optional"]) if exp["optional"] else "")
    if not good:
        res.violation(case, "constructor: " + ctor, want, dict(sig, law="update-constructor", observed=ctor))
    if ctor != "ok" or exp["errors"]:
        res.case(nontrivial=False, outcome=("ctor", ctor))
        return case
    if form != "new":
        el = V.element_in_form(form, el)
        if el is None:
            res.count("element_form_does_not_exist:" + form)
            res.case(nontrivial=False, outcome=("no-such-form", form))
            return case

    kind = exp["kind"]
    sub = tuple(cfg["sub"].split("."))
    rec = bool(cfg["rec"])
    strict = exp["sub"] == "ok" and kind in ("simple", "ctxvalue", "template")
    # -- what the call must do
    want_kind, new, src_path = None, None, None
    if strict:
        if kind == "simple":
            want_kind, new = "changed", M.set_path(proto, sub, cfg["update"], rec)
        elif kind == "ctxvalue":
            src_path = tuple(cfg["update"][2:-2].split("."))
            st, item = M.find(proto, src_path)
            if st == "present":
                want_kind, new = "changed", M.set_path(proto, sub, item, rec)
            elif cfg["default"]:
                want_kind, new = "changed", M.set_path(proto, sub, cfg["default"][0], rec)
            elif cfg["skip"]:
                want_kind = "unchanged"
            else:
                want_kind = "LenaKeyError"
        else:
            parts = M.parse_template(cfg["update"])
            ok, text = M.render(parts, proto)
            if ok:
                want_kind, new = "changed", M.set_path(proto, sub, text, rec)
            elif cfg["skip"]:
                want_kind = "unchanged"
            elif cfg["raise"]:
                want_kind = "LenaKeyError"
            else:
                # "If a formatting argument is missing in context, it will be substituted with an
                # empty string."
                want_kind, new = "changed", M.set_path(proto, sub, M.render(parts, proto, missing="")[1], rec)
    # -- the call
    value, data, ctxobj = V.make(shape, given)
    src_ids = None
    if kind == "ctxvalue" and strict:
        st, src_obj = M.find(V.plain(ctxobj) if ctxobj is not None else {}, src_path)
        overlap = src_path[:len(sub)] == sub or sub[:len(src_path)] == src_path
        if st == "present" and not overlap:
            src_ids = R.containers(src_obj)
    try:
        ret = el(value)
        o = "ok"
    except Exception as e:
        ret, o = None, _ename(e)
    rd, rc, had = _split(ret) if o == "ok" else (None, None, False)
    rc = V.plain(rc)
    ctx = V.plain(ctxobj) if ctxobj is not None else {}
    problem = None
    if not ((o != "ok" or rd is data) and V.data_intact(shape, data, given)):
        problem = "data-touched"
    elif strict:
        if want_kind == "LenaKeyError":
            if o != "LenaKeyError":
                problem = "no-LenaKeyError: " + ("returned" if o == "ok" else o)
            elif not _teq(ctx, proto):
                problem = "changed-context-and-raised"
        elif o != "ok":
            problem = "raised " + o
        elif want_kind == "unchanged":
            if not _teq(rc, proto):
                problem = "not-skipped"
        else:
            if not had:
                problem = "no-context-returned"
            elif not _teq(rc, new):
                st2, item = M.find(rc, sub)
                st3, eitem = M.find(new, sub)
                if st2 == "present" and _teq(item, eitem):
                    problem = "other-item-changed"
                elif _teq(rc, proto):
                    problem = "not-updated"
                else:
                    problem = "wrong-item"
            elif src_ids:
                st2, item = M.find(rc, sub)
                if any(i in src_ids for i in R.containers(item)):
                    problem = "copied-item-shares-a-container-with-its-source"
    else:
        # ill-formed subcontext or template: exception contract and the frame only
        if o != "ok":
            if o not in ("LenaKeyError", "LenaTypeError", "LenaValueError"):
                problem = "raised " + o
            elif o == "LenaKeyError" and not cfg["raise"] and kind != "ctxvalue":
                problem = "LenaKeyError-without-raise_on_missing"
        elif exp["sub"] == "ok":
            st2, item = M.find(rc, sub)
            if _teq(rc, proto) and cfg["skip"]:
                pass
            elif not (st2 == "present" and type(item) is str and _teq(rc, M.set_path(proto, sub, item, rec))):
                problem = "other-item-changed"
    if problem is None and not _teq(upd_obj, cfg["update"]):
        problem = "update-argument-mutated"
    if problem:
        st, vk = _path_status_cause(proto, sub) if exp["sub"] == "ok" else ("n/a", "n/a")
        if shape not in ("pair", "bare-list"):
            cause = {"law": "update-value-shape", "shape": shape, "update_kind": sig["update_kind"],
                     "problem": problem}
        elif form != "new":
            cause = {"law": "update-element-form", "form": form, "update_kind": sig["update_kind"],
                     "on_missing": sig["on_missing"], "problem": problem,
                     "expected": want_kind or "contract-only"}
        else:
            cause = dict(sig, law="update-exactly-the-item", problem=problem, target_status=st,
                         target_old_value=vk, expected=want_kind or "contract-only")
        res.violation(case, {"problem": problem, "returned_context": rc if o == "ok" else o},
                      new if new is not None else want_kind, cause)
    # -- the configured value is still the configured value after a consumer edited the first result
    elif strict and want_kind == "changed" and o == "ok" and \
            ((kind == "simple" and R.containers(cfg["update"])) or
             (kind == "ctxvalue" and cfg["default"] and R.containers(cfg["default"][0])
              and M.find(proto, src_path)[0] != "present")):
        for c in list(R.containers(rc).values()):
            c.clear()
        ctx2 = R.fresh(proto)
        try:
            ret2 = el(([2], ctx2))
            rc2 = _split(ret2)[1]
            good = _teq(rc2, new)
        except Exception as e:
            rc2, good = "raised " + _ename(e), False
        res.count("update_given_value_stable_checked")
        if not good:
            res.violation(dict(case, second_call=True), rc2, new,
                          dict(sig, law="update-given-value-stable"))
    res.case(nontrivial=bool(want_kind == "changed" and given and (proto is not given or not _teq(new, proto))),
             outcome=(want_kind, repr(R.tfreeze(new)) if new is not None else o))
    return case


# -- malformed arguments ------------------------------------------------------------------------------------

MALFORMED_CTX = [{}, {"a": {"b": {"c": 1}, "c": 2}, "b": 0}, {"a": 5}]


def check_malformed_delete(res, path, form, proto):
    """DeleteContext documents a dotted string or a list of keys; a dictionary notation must be rejected
    by LenaTypeError/LenaValueError or be handled as the same path."""
    path = tuple(path)
    key = dict(M.notations(path))[form]
    out, same_data, rc, intact = _run_delete(R.fresh(key), proto)
    expected = M.delete_path(proto, path)
    case = {"law": "malformed-delete", "path": list(path), "form": form, "ctx": proto}
    if out == "ok":
        good = _teq(rc, expected) and same_data and intact
    else:
        good = out.split()[-1] in ARG_EXC_NAMES
    res.case(nontrivial=True, outcome=("md", out))
    if not good:
        res.violation(case, out if out != "ok" else rc, "LenaTypeError/LenaValueError, or the item deleted",
                      {"law": "malformed-argument", "callee": "DeleteContext", "notation": form.split("-")[0],
                       "observed": out})
    return case


def check_malformed_fuw(res, path, form, proto):
    path = tuple(path)
    key = R.fresh(dict(M.notations(path))[form])
    d = R.fresh(proto)
    case = {"law": "malformed-fuw", "path": list(path), "form": form, "ctx": proto}
    try:
        format_update_with(key, 7, d)
        out = "ok"
        good = _teq(d, R.merge(proto, M.nest(path, 7)))
    except Exception as e:
        out = _ename(e)
        good = out in ARG_EXC_NAMES and _teq(d, proto)
    res.case(nontrivial=True, outcome=("mf", out))
    if not good:
        res.violation(case, out if out != "ok" else R.fresh(d),
                      "LenaTypeError/LenaValueError with d untouched, or d[key] set",
                      {"law": "malformed-argument", "callee": "format_update_with",
                       "notation": form.split("-")[0], "observed": out})
    return case


def check_illformed_string(res, s, proto):
    """Dotted strings with empty components: undefined result, but only Lena exceptions."""
    case = {"law": "illformed-string", "s": s, "ctx": proto}
    d = R.fresh(proto)
    calls = [
        ("get_recursively", lambda: get_recursively(d, s)),
        ("get_recursively-default", lambda: get_recursively(d, s, default=None)),
        ("contains", lambda: contains(d, s)),
        ("str_to_list", lambda: str_to_list(s)),
        ("str_to_dict", lambda: str_to_dict(s)),
        ("str_to_dict-value", lambda: str_to_dict(s, 1)),
        ("format_update_with", lambda: format_update_with(s, 1, R.fresh(proto))),
        ("format_context", lambda: format_context("{{" + s + "}}")(R.fresh(proto))),
    ]
    for name, thunk in calls:
        try:
            thunk()
            out = "ok"
        except LENA_EXC:
            out = "ok"
        except Exception as e:
            out = _ename(e)
        if out != "ok":
            res.violation(dict(case, function=name), out, "a result or LenaKeyError/LenaTypeError/LenaValueError",
                          {"law": "illformed-string", "callee": name, "observed": out})
    if d != proto:
        res.violation(dict(case, function="argument-unchanged"), d, proto,
                      {"law": "illformed-string", "callee": "read-only functions", "observed": "mutated d"})
    # elements: data untouched whatever happens to the context
    out, same_data, rc, intact = _run_delete(s, proto)
    if not ((out == "ok" and same_data and intact) or out.split()[-1] in ARG_EXC_NAMES + ("LenaKeyError",)):
        res.violation(dict(case, function="DeleteContext"), out, "data untouched or a Lena error",
                      {"law": "illformed-string", "callee": "DeleteContext", "observed": out})
    for upd, kw in ((5, {}), ("{{a}}", {"value": True, "default": [0]}), ("x{{a}}", {})):
        cfg = {"sub": s, "update": upd, "value": kw.get("value", False), "default": kw.get("default", []),
               "skip": False, "raise": False, "rec": True}
        check_update(res, cfg, proto)
    res.case(nontrivial=False, outcome=("ill", s))
    return case


def check_bare(res, path):
    """A value without context: DeleteContext returns it, UpdateContext creates the subcontext."""
    path = tuple(path)
    out, same_data, rc, intact = _run_delete(M.dotted(path), {}, bare=True)
    res.case(nontrivial=False, outcome=("bare", out))
    if not (out == "ok" and same_data and intact and _teq(rc, {})):
        res.violation({"law": "bare-delete", "path": list(path)}, out, "the value itself",
                      {"law": "bare-value", "callee": "DeleteContext", "observed": out})
    for upd in (0, {"a": [0]}, "x", "{{a}}"):
        cfg = {"sub": M.dotted(path), "update": upd, "value": False, "default": [], "skip": False,
               "raise": False, "rec": True}
        check_update(res, cfg, {}, bare=True)


# -- runner interface ------------------------------------------------------------------------------------------

def _lookup_family(tier, name):
    for n, kbd, lv, k in _dom(tier)["lookup_fams"]:
        if n == name:
            return _family(kbd, lv)
    raise KeyError(name)


def run_shard(p, tier):
    d = _dom(tier)
    res = Result()
    kind = p["kind"]
    if kind == "lookup":
        fam = _lookup_family(tier, p["fam"])
        for i in range(p["lo"], p["hi"]):
            proto = fam[i]
            live = R.fresh(proto)
            for path in d["paths"]:
                case = check_lookup(res, proto, path, live)
                if live != proto:
                    live = R.fresh(proto)
                check_delete(res, proto, path)
            res.sample({"law": "lookup", "ctx": proto, "path": list(d["paths"][(i * 37 + 11) % len(d["paths"])])}, 3)
    elif kind == "roundtrip":
        for path in M.paths(d["rt_alphabet"], range(1, 5)):
            for v in ROUNDTRIP_VALUES:
                case = check_roundtrip(res, path, v)
            res.sample(case, 2)
    elif kind == "template":
        ts = _templates(tier)
        for j in range(p["i"], len(ts), p["k"]):
            for proto in TEMPLATE_CTX:
                case = check_template(res, ts[j], proto)
            parts = M.parse_template(ts[j], True)
            if parts and len(M.fields_of(parts)) >= 2:
                # every ordered pair and the whole list of contexts through one formatter
                for a, b in itertools.permutations(range(len(TEMPLATE_CTX)), 2):
                    check_template_reuse(res, ts[j], [TEMPLATE_CTX[a], TEMPLATE_CTX[b]])
                check_template_reuse(res, ts[j], list(TEMPLATE_CTX))
            if M.parse_template(ts[j], True) and len(ts[j]) > 8:
                res.sample(case, 3)
    elif kind == "fuw":
        keys = _fuw_keys()
        values = FUW_VALUES + _fuw_strings(tier)
        n = 0
        for path in keys:
            for v in values:
                n += 1
                if n % p["k"] != p["i"]:
                    continue
                for proto in _fuw_contexts():
                    case = check_fuw(res, path, v, proto)
                res.sample(case, 3)
    elif kind == "tostring":
        for name, kbd, lv in d["ts_fams"]:
            if name == p["fam"]:
                fam = _family(kbd, lv)
                check_tostring_family(res, fam)
                res.sample({"law": "to_string-order",
                            "orders": [M.encode_ordered(o) for o in list(M.all_orders(fam[-1]))[:2]]}, 1)
    elif kind == "uc-ctor":
        good, bad = _uc_split(tier)
        for cfg in bad:
            for sub in ("a", "a.b"):
                case = check_update(res, dict(cfg, sub=sub), {"a": {"b": 0}})
            res.sample(case, 2)
        # subcontexts that are not well-formed strings, with constructible and rejected options
        probe = [cfg for cfg in good if cfg["update"] in (0, "{{a}}", "x")]
        for sub in ["", ["a"], ["a", "b"], {"a": "b"}, {"a": {}}, []]:
            for cfg in probe + bad[:40]:
                check_update(res, dict(cfg, sub=sub), {"a": {"b": 0}})
    elif kind == "malformed":
        for path in M.paths(("a", "b", "c"), range(0, 4)):
            for proto in MALFORMED_CTX:
                for form in ("dict-empty", "dict-leaf"):
                    if form == "dict-leaf" and len(path) < 2:
                        continue
                    if path:
                        case = check_malformed_delete(res, path, form, proto)
                        check_malformed_fuw(res, path, form, proto)
                if path:
                    check_malformed_fuw(res, path, "list", proto)
            if path:
                check_bare(res, path)
        res.sample(case, 1)
        for s in ILLFORMED:
            for proto in MALFORMED_CTX + [{"": {"": 1, "a": 2}, "a": {"": {"b": 3}}}]:
                check_illformed_string(res, s, proto)
    elif kind == "update":
        good, _ = _uc_split(tier)
        ctxs = _uc_contexts(tier)
        mine = [ctxs[j] for j in range(p["i"], len(ctxs), p["k"])]
        for cfg0 in good:
            for sub in d["uc_subs"]:
                cfg = dict(cfg0, sub=M.dotted(sub))
                for proto in mine:
                    case = check_update(res, cfg, proto)
            res.sample(case, 3)
    elif kind == "shapes":
        good, _ = _uc_split(tier)
        mine = [VS_SHAPES[j] for j in range(p["i"], len(VS_SHAPES), p["k"])]
        for shape in mine:
            for proto in d["vs_ctx"]:
                for cfg0 in good:
                    for sub in d["vs_subs"]:
                        case = check_update(res, dict(cfg0, sub=M.dotted(sub)), proto, shape=shape)
                for path in DELETE_VARIANT_PATHS:
                    check_delete_variant(res, proto, path, shape=shape)
            res.sample(case, 2)
    elif kind == "forms":
        good, _ = _uc_split(tier)
        ctxs = _ef_contexts(tier)
        mine = [ctxs[j] for j in range(p["i"], len(ctxs), p["k"])]
        for cfg0 in good:
            for sub in d["ef_subs"]:
                cfg = dict(cfg0, sub=M.dotted(sub))
                for proto in mine:
                    case = check_update(res, cfg, proto, form=p["form"])
        res.sample(case, 2)
        for proto in mine:
            for path in DELETE_VARIANT_PATHS:
                check_delete_variant(res, proto, path, form=p["form"])
    return res


def replay(case):
    res = Result()
    law = case.get("law")
    if law == "lookup":
        check_lookup(res, R.fresh(case["ctx"]), case["path"])
    elif law == "delete":
        check_delete(res, R.fresh(case["ctx"]), case["path"])
    elif law == "roundtrip":
        check_roundtrip(res, case["path"], case["value"])
    elif law == "template":
        check_template(res, case["template"], R.fresh(case["ctx"]))
    elif law == "template-reuse":
        check_template_reuse(res, case["template"], [R.fresh(c) for c in case["ctxs"]])
    elif law == "format_update_with":
        check_fuw(res, case["key"], case["value"], R.fresh(case["ctx"]))
    elif law == "to_string-order":
        check_tostring_orders(res, [M.decode_ordered(o) for o in case["orders"]])
    elif law == "to_string-injective":
        check_tostring_pair(res, case["d1"], case["d2"])
    elif law == "update":
        cfg = dict(case["cfg"])
        check_update(res, cfg, R.fresh(case["ctx"]), bare=bool(case.get("bare")), shape=case.get("shape"),
                     form=case.get("form", "new"))
    elif law == "delete-variant":
        check_delete_variant(res, R.fresh(case["ctx"]), case["path"], shape=case["shape"], form=case["form"])
    elif law == "malformed-delete":
        check_malformed_delete(res, case["path"], case["form"], R.fresh(case["ctx"]))
    elif law == "malformed-fuw":
        check_malformed_fuw(res, case["path"], case["form"], R.fresh(case["ctx"]))
    elif law == "illformed-string":
        check_illformed_string(res, case["s"], R.fresh(case["ctx"]))
    elif law == "bare-delete":
        check_bare(res, case["path"])
    return result_violations(res)


LEVEL_TEXT = ("bounded exhaustive exploration: every context of whole families of nested dictionaries (keys {a, b}, "
              "depth <= 3, truthy/falsy/string/list leaves) x every key path of length 0..4 (present, absent, through "
              "a scalar) in every notation is run through the real get_recursively / contains / str_to_dict / "
              "str_to_list / DeleteContext; every template string of up to 4 (thorough 5) tokens from literals, "
              "fields and stray braces through format_context and format_update_with; every key order of every "
              "dictionary of a family through to_string; the full UpdateContext option matrix x subcontexts x "
              "contexts, and that matrix and the DeleteContext keys again x 24 shapes of the value ((data, context) "
              "pairs and look-alikes that are data) and x the life-cycle forms of the element (deepcopy, copy, "
              "pickle, used before) - all judged by a path-lookup / literal-field-concatenation / edit-of-a-fresh-copy "
              "reference and a constructor decision table written from the docstrings")
LEVEL_NOTE = ("holds for the enumerated alphabet only (two context keys, depth <= 3, path components {a, b, c, 1}, "
              "JSON-like leaves, jinja2 present); ill-formed dotted strings and templates are judged by the "
              "exception contract only; non-string keys, dict subclasses below the top level of a context and aliased "
              "contexts are outside; copies of elements that hold a jinja2 template do not exist and are skipped")
TECHNIQUE = ("exhaustive enumeration of contexts x key paths x notations, template strings and the UpdateContext "
             "option matrix (x value shapes x element life-cycle forms) on the real code against an independent "
             "lookup/template/edit reference model")
